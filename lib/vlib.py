"""Shared machinery for /verif/bin/check.

Pipeline per run (see DESIGN.md §2):
  overlay copy of /repo  ->  inject cfg(kani) harness modules (and container-model import swaps)
  -> cargo kani (CBMC + CaDiCaL) per crate -> parse JSON export + terse log
  -> triage (unwinding / timeout / vacuity = inconclusive; failed check = candidate)
  -> concrete playback of candidates (native run of the same code with the solver's values)
  -> known-finding matching -> evidence file -> exit code.
Nothing here decides a property by sampling: the only verdicts come from the solver.
"""
import fcntl
import hashlib
import json
import os
import re
import resource
import shutil
import signal
import subprocess
import sys
import time
import tomllib

VERIF = os.path.dirname(os.path.dirname(os.path.abspath(__file__)))
REPO = os.environ.get("VERIF_REPO", "/repo")
SCRATCH = os.environ.get("VERIF_SCRATCH", "/var/tmp/gmquic-verif")
HARNESS_DIR = os.path.join(VERIF, "harness")
MODEL_DIR = os.path.join(VERIF, "model")
PROPS_DIR = os.path.join(VERIF, "props")
EVIDENCE_DIR = os.path.join(VERIF, "evidence")
REPLAYS_DIR = os.path.join(VERIF, "replays")
KNOWN_FINDINGS = os.path.join(VERIF, "known_findings.json")

EXIT_OK, EXIT_VIOLATION, EXIT_INCONCLUSIVE = 0, 1, 2


def log(*a):
    print(*a, flush=True)


def env_offline():
    e = dict(os.environ)
    e["CARGO_NET_OFFLINE"] = "true"
    e.pop("RUSTFLAGS", None)
    e.pop("CARGO_ENCODED_RUSTFLAGS", None)
    e.pop("RUSTUP_TOOLCHAIN", None)
    e["CARGO_TERM_COLOR"] = "never"
    return e


# ------------------------------------------------------------------------------------------------
# property description files


def load_prop(pid):
    path = os.path.join(PROPS_DIR, f"{pid}.toml")
    with open(path, "rb") as f:
        d = tomllib.load(f)
    d["id"] = pid
    # registry fragments props/<ID>.<part>.toml: their list-valued keys are appended
    for fn in sorted(os.listdir(PROPS_DIR)):
        if fn.startswith(pid + ".") and fn.endswith(".toml") and fn != f"{pid}.toml":
            with open(os.path.join(PROPS_DIR, fn), "rb") as f:
                frag = tomllib.load(f)
            for k, v in frag.items():
                if isinstance(v, list):
                    d.setdefault(k, [])
                    d[k] = list(d[k]) + v
    d.setdefault("inject", [])
    d.setdefault("swap", [])
    d.setdefault("harness", [])
    for h in d["harness"]:
        h.setdefault("tier", "quick")
        h.setdefault("timeout", 600)
        h.setdefault("expect", "pass")
    return d


def module_path_of(relfile, modname):
    """qbase/src/packet/number.rs + verif_c07 -> (qbase, 'packet::number::verif_c07')"""
    parts = relfile.split("/")
    crate = parts[0]
    assert parts[1] == "src", relfile
    mods = parts[2:]
    last = mods[-1]
    assert last.endswith(".rs")
    last = last[:-3]
    mods = mods[:-1] + ([] if last in ("lib", "mod", "main") else [last])
    return crate, "::".join(mods + [modname])


# ------------------------------------------------------------------------------------------------
# overlay


class InfraError(Exception):
    pass


def build_overlay(prop, root):
    """Copy /repo's working tree to <root>/src and inject the harness modules of this property."""
    src = os.path.join(root, "src")
    os.makedirs(src, exist_ok=True)
    r = subprocess.run(
        ["rsync", "-a", "--delete", "--exclude", "/target", "--exclude", ".git", REPO + "/", src + "/"],
        capture_output=True, text=True)
    if r.returncode != 0:
        raise InfraError("rsync failed: " + r.stderr)
    # copy harness sources and the model crate inside the overlay (playback appends to the copies)
    hdst = os.path.join(src, "verif_harness")
    shutil.copytree(HARNESS_DIR, hdst, dirs_exist_ok=True)
    mdst = os.path.join(src, "verif_model")
    if os.path.isdir(MODEL_DIR):
        shutil.copytree(MODEL_DIR, mdst, dirs_exist_ok=True,
                        ignore=shutil.ignore_patterns("target"))
    # [[anchor]]: source text a harness TRANSCRIBES (call order it cannot execute). If the text is no
    # longer present in the current tree the transcription is stale: the run is inconclusive (exit 2),
    # never a pass.
    for a in prop.get("anchor", []):
        target = os.path.join(src, a["file"])
        if not os.path.isfile(target):
            raise InfraError(f"anchored file {a['file']} no longer exists in /repo")
        norm = lambda t: re.sub(r"\s+", " ", t).strip()
        if norm(a["text"]) not in norm(open(target, errors="replace").read()):
            raise InfraError(f"transcription anchor not found in {a['file']}: `{a['text'][:120]}` — the code a harness "
                             f"transcribes has changed; the transcription in {a.get('harness', 'the harness')} must be reviewed")
    modmap = {}  # harness name -> fully qualified
    crates_with_model = set()
    for inj in prop["inject"]:
        rel = inj["file"]
        target = os.path.join(src, rel)
        if not os.path.isfile(target):
            raise InfraError(f"injection point {rel} no longer exists in /repo")
        hfile = os.path.join(hdst, inj["harness"])
        if not os.path.isfile(hfile):
            raise InfraError(f"harness file {inj['harness']} missing")
        modname = inj.get("mod") or ("verif_" + re.sub(r"\W", "_", os.path.basename(inj["harness"])[:-3]))
        with open(target, "a") as f:
            f.write(f'\n#[cfg(kani)] #[path = "{hfile}"] mod {modname};\n')
        crate, modpath = module_path_of(rel, modname)
        inj["_modpath"] = modpath
        inj["_crate"] = crate
        inj["_hfile"] = hfile
    for sw in prop["swap"]:
        rel = sw["file"]
        target = os.path.join(src, rel)
        if not os.path.isfile(target):
            raise InfraError(f"swap target {rel} no longer exists in /repo")
        text = open(target).read()
        old = sw["from"]
        if text.count(old) < 1:
            raise InfraError(f"container import `{old}` not found in {rel}: the overlay rewrite no longer applies")
        new = sw["to"]
        text = text.replace(old, f"#[cfg(not(kani))] {old}\n#[cfg(kani)] {new}", 1) if sw.get("cfg", True) \
            else text.replace(old, new, 1)
        # The repository's own unit-test modules of a swapped file use std-only conveniences
        # (`vec![..].into()`, `assert_eq!(deque, vec![..])`) that the container model does not offer; they
        # are not part of any claim but would break the NATIVE replay build (`cargo kani playback` compiles
        # the crate's test target with cfg(kani)). Keep them out of kani builds only.
        text = re.sub(r"#\[cfg\(test\)\](\s*\n\s*mod \w+)", r"#[cfg(all(test, not(kani)))]\1", text)
        open(target, "w").write(text)
        crates_with_model.add(rel.split("/")[0])
    for c in prop.get("model_crates", []):
        crates_with_model.add(c)
    feats = prop.get("model_features", [])
    fe = ", features = [" + ", ".join(f'"{x}"' for x in feats) + "]" if feats else ""
    for crate in crates_with_model:
        ct = os.path.join(src, crate, "Cargo.toml")
        text = open(ct).read()
        if "verif_model" not in text:
            text = text.replace("[dependencies]", '[dependencies]\nverif_model = { path = "../verif_model"' + fe + ' }', 1)
            open(ct, "w").write(text)
    if prop.get("patch_bytes"):
        # cfg(kani)-only simplification of bytes::Bytes (static/leaked storage, no vtable dispatch,
        # no integer->pointer round trip); identical to upstream when cfg(kani) is off.
        wt = os.path.join(src, "Cargo.toml")
        text = open(wt).read()
        if "[patch.crates-io]" in text:
            text = text.replace("[patch.crates-io]", '[patch.crates-io]\nbytes = { path = "verif_model/bytes-kani" }', 1)
        else:
            text += '\n[patch.crates-io]\nbytes = { path = "verif_model/bytes-kani" }\n'
        open(wt, "w").write(text)
    return src


def resolve_harnesses(prop):
    """Attach crate / fully-qualified name to each harness entry using the injection table."""
    by_file = {inj["harness"]: inj for inj in prop["inject"]}
    for h in prop["harness"]:
        inj = by_file.get(h["file"])
        if inj is None:
            raise InfraError(f"harness {h['name']} refers to un-injected file {h['file']}")
        h["_crate"] = inj["_crate"]
        h["_fq"] = inj["_modpath"] + "::" + h["name"]
        h["_hfile"] = inj["_hfile"]
        h["_modpath"] = inj["_modpath"]


# ------------------------------------------------------------------------------------------------
# running Kani


def _limit(mem_gb):
    def f():
        os.setsid()
        if mem_gb:
            b = int(mem_gb * (1 << 30))
            resource.setrlimit(resource.RLIMIT_AS, (b, b))
    return f


def compute_unwindset(src, root, crate, harnesses, mem_gb=None):
    """Per-loop unwind bounds (CBMC --unwindset) for harnesses that declare `unwindset = ["<substring of
    the function's display name>:<k>", ...]`. The loops are looked up in the harness's goto binary
    (goto-instrument --show-loops) after a codegen-only build, so the ids always match the current
    tree. Unwinding assertions stay on: a bound that is too small fails the harness (inconclusive),
    it never truncates silently. Returns (unwindset string or None, [log lines])."""
    want = [h for h in harnesses if h.get("unwindset")]
    if not want:
        return None, []
    tdir = os.path.join(root, "target")
    cmd = ["cargo", "kani", "-p", crate, "--target-dir", tdir, "--output-format", "terse",
           "-Z", "unstable-options", "-Z", "stubbing", "--only-codegen", "--exact"]
    for h in want:
        cmd += ["--harness", h["_fq"]]
    r = subprocess.run(cmd, cwd=src, capture_output=True, text=True, env=env_offline(), preexec_fn=_limit(mem_gb))
    if r.returncode != 0:
        raise InfraError("codegen-only build failed:\n" + "\n".join((r.stdout + r.stderr).splitlines()[-30:]))
    pairs = {}
    notes = []
    for h in want:
        cands = []
        for dp, dn, fn in os.walk(os.path.join(tdir, "kani")):
            for f in fn:
                if f.endswith(h["name"] + ".out") and not f.endswith(".symtab.out"):
                    cands.append(os.path.join(dp, f))
        if not cands:
            raise InfraError(f"goto binary of {h['name']} not found for --unwindset lookup")
        gb = max(cands, key=os.path.getmtime)
        out = subprocess.run(["goto-instrument", "--show-loops", gb], capture_output=True, text=True).stdout
        loops = []  # (id, function display)
        cur = None
        for line in out.splitlines():
            m = re.match(r"Loop (\S+):$", line)
            if m:
                cur = m.group(1)
                continue
            m = re.search(r" function (.*)$", line)
            if m and cur:
                loops.append((cur, m.group(1)))
                cur = None
        for spec in h["unwindset"]:
            pat, k = spec.rsplit(":", 1)
            hit = [lid for lid, fn_ in loops if pat in fn_]
            if not hit:
                raise InfraError(f"unwindset pattern `{pat}` of {h['name']} matches no loop in the current tree")
            for lid in hit:
                pairs[lid] = max(int(k), pairs.get(lid, 0))
            notes.append(f"{h['name']}: {pat} -> {len(hit)} loop(s) unwound {k}")
    return ",".join(f"{lid}:{k}" for lid, k in sorted(pairs.items())), notes


def run_kani(src, root, crate, harnesses, jobs, extra_args=(), tag="run", mem_gb=None, wall=None):
    """One `cargo kani` invocation over `harnesses` (all in `crate`). Returns (json|None, logtext, wall_s, cmd)."""
    tdir = os.path.join(root, "target")
    out_json = os.path.join(root, f"{tag}-{crate}.json")
    logf = os.path.join(root, f"{tag}-{crate}.log")
    if os.path.exists(out_json):
        os.remove(out_json)
    per_to = max(h["timeout"] for h in harnesses)
    cmd = ["cargo", "kani", "-p", crate, "--target-dir", tdir, "--output-format", "terse",
           "-Z", "unstable-options", "-Z", "stubbing", "--harness-timeout", f"{per_to}s",
           "--export-json", out_json, "--exact"]
    if jobs and jobs > 1 and "--concrete-playback=print" not in extra_args:
        cmd += ["-j", str(jobs)]
    for h in harnesses:
        cmd += ["--harness", h["_fq"]]
    cmd += list(extra_args)
    uw, _notes = compute_unwindset(src, root, crate, harnesses, mem_gb)
    if uw:
        cmd += ["--cbmc-args", "--unwindset", uw]   # must be the last flag
    t0 = time.time()
    if wall is None:
        # generous global cap: build + sequential worst case divided by jobs
        wall = 900 + per_to * (1 + len(harnesses) // max(1, jobs or 1)) * 1.2
    with open(logf, "w") as lf:
        p = subprocess.Popen(cmd, cwd=src, stdout=lf, stderr=subprocess.STDOUT, env=env_offline(),
                             preexec_fn=_limit(mem_gb))
        try:
            p.wait(timeout=wall)
        except subprocess.TimeoutExpired:
            try:
                os.killpg(p.pid, signal.SIGKILL)
            except ProcessLookupError:
                pass
            p.wait()
    dt = time.time() - t0
    text = open(logf, errors="replace").read()
    data = None
    if os.path.exists(out_json):
        try:
            data = json.load(open(out_json))
        except Exception:
            data = None
    return data, text, dt, " ".join(cmd)


_NOISE = re.compile(r"^(warning|\s*\||\s*=|\s*-->|\s*\d+\s*\|)")


def compile_errors(text):
    errs = [l for l in text.splitlines() if l.startswith("error")]
    return errs


def harness_results(data, text, harnesses):
    """Return dict fq -> result dict:
       status: success | failure | timeout | missing
       failed: [ {description, file, line, function, category} ]
       unwinding: bool ; covers: [(desc, status)] ; counts ; stats"""
    res = {}
    want = {h["_fq"]: h for h in harnesses}
    if data:
        pd = {x["harness_id"]: x["property_details"] for x in data.get("property_details", [])}
        cb = {x["harness_id"]: x for x in data.get("cbmc", [])}
        ed = {x["harness_id"]: x for x in data.get("error_details", [])}
        for r in data.get("verification_results", {}).get("results", []):
            fq = r["harness_id"]
            if fq not in want:
                continue
            checks = r.get("checks", [])
            failed = [c for c in checks if c.get("status") == "Failure"]
            covers = [c for c in checks if c.get("category") == "cover"]
            hfile = want[fq]["_hfile"]
            own_asserts = [c for c in checks if c.get("category") == "assertion"
                           and (c.get("location") or {}).get("file", "").endswith(os.path.basename(hfile))
                           and "verif_harness" in (c.get("location") or {}).get("file", "")]
            st = r.get("status", "").lower()
            res[fq] = {
                "status": "success" if st == "success" else "failure",
                "duration_s": r.get("duration_ms", 0) / 1000.0,
                "failed": [{
                    "description": c.get("description", ""),
                    "function": c.get("function", ""),
                    "file": (c.get("location") or {}).get("file", ""),
                    "line": (c.get("location") or {}).get("line", ""),
                    "category": c.get("category", ""),
                } for c in failed],
                "unwinding": any("unwinding assertion" in c.get("description", "") for c in failed),
                "covers": [(c.get("description", ""), c.get("status", "")) for c in covers],
                "own_asserts": [(c.get("description", ""), c.get("status", "")) for c in own_asserts],
                "counts": pd.get(fq, {}),
                "cbmc": (cb.get(fq) or {}).get("cbmc_stats") or {},
                "error": ed.get(fq, {}),
                "nchecks": len(checks),
            }
            e = ed.get(fq, {})
            if e.get("has_errors") and e.get("error_type") not in ("verification_failure", "assertion_failure"):
                # timeout, out of memory, cbmc crash ...
                res[fq]["status"] = "error:" + str(e.get("error_type")) + ":" + str(e.get("exit_status"))
            if res[fq]["status"] == "failure" and not res[fq]["failed"]:
                res[fq]["status"] = "error:failure-without-failed-check:" + str(e.get("exit_status"))
    # fall back on the log for harnesses without JSON entry
    for fq in want:
        if fq in res:
            continue
        m = re.search(r"Checking harness " + re.escape(fq) + r"\.\.\.", text)
        res[fq] = {"status": "missing" if not m else "error:no-result(killed/timeout?)",
                   "failed": [], "unwinding": False, "covers": [], "own_asserts": [], "counts": {},
                   "cbmc": {}, "duration_s": 0.0, "nchecks": 0, "error": {}}
    return res


# ------------------------------------------------------------------------------------------------
# concrete playback (native replay of a solver counterexample)

_PB_RE = re.compile(r"Concrete playback unit test for `([^`]+)`:\n```\n(.*?)\n```", re.S)


def extract_playback_tests(text):
    out = []
    for m in _PB_RE.finditer(text):
        fq, body = m.group(1), m.group(2)
        mm = re.search(r"fn (kani_concrete_playback_\w+)\(", body)
        chk = re.search(r"/// Check for `([^`]*)`: (.*)", body)
        # NOTE: tests labelled `cover` are kept: Kani de-duplicates tests with identical concrete values,
        # so the trace of a failed assertion may be printed under the label of a cover it also satisfies.
        # A pure reachability witness simply passes natively; only a native panic confirms a violation.
        out.append({"harness": fq, "test_name": mm.group(1) if mm else None, "body": body,
                    "check": chk.group(2).strip() if chk else ""})
    return out


def run_playback(src, root, crate, hfile_tests, profile_release=False, timeout=1800):
    """Append generated unit tests to the overlay copies of the harness files and run them natively
    with ONE `cargo kani playback` invocation for the crate (the test build dominates the cost).
    hfile_tests: list of (harness file path, [test dicts]).
    Returns dict test_name -> ('panicked' | 'passed' | 'error', message)."""
    names = []
    for hfile, tests in hfile_tests:
        with open(hfile, "a") as f:
            for t in tests:
                f.write("\n" + t["body"] + "\n")
                names.append(t["test_name"])
    results = {}
    tdir = os.path.join(root, "target-playback")
    cmd = ["cargo", "kani", "playback", "-Z", "concrete-playback", "-p", crate]
    if profile_release:
        cmd += ["--release"]
    cmd += ["--", "kani_concrete_playback_", "--test-threads", "4"]
    e = env_offline()
    e["CARGO_TARGET_DIR"] = tdir
    try:
        r = subprocess.run(cmd, cwd=src, capture_output=True, text=True, env=e, timeout=timeout)
        out = r.stdout + r.stderr
    except subprocess.TimeoutExpired:
        return {n: ("error", "playback timeout") for n in names}
    for n in names:
        m = re.search(r"^test \S*" + re.escape(n) + r" \.\.\. (\w+)", out, re.M)
        if not m:
            results[n] = ("error", out[-600:])
        elif m.group(1) == "FAILED":
            mm = re.search(r"---- \S*" + re.escape(n) + r" stdout ----\n(.*?)(?=\n---- |\nfailures:|\Z)", out, re.S)
            msg = (mm.group(1) if mm else "")
            msg = "\n".join(l for l in msg.splitlines() if "panicked at" in l or l.strip().startswith("assertion") or "overflow" in l
                            or (l.strip() and not l.startswith("note:") and "stack backtrace" not in l))[:600]
            results[n] = ("panicked", msg)
        elif m.group(1) == "ok":
            results[n] = ("passed", "")
        else:
            results[n] = ("error", m.group(1))
    return results


# ------------------------------------------------------------------------------------------------
# known findings


def load_known_findings():
    if not os.path.exists(KNOWN_FINDINGS):
        return []
    return json.load(open(KNOWN_FINDINGS)).get("findings", [])


def match_finding(findings, pid, harness_name, failed_check):
    """A finding suppresses a failed check only if property, harness and the *site*
    (function + description regex) all match and the entry is open (not 'fixed')."""
    for f in findings:
        if f.get("status") != "open" or f.get("property") != pid:
            continue
        if harness_name not in f.get("harnesses", []):
            continue
        site = f.get("site", {})
        if site.get("function") and not re.search(site["function"], failed_check["function"]):
            continue
        if site.get("description") and not re.search(site["description"], failed_check["description"]):
            continue
        return f
    return None


class Lock:
    def __init__(self, path):
        self.path = path

    def __enter__(self):
        os.makedirs(os.path.dirname(self.path), exist_ok=True)
        self.f = open(self.path, "w")
        fcntl.flock(self.f, fcntl.LOCK_EX)
        return self

    def __exit__(self, *a):
        fcntl.flock(self.f, fcntl.LOCK_UN)
        self.f.close()


def sha_tree(path, exts=(".rs", ".toml")):
    h = hashlib.sha256()
    for dp, dn, fn in sorted(os.walk(path)):
        dn[:] = sorted(d for d in dn if d not in ("target", ".git"))
        for f in sorted(fn):
            if f.endswith(exts):
                p = os.path.join(dp, f)
                h.update(p.encode())
                h.update(open(p, "rb").read())
    return h.hexdigest()[:16]

# ------------------------------------------------------------------------------------------------
# the container model is itself an obligation (DESIGN.md §2.4): model_vs_std_* harnesses


def run_model_diff(root, jobs=4, mem_gb=10, per_to=1500):
    """Run the `model_vs_std_*` Kani harnesses of /verif/model (the array-backed VecDeque model against
    std::collections::VecDeque, symbolic contents and arguments) in a scratch copy.
    Returns (list of pseudo harness entries, dict name -> result, cmd)."""
    mroot = os.path.join(root, "model-diff")
    shutil.rmtree(mroot, ignore_errors=True)
    shutil.copytree(MODEL_DIR, mroot, ignore=shutil.ignore_patterns("target", "bytes-kani", "tests"))
    with open(os.path.join(mroot, "Cargo.toml"), "a") as f:
        f.write("\n[workspace]\n")
    out_json = os.path.join(mroot, "out.json")
    cmd = ["cargo", "kani", "--features", "cap4", "--target-dir", os.path.join(mroot, "target"),
           "--output-format", "terse", "-Z", "unstable-options", "-j", str(jobs),
           "--harness-timeout", f"{per_to}s", "--export-json", out_json, "--harness", "model_vs_std_"]
    logf = os.path.join(mroot, "log.txt")
    with open(logf, "w") as lf:
        p = subprocess.Popen(cmd, cwd=mroot, stdout=lf, stderr=subprocess.STDOUT, env=env_offline(),
                             preexec_fn=_limit(mem_gb))
        try:
            p.wait(timeout=per_to * 4)
        except subprocess.TimeoutExpired:
            try:
                os.killpg(p.pid, signal.SIGKILL)
            except ProcessLookupError:
                pass
            p.wait()
    text = open(logf, errors="replace").read()
    if not os.path.exists(out_json):
        raise InfraError("model_vs_std harnesses produced no result:\n" + "\n".join(text.splitlines()[-20:]))
    data = json.load(open(out_json))
    names = [r["harness_id"] for r in data.get("verification_results", {}).get("results", [])]
    hs = []
    for fq in names:
        hs.append({"name": fq.split("::")[-1], "_fq": fq, "_crate": "verif_model", "tier": "thorough",
                   "_hfile": os.path.join(mroot, "src", "kani_diff.rs"), "timeout": per_to,
                   "claim": "container model obligation: verif_model::VecDeque behaves exactly like std::collections::VecDeque "
                            "for this method group (same return values, same resulting sequence)",
                   "bounds": "concrete element count (see harness name), symbolic u8 contents, symbolic indices/ranges <= 5, CAP = 4",
                   "functions": ["verif_model::VecDeque::*", "std::collections::VecDeque::*"]})
    res = harness_results(data, text, hs)
    return hs, {h["name"]: res[h["_fq"]] for h in hs}, " ".join(cmd)
