use core::cmp::Ordering;
use core::ops::{Bound, Index, IndexMut, RangeBounds};

use crate::CAP;

/// Sequence model: `items[0..len]` are `Some`, the rest `None`.
pub struct VecDeque<T> {
    items: [Option<T>; CAP],
    len: usize,
}

fn empty_arr<T>() -> [Option<T>; CAP] {
    // explicit literal: `core::array::from_fn` / `[const { None }; CAP]` make Kani 0.68 report a
    // spurious "pointer outside object bounds" for some niche-encoded element types
    // (e.g. Option<(ParameterId, ParameterValue)>)
    #[cfg(feature = "cap4")]
    return [None, None, None, None];
    #[cfg(all(feature = "cap6", not(feature = "cap4")))]
    return [None, None, None, None, None, None];
    #[cfg(not(any(feature = "cap4", feature = "cap6")))]
    return [None, None, None, None, None, None, None, None];
}

/// Store into a slot that the model invariant guarantees to be empty, without emitting drop glue
/// for the overwritten value (drop glue of pointer-rich element types is what CBMC chokes on).
#[inline(always)]
fn put<T>(slot: &mut Option<T>, v: Option<T>) {
    let old = core::mem::replace(slot, v);
    assert!(old.is_none(), "VecDeque model: overwriting a live element");
    core::mem::forget(old);
}

fn resolve<R: RangeBounds<usize>>(r: R, len: usize) -> (usize, usize) {
    let s = match r.start_bound() {
        Bound::Included(&s) => s,
        Bound::Excluded(&s) => s + 1,
        Bound::Unbounded => 0,
    };
    let e = match r.end_bound() {
        Bound::Included(&e) => e + 1,
        Bound::Excluded(&e) => e,
        Bound::Unbounded => len,
    };
    assert!(s <= e, "VecDeque model: range start > end");
    assert!(e <= len, "VecDeque model: range end out of bounds");
    (s, e)
}

impl<T> VecDeque<T> {
    // NOTE on style: every element access goes through a loop with the *constant* trip count CAP
    // and a concrete index, guarded by a (possibly symbolic) condition. CBMC then sees guarded
    // assignments to fixed array cells instead of array updates at symbolic indices, which is
    // what keeps symbolic execution tractable for element types that contain pointers (Bytes).

    pub fn new() -> Self {
        Self { items: empty_arr(), len: 0 }
    }

    pub fn with_capacity(_c: usize) -> Self {
        Self::new()
    }

    pub fn len(&self) -> usize {
        self.len
    }

    pub fn is_empty(&self) -> bool {
        self.len == 0
    }

    pub fn capacity(&self) -> usize {
        CAP
    }

    pub fn reserve(&mut self, _n: usize) {}

    pub fn clear(&mut self) {
        let mut i = 0;
        while i < CAP {
            self.items[i] = None;
            i += 1;
        }
        self.len = 0;
    }

    pub fn push_back(&mut self, v: T) {
        assert!(self.len < CAP, "VecDeque model capacity exceeded");
        let at = self.len;
        let mut v = Some(v);
        let mut i = 0;
        while i < CAP {
            if i == at {
                put(&mut self.items[i], v.take());
            }
            i += 1;
        }
        core::mem::forget(v);
        self.len += 1;
    }

    pub fn push_front(&mut self, v: T) {
        self.insert(0, v)
    }

    pub fn pop_back(&mut self) -> Option<T> {
        if self.len == 0 {
            None
        } else {
            self.len -= 1;
            let at = self.len;
            let mut out = None;
            let mut i = 0;
            while i < CAP {
                if i == at {
                    out = self.items[i].take();
                }
                i += 1;
            }
            out
        }
    }

    pub fn pop_front(&mut self) -> Option<T> {
        self.remove(0)
    }

    pub fn front(&self) -> Option<&T> {
        if self.len == 0 { None } else { self.items[0].as_ref() }
    }

    pub fn front_mut(&mut self) -> Option<&mut T> {
        if self.len == 0 { None } else { self.items[0].as_mut() }
    }

    pub fn back(&self) -> Option<&T> {
        if self.len == 0 { None } else { self.get(self.len - 1) }
    }

    pub fn back_mut(&mut self) -> Option<&mut T> {
        if self.len == 0 { None } else { self.get_mut(self.len - 1) }
    }

    pub fn get(&self, idx: usize) -> Option<&T> {
        if idx >= self.len {
            return None;
        }
        let mut i = 0;
        while i < CAP {
            if i == idx {
                return self.items[i].as_ref();
            }
            i += 1;
        }
        None
    }

    pub fn get_mut(&mut self, idx: usize) -> Option<&mut T> {
        if idx >= self.len {
            return None;
        }
        let mut found: Option<&mut T> = None;
        let mut i = 0;
        for slot in self.items.iter_mut() {
            if i == idx {
                found = slot.as_mut();
            }
            i += 1;
        }
        found
    }

    /// std semantics: panics if `idx > len`.
    pub fn insert(&mut self, idx: usize, v: T) {
        assert!(idx <= self.len, "index out of bounds");
        assert!(self.len < CAP, "VecDeque model capacity exceeded");
        let len = self.len;
        let mut i = CAP - 1;
        while i > 0 {
            if i > idx && i <= len {
                let m = self.items[i - 1].take();
                put(&mut self.items[i], m);
            }
            i -= 1;
        }
        let mut v = Some(v);
        let mut i = 0;
        while i < CAP {
            if i == idx {
                put(&mut self.items[i], v.take());
            }
            i += 1;
        }
        core::mem::forget(v);
        self.len += 1;
    }

    /// std semantics: returns None if out of bounds.
    pub fn remove(&mut self, idx: usize) -> Option<T> {
        if idx >= self.len {
            return None;
        }
        let len = self.len;
        let mut out = None;
        let mut i = 0;
        while i < CAP {
            if i == idx {
                out = self.items[i].take();
            }
            if i >= idx && i + 1 < len {
                let m = self.items[i + 1].take();
                put(&mut self.items[i], m);
            }
            i += 1;
        }
        self.len -= 1;
        out
    }

    pub fn truncate(&mut self, n: usize) {
        let mut i = 0;
        while i < CAP {
            if i >= n && i < self.len {
                self.items[i] = None;
            }
            i += 1;
        }
        if n < self.len {
            self.len = n;
        }
    }

    /// Eager drain: the elements are removed immediately and handed out by the returned iterator
    /// (same observable result as std's lazy drain unless the Drain is leaked).
    pub fn drain<R: RangeBounds<usize>>(&mut self, r: R) -> Drain<T> {
        let (s, e) = resolve(r, self.len);
        let n = e - s;
        let len = self.len;
        let mut out: [Option<T>; CAP] = empty_arr();
        // out[k] = items[s + k] for k < n
        let mut k = 0;
        while k < CAP {
            if k < n {
                let mut j = 0;
                while j < CAP {
                    if j == s + k {
                        let m = self.items[j].take();
                        put(&mut out[k], m);
                    }
                    j += 1;
                }
            }
            k += 1;
        }
        // close the gap: items[j] = items[j + n] for s <= j < len - n
        if n > 0 {
            let mut j = 0;
            while j < CAP {
                if j >= s && j + n < len {
                    let mut m = 0;
                    let mut moved = None;
                    while m < CAP {
                        if m == j + n {
                            moved = self.items[m].take();
                        }
                        m += 1;
                    }
                    put(&mut self.items[j], moved);
                }
                j += 1;
            }
        }
        self.len -= n;
        Drain { items: out, pos: 0, len: n }
    }

    pub fn iter(&self) -> Iter<'_, T> {
        Iter { d: self, pos: 0, end: self.len }
    }

    pub fn range<R: RangeBounds<usize>>(&self, r: R) -> Iter<'_, T> {
        let (s, e) = resolve(r, self.len);
        Iter { d: self, pos: s, end: e }
    }

    pub fn iter_mut(&mut self) -> IterMut<'_, T> {
        let len = self.len;
        IterMut { inner: self.items.iter_mut(), pos: 0, start: 0, end: len }
    }

    pub fn range_mut<R: RangeBounds<usize>>(&mut self, r: R) -> IterMut<'_, T> {
        let (s, e) = resolve(r, self.len);
        IterMut { inner: self.items.iter_mut(), pos: 0, start: s, end: e }
    }

    /// Same contract as std: the sequence must be sorted w.r.t. `f`; with that precondition and
    /// at most one `Equal` element the result equals std's (first non-`Less` position).
    pub fn binary_search_by<F: FnMut(&T) -> Ordering>(&self, mut f: F) -> Result<usize, usize> {
        let mut i = 0;
        while i < CAP {
            if i < self.len {
                match f(self.items[i].as_ref().unwrap()) {
                    Ordering::Less => {}
                    Ordering::Equal => return Ok(i),
                    Ordering::Greater => return Err(i),
                }
            }
            i += 1;
        }
        Err(self.len)
    }

    pub fn binary_search_by_key<B: Ord, F: FnMut(&T) -> B>(&self, b: &B, mut f: F) -> Result<usize, usize> {
        self.binary_search_by(|k| f(k).cmp(b))
    }

    pub fn partition_point<P: FnMut(&T) -> bool>(&self, mut pred: P) -> usize {
        let mut i = 0;
        while i < CAP {
            if i < self.len && !pred(self.items[i].as_ref().unwrap()) {
                return i;
            }
            i += 1;
        }
        self.len
    }

    pub fn resize_with<F: FnMut() -> T>(&mut self, n: usize, mut f: F) {
        assert!(n <= CAP, "VecDeque model capacity exceeded");
        let mut i = 0;
        while i < CAP {
            if i >= self.len && i < n {
                self.items[i] = Some(f());
            }
            i += 1;
        }
        if n > self.len {
            self.len = n;
        }
        self.truncate(n);
    }

    pub fn retain<F: FnMut(&T) -> bool>(&mut self, mut f: F) {
        // compact kept elements to the front, preserving order
        let len = self.len;
        let mut kept: [Option<T>; CAP] = empty_arr();
        let mut w = 0;
        let mut r = 0;
        while r < CAP {
            if r < len {
                let v = self.items[r].take().unwrap();
                if f(&v) {
                    let mut j = 0;
                    let mut v = Some(v);
                    while j < CAP {
                        if j == w {
                            kept[j] = v.take();
                        }
                        j += 1;
                    }
                    w += 1;
                }
            }
            r += 1;
        }
        self.items = kept;
        self.len = w;
    }

    pub fn contains(&self, x: &T) -> bool
    where
        T: PartialEq,
    {
        let mut i = 0;
        while i < CAP {
            if i < self.len && self.items[i].as_ref().unwrap() == x {
                return true;
            }
            i += 1;
        }
        false
    }
}

impl<T: Clone> VecDeque<T> {
    pub fn resize(&mut self, n: usize, v: T) {
        self.resize_with(n, || v.clone())
    }
}

impl<T> Default for VecDeque<T> {
    fn default() -> Self {
        Self::new()
    }
}

impl<T: Clone> Clone for VecDeque<T> {
    fn clone(&self) -> Self {
        let mut n = Self::new();
        let mut i = 0;
        while i < self.len {
            n.items[i] = self.items[i].clone();
            i += 1;
        }
        n.len = self.len;
        n
    }
}

impl<T: core::fmt::Debug> core::fmt::Debug for VecDeque<T> {
    fn fmt(&self, f: &mut core::fmt::Formatter<'_>) -> core::fmt::Result {
        f.debug_list().entries(self.iter()).finish()
    }
}

impl<T: PartialEq> PartialEq for VecDeque<T> {
    fn eq(&self, o: &Self) -> bool {
        if self.len != o.len {
            return false;
        }
        let mut i = 0;
        while i < self.len {
            if self.items[i] != o.items[i] {
                return false;
            }
            i += 1;
        }
        true
    }
}
impl<T: Eq> Eq for VecDeque<T> {}

impl<T> Index<usize> for VecDeque<T> {
    type Output = T;
    fn index(&self, i: usize) -> &T {
        self.get(i).expect("Out of bounds access")
    }
}

impl<T> IndexMut<usize> for VecDeque<T> {
    fn index_mut(&mut self, i: usize) -> &mut T {
        self.get_mut(i).expect("Out of bounds access")
    }
}

impl<T> Extend<T> for VecDeque<T> {
    fn extend<I: IntoIterator<Item = T>>(&mut self, iter: I) {
        for v in iter {
            self.push_back(v);
        }
    }
}

impl<T> FromIterator<T> for VecDeque<T> {
    fn from_iter<I: IntoIterator<Item = T>>(iter: I) -> Self {
        let mut d = Self::new();
        d.extend(iter);
        d
    }
}

impl<T, const N: usize> From<[T; N]> for VecDeque<T> {
    fn from(a: [T; N]) -> Self {
        a.into_iter().collect()
    }
}

pub struct Iter<'a, T> {
    d: &'a VecDeque<T>,
    pos: usize,
    end: usize,
}

impl<'a, T> Iterator for Iter<'a, T> {
    type Item = &'a T;
    fn next(&mut self) -> Option<&'a T> {
        if self.pos < self.end {
            let r = self.d.get(self.pos);
            self.pos += 1;
            r
        } else {
            None
        }
    }
    fn size_hint(&self) -> (usize, Option<usize>) {
        (self.end - self.pos, Some(self.end - self.pos))
    }
}

impl<'a, T> DoubleEndedIterator for Iter<'a, T> {
    fn next_back(&mut self) -> Option<&'a T> {
        if self.pos < self.end {
            self.end -= 1;
            self.d.get(self.end)
        } else {
            None
        }
    }
}
impl<'a, T> ExactSizeIterator for Iter<'a, T> {}

impl<'a, T> Clone for Iter<'a, T> {
    fn clone(&self) -> Self {
        Iter { d: self.d, pos: self.pos, end: self.end }
    }
}

pub struct IterMut<'a, T> {
    inner: core::slice::IterMut<'a, Option<T>>,
    pos: usize,
    start: usize,
    end: usize,
}

impl<'a, T> Iterator for IterMut<'a, T> {
    type Item = &'a mut T;
    fn next(&mut self) -> Option<&'a mut T> {
        // walk the fixed array in order; hand out the cells inside [start, end)
        loop {
            let slot = self.inner.next()?;
            let p = self.pos;
            self.pos += 1;
            if p >= self.end {
                return None;
            }
            if p >= self.start {
                return slot.as_mut();
            }
        }
    }
}

pub struct Drain<T> {
    items: [Option<T>; CAP],
    pos: usize,
    len: usize,
}

impl<T> Iterator for Drain<T> {
    type Item = T;
    fn next(&mut self) -> Option<T> {
        if self.pos < self.len {
            let r = self.items[self.pos].take();
            self.pos += 1;
            r
        } else {
            None
        }
    }
    fn size_hint(&self) -> (usize, Option<usize>) {
        (self.len - self.pos, Some(self.len - self.pos))
    }
}

impl<T> DoubleEndedIterator for Drain<T> {
    fn next_back(&mut self) -> Option<T> {
        if self.pos < self.len {
            self.len -= 1;
            self.items[self.len].take()
        } else {
            None
        }
    }
}
impl<T> ExactSizeIterator for Drain<T> {}

pub struct IntoIter<T> {
    inner: Drain<T>,
}

impl<T> Iterator for IntoIter<T> {
    type Item = T;
    fn next(&mut self) -> Option<T> {
        self.inner.next()
    }
}

impl<T> IntoIterator for VecDeque<T> {
    type Item = T;
    type IntoIter = IntoIter<T>;
    fn into_iter(mut self) -> IntoIter<T> {
        IntoIter { inner: self.drain(..) }
    }
}

impl<'a, T> IntoIterator for &'a VecDeque<T> {
    type Item = &'a T;
    type IntoIter = Iter<'a, T>;
    fn into_iter(self) -> Iter<'a, T> {
        self.iter()
    }
}

impl<'a, T> IntoIterator for &'a mut VecDeque<T> {
    type Item = &'a mut T;
    type IntoIter = IterMut<'a, T>;
    fn into_iter(self) -> IterMut<'a, T> {
        self.iter_mut()
    }
}

// ---- appended for IndexDeque::{iter_mut,enumerate_mut} (need DoubleEndedIterator + ExactSizeIterator) ----
// The cells still held by `inner` are exactly the array indices [pos, pos + inner.len()).
impl<'a, T> DoubleEndedIterator for IterMut<'a, T> {
    fn next_back(&mut self) -> Option<&'a mut T> {
        // loop-free: jump over the cells at or beyond `end` in one step (slice iterators do
        // `nth_back` by pointer arithmetic), then hand out the cell if it is still >= start.
        let rem_end = self.pos + self.inner.len();
        let skip = if rem_end > self.end { rem_end - self.end } else { 0 };
        if rem_end <= skip {
            return None;
        }
        let p = rem_end - 1 - skip; // index of the cell that nth_back(skip) yields
        if p < self.start || p < self.pos {
            return None;
        }
        let slot = self.inner.nth_back(skip)?;
        slot.as_mut()
    }
}

impl<'a, T> ExactSizeIterator for IterMut<'a, T> {
    fn len(&self) -> usize {
        let lo = if self.pos > self.start { self.pos } else { self.start };
        let rem_end = self.pos + self.inner.len();
        let hi = if rem_end < self.end { rem_end } else { self.end };
        if hi > lo { hi - lo } else { 0 }
    }
}

// ---- appended for qrecovery::journal::sent (C10): same sequence model, index-walking range_mut ----
// `SentJournal::{on_packet_acked, may_loss_packet}` return `queue.range_mut(a..b).map(clone)` with
// SYMBOLIC a and b. `IterMut` above walks a `core::slice::IterMut` and returns from inside its
// loop, so after one `next()` the slice iterator's pointer is a 7-way case split and every further
// `next()` multiplies it (measured: +90 K SAT variables for the first `next()`, +250 K for each
// further one). `RangeMutIdx` keeps only two integers and fetches the cell with `get_mut(pos)`
// (constant-trip loop, guarded pointer select) — same elements, same order, same aliasing
// guarantees (each index is handed out once).
pub struct VecDequeIdx<T>(VecDeque<T>);

impl<T> VecDequeIdx<T> {
    pub fn new() -> Self {
        Self(VecDeque::new())
    }
    pub fn with_capacity(_c: usize) -> Self {
        Self::new()
    }
    pub fn len(&self) -> usize {
        self.0.len()
    }
    pub fn is_empty(&self) -> bool {
        self.0.is_empty()
    }
    pub fn push_back(&mut self, v: T) {
        self.0.push_back(v)
    }
    pub fn pop_front(&mut self) -> Option<T> {
        self.0.pop_front()
    }
    pub fn get(&self, idx: usize) -> Option<&T> {
        self.0.get(idx)
    }
    pub fn get_mut(&mut self, idx: usize) -> Option<&mut T> {
        self.0.get_mut(idx)
    }
    pub fn front(&self) -> Option<&T> {
        self.0.front()
    }
    pub fn back(&self) -> Option<&T> {
        self.0.back()
    }
    pub fn iter(&self) -> Iter<'_, T> {
        self.0.iter()
    }
    pub fn range<R: RangeBounds<usize>>(&self, r: R) -> Iter<'_, T> {
        self.0.range(r)
    }
    pub fn drain<R: RangeBounds<usize>>(&mut self, r: R) -> Drain<T> {
        self.0.drain(r)
    }
    pub fn clear(&mut self) {
        self.0.clear()
    }
    pub fn range_mut<R: RangeBounds<usize>>(&mut self, r: R) -> RangeMutIdx<'_, T> {
        let (s, e) = resolve(r, self.0.len);
        RangeMutIdx { d: &mut self.0 as *mut VecDeque<T>, pos: s, end: e, _m: core::marker::PhantomData }
    }
    pub fn iter_mut(&mut self) -> RangeMutIdx<'_, T> {
        let e = self.0.len;
        RangeMutIdx { d: &mut self.0 as *mut VecDeque<T>, pos: 0, end: e, _m: core::marker::PhantomData }
    }
}

impl<T> Default for VecDequeIdx<T> {
    fn default() -> Self {
        Self::new()
    }
}

impl<T: core::fmt::Debug> core::fmt::Debug for VecDequeIdx<T> {
    fn fmt(&self, f: &mut core::fmt::Formatter<'_>) -> core::fmt::Result {
        self.0.fmt(f)
    }
}

pub struct RangeMutIdx<'a, T> {
    d: *mut VecDeque<T>,
    pos: usize,
    end: usize,
    _m: core::marker::PhantomData<&'a mut VecDeque<T>>,
}

impl<'a, T> Iterator for RangeMutIdx<'a, T> {
    type Item = &'a mut T;
    fn next(&mut self) -> Option<&'a mut T> {
        if self.pos < self.end {
            let p = self.pos;
            self.pos += 1;
            // SAFETY: `d` is exclusively borrowed for 'a (PhantomData) and every index in
            // [pos, end) is handed out exactly once, so the returned references never alias.
            let cell: Option<&mut T> = unsafe { (*self.d).get_mut(p) };
            cell.map(|x| unsafe { &mut *(x as *mut T) })
        } else {
            None
        }
    }
    fn size_hint(&self) -> (usize, Option<usize>) {
        (self.end - self.pos, Some(self.end - self.pos))
    }
}
impl<'a, T> ExactSizeIterator for RangeMutIdx<'a, T> {}
