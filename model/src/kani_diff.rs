//! `model_vs_std_*`: the container model is itself an obligation (DESIGN.md §2.4).
//! Each harness builds the SAME sequence in `std::collections::VecDeque` and in the model (concrete
//! element count N, symbolic u8 contents), applies ONE method with symbolic arguments to both and
//! asserts equal results and equal resulting sequences. Decided by CBMC like every other harness.
//! Run: `bin/check-model` (cargo kani on this crate, features cap4).
use std::collections::VecDeque as Std;

use crate::VecDeque as M;

fn build<const N: usize>() -> (Std<u8>, M<u8>) {
    let mut a: Std<u8> = Std::with_capacity(8);
    let mut b: M<u8> = M::new();
    let mut i = 0;
    while i < N {
        let v: u8 = kani::any();
        a.push_back(v);
        b.push_back(v);
        i += 1;
    }
    (a, b)
}

fn same(a: &Std<u8>, b: &M<u8>) {
    assert!(a.len() == b.len(), "same length");
    let mut i = 0;
    while i < crate::CAP {
        if i < a.len() {
            assert!(a.get(i).copied() == b.get(i).copied(), "same element");
        } else {
            assert!(b.get(i).is_none());
        }
        i += 1;
    }
    assert!(a.front().copied() == b.front().copied());
    assert!(a.back().copied() == b.back().copied());
    assert!(a.is_empty() == b.is_empty());
}

fn op_step<const N: usize>() {
    let (mut a, mut b) = build::<N>();
    same(&a, &b);
    let op: u8 = kani::any();
    let v: u8 = kani::any();
    let i: usize = kani::any();
    let j: usize = kani::any();
    kani::assume(i <= 5 && j <= 5);
    match op {
        0 => {
            kani::assume(N < crate::CAP);
            a.push_back(v);
            b.push_back(v);
        }
        1 => {
            kani::assume(N < crate::CAP);
            a.push_front(v);
            b.push_front(v);
        }
        2 => assert!(a.pop_back() == b.pop_back()),
        3 => assert!(a.pop_front() == b.pop_front()),
        4 => {
            kani::assume(N < crate::CAP && i <= N);
            a.insert(i, v);
            b.insert(i, v);
        }
        5 => assert!(a.remove(i) == b.remove(i)),
        6 => {
            assert!(a.get(i).copied() == b.get(i).copied());
            let x = a.get_mut(i).map(|r| {
                *r = v;
            });
            let y = b.get_mut(i).map(|r| {
                *r = v;
            });
            assert!(x.is_some() == y.is_some());
        }
        7 => {
            a.truncate(i);
            b.truncate(i);
        }
        8 => {
            kani::assume(i <= crate::CAP);
            a.resize(i, v);
            b.resize(i, v);
        }
        9 => {
            if let Some(r) = a.front_mut() {
                *r = v;
            }
            if let Some(r) = b.front_mut() {
                *r = v;
            }
            if let Some(r) = a.back_mut() {
                *r = v.wrapping_add(1);
            }
            if let Some(r) = b.back_mut() {
                *r = v.wrapping_add(1);
            }
        }
        _ => {
            a.clear();
            b.clear();
        }
    }
    same(&a, &b);
    kani::cover!(op == 4 && i < N, "insert in the middle");
    kani::cover!(op == 5 && i < N, "remove an element");
    core::mem::forget(a);
    core::mem::forget(b);
}

#[kani::proof]
#[kani::unwind(10)]
fn model_vs_std_ops_n0() {
    op_step::<0>();
}

#[kani::proof]
#[kani::unwind(10)]
fn model_vs_std_ops_n1() {
    op_step::<1>();
}

#[kani::proof]
#[kani::unwind(10)]
fn model_vs_std_ops_n2() {
    op_step::<2>();
}

#[kani::proof]
#[kani::unwind(10)]
fn model_vs_std_ops_n3() {
    op_step::<3>();
}

fn drain_step<const N: usize>() {
    let (mut a, mut b) = build::<N>();
    let s: usize = kani::any();
    let e: usize = kani::any();
    kani::assume(s <= e && e <= N);
    {
        let mut da = a.drain(s..e);
        let mut db = b.drain(s..e);
        let mut k = 0;
        while k <= N {
            assert!(da.next() == db.next(), "drained elements equal, in order");
            k += 1;
        }
    }
    same(&a, &b);
    kani::cover!(s > 0 && e < N, "drain from the middle");
    core::mem::forget(a);
    core::mem::forget(b);
}

#[kani::proof]
#[kani::unwind(10)]
fn model_vs_std_drain_n2() {
    drain_step::<2>();
}

#[kani::proof]
#[kani::unwind(10)]
fn model_vs_std_drain_n3() {
    drain_step::<3>();
}

fn search_step<const N: usize>() {
    let (a, b) = build::<N>();
    // sortedness is part of every invariant that uses the searches
    let mut k = 1;
    while k < N {
        kani::assume(a[k - 1] < a[k]);
        k += 1;
    }
    let key: u8 = kani::any();
    assert!(a.binary_search_by(|x| x.cmp(&key)) == b.binary_search_by(|x| x.cmp(&key)), "binary_search_by");
    assert!(a.partition_point(|x| *x < key) == b.partition_point(|x| *x < key), "partition_point");
    assert!(a.binary_search_by_key(&key, |x| *x) == b.binary_search_by_key(&key, |x| *x));
    assert!(a.contains(&key) == b.contains(&key));
    // iteration order
    let mut ia = a.iter();
    let mut ib = b.iter();
    let mut i = 0;
    while i <= N {
        assert!(ia.next().copied() == ib.next().copied());
        i += 1;
    }
    kani::cover!(N > 1 && a.binary_search_by(|x| x.cmp(&key)).is_ok(), "key found");
    kani::cover!(N > 1 && a.binary_search_by(|x| x.cmp(&key)) == Err(1), "key falls between two elements");
    core::mem::forget(a);
    core::mem::forget(b);
}

#[kani::proof]
#[kani::unwind(10)]
fn model_vs_std_search_n3() {
    search_step::<3>();
}

fn retain_step<const N: usize>() {
    let (mut a, mut b) = build::<N>();
    let m: u8 = kani::any();
    a.retain(|x| *x & 1 == m & 1);
    b.retain(|x| *x & 1 == m & 1);
    same(&a, &b);
    let mut ia = a.iter_mut();
    let mut ib = b.iter_mut();
    let mut i = 0;
    while i <= N {
        let back: bool = kani::any();
        if back {
            assert!(ia.next_back().map(|x| *x) == ib.next_back().map(|x| *x));
        } else {
            assert!(ia.next().map(|x| *x) == ib.next().map(|x| *x));
        }
        i += 1;
    }
    kani::cover!(N > 1 && a.len() == 1, "retain dropped some, kept some");
    core::mem::forget(a);
    core::mem::forget(b);
}

#[kani::proof]
#[kani::unwind(10)]
fn model_vs_std_retain_iter_n3() {
    retain_step::<3>();
}
