//! Array-backed models of the std containers used by gm-quic's interval / journal algorithms.
//!
//! Used ONLY in the Kani overlay (cfg(kani)) in place of `std::collections::{VecDeque, HashMap,
//! HashSet}` (DESIGN.md §2.4). They implement the *sequence / finite-map semantics* of the subset
//! of the std API that the repository uses, with straight-line loops over a fixed capacity so
//! that CBMC's memory stays flat. Exceeding the capacity panics (so a too-small model shows up
//! as a failed check, never as a silent truncation).
//!
//! The model is itself an obligation: `model_vs_std_*` harnesses (bottom of the files) run every
//! modelled method against the real std container on small shapes with symbolic contents.
#![allow(clippy::all)]

pub mod vecdeque;
pub mod hash;
#[cfg(kani)]
mod kani_diff;

pub use hash::{HashMap, HashSet};
pub use vecdeque::VecDeque;
pub use vecdeque::VecDequeIdx;

/// Capacity of every modelled container (cargo feature `cap4` / `cap6` selects a smaller one:
/// every model loop has exactly CAP iterations, so harnesses need `#[kani::unwind(CAP + 2)]`).
#[cfg(feature = "cap4")]
pub const CAP: usize = 4;
#[cfg(all(feature = "cap6", not(feature = "cap4")))]
pub const CAP: usize = 6;
#[cfg(not(any(feature = "cap4", feature = "cap6")))]
pub const CAP: usize = 8;
