//! Finite-map / finite-set models (linear probe over a fixed array; keys compared with `==`).
//! Iteration order is insertion order (std's is unspecified, so callers must not depend on it).
use crate::CAP;

pub struct HashMap<K, V> {
    items: [Option<(K, V)>; CAP],
    len: usize,
}

fn empty_arr<T>() -> [Option<T>; CAP] {
    // explicit literal: `core::array::from_fn` / `[const { None }; CAP]` make Kani 0.68 report a
    // spurious "pointer outside object bounds" for some niche-encoded element types
    // (e.g. Option<(ParameterId, ParameterValue)>)
    #[cfg(feature = "cap4")]
    return [None, None, None, None];
    #[cfg(all(feature = "cap6", not(feature = "cap4")))]
    return [None, None, None, None, None, None];
    #[cfg(not(any(feature = "cap4", feature = "cap6")))]
    return [None, None, None, None, None, None, None, None];
}

impl<K: PartialEq, V> HashMap<K, V> {
    pub fn new() -> Self {
        Self { items: empty_arr(), len: 0 }
    }
    pub fn with_capacity(_c: usize) -> Self {
        Self::new()
    }
    pub fn len(&self) -> usize {
        self.len
    }
    pub fn is_empty(&self) -> bool {
        self.len == 0
    }
    fn find(&self, k: &K) -> Option<usize> {
        let mut i = 0;
        while i < self.len {
            if &self.items[i].as_ref().unwrap().0 == k {
                return Some(i);
            }
            i += 1;
        }
        None
    }
    pub fn insert(&mut self, k: K, v: V) -> Option<V> {
        match self.find(&k) {
            Some(i) => {
                let old = self.items[i].take().map(|(_, v)| v);
                self.items[i] = Some((k, v));
                old
            }
            None => {
                assert!(self.len < CAP, "HashMap model capacity exceeded");
                self.items[self.len] = Some((k, v));
                self.len += 1;
                None
            }
        }
    }
    pub fn get(&self, k: &K) -> Option<&V> {
        self.find(k).map(|i| &self.items[i].as_ref().unwrap().1)
    }
    pub fn get_mut(&mut self, k: &K) -> Option<&mut V> {
        match self.find(k) {
            Some(i) => self.items[i].as_mut().map(|kv| &mut kv.1),
            None => None,
        }
    }
    pub fn contains_key(&self, k: &K) -> bool {
        self.find(k).is_some()
    }
    pub fn remove(&mut self, k: &K) -> Option<V> {
        match self.find(k) {
            Some(i) => {
                let out = self.items[i].take();
                let last = self.len - 1;
                if i != last {
                    self.items[i] = self.items[last].take();
                }
                self.len -= 1;
                out.map(|(_, v)| v)
            }
            None => None,
        }
    }
    pub fn clear(&mut self) {
        let mut i = 0;
        while i < CAP {
            self.items[i] = None;
            i += 1;
        }
        self.len = 0;
    }
    pub fn iter(&self) -> MapIter<'_, K, V> {
        MapIter { m: self, pos: 0 }
    }
    pub fn keys(&self) -> impl Iterator<Item = &K> {
        self.iter().map(|(k, _)| k)
    }
    pub fn values(&self) -> impl Iterator<Item = &V> {
        self.iter().map(|(_, v)| v)
    }
}

impl<K: PartialEq, V> Default for HashMap<K, V> {
    fn default() -> Self {
        Self::new()
    }
}

impl<K: PartialEq + Clone, V: Clone> Clone for HashMap<K, V> {
    fn clone(&self) -> Self {
        let mut n = Self::new();
        let mut i = 0;
        while i < self.len {
            n.items[i] = self.items[i].clone();
            i += 1;
        }
        n.len = self.len;
        n
    }
}

impl<K: PartialEq + core::fmt::Debug, V: core::fmt::Debug> core::fmt::Debug for HashMap<K, V> {
    fn fmt(&self, f: &mut core::fmt::Formatter<'_>) -> core::fmt::Result {
        f.debug_map().entries(self.iter()).finish()
    }
}

impl<K: PartialEq, V: PartialEq> PartialEq for HashMap<K, V> {
    fn eq(&self, o: &Self) -> bool {
        if self.len != o.len {
            return false;
        }
        let mut i = 0;
        while i < self.len {
            let (k, v) = self.items[i].as_ref().unwrap();
            if o.get(k) != Some(v) {
                return false;
            }
            i += 1;
        }
        true
    }
}
impl<K: Eq, V: Eq> Eq for HashMap<K, V> {}

impl<K: PartialEq, V> FromIterator<(K, V)> for HashMap<K, V> {
    fn from_iter<I: IntoIterator<Item = (K, V)>>(iter: I) -> Self {
        let mut m = Self::new();
        for (k, v) in iter {
            m.insert(k, v);
        }
        m
    }
}

impl<K: PartialEq, V> Extend<(K, V)> for HashMap<K, V> {
    fn extend<I: IntoIterator<Item = (K, V)>>(&mut self, iter: I) {
        for (k, v) in iter {
            self.insert(k, v);
        }
    }
}

pub struct MapIter<'a, K, V> {
    m: &'a HashMap<K, V>,
    pos: usize,
}

impl<'a, K, V> Iterator for MapIter<'a, K, V> {
    type Item = (&'a K, &'a V);
    fn next(&mut self) -> Option<Self::Item> {
        if self.pos < self.m.len {
            let kv = self.m.items[self.pos].as_ref().unwrap();
            self.pos += 1;
            Some((&kv.0, &kv.1))
        } else {
            None
        }
    }
}

impl<'a, K: PartialEq, V> IntoIterator for &'a HashMap<K, V> {
    type Item = (&'a K, &'a V);
    type IntoIter = MapIter<'a, K, V>;
    fn into_iter(self) -> Self::IntoIter {
        self.iter()
    }
}

pub struct HashSet<T> {
    m: HashMap<T, ()>,
}

impl<T: PartialEq> HashSet<T> {
    pub fn new() -> Self {
        Self { m: HashMap::new() }
    }
    pub fn with_capacity(_c: usize) -> Self {
        Self::new()
    }
    pub fn len(&self) -> usize {
        self.m.len()
    }
    pub fn is_empty(&self) -> bool {
        self.m.is_empty()
    }
    /// std semantics: true iff the value was not present.
    pub fn insert(&mut self, v: T) -> bool {
        if self.m.contains_key(&v) {
            false
        } else {
            self.m.insert(v, ());
            true
        }
    }
    pub fn contains(&self, v: &T) -> bool {
        self.m.contains_key(v)
    }
    pub fn remove(&mut self, v: &T) -> bool {
        self.m.remove(v).is_some()
    }
    pub fn clear(&mut self) {
        self.m.clear()
    }
    pub fn iter(&self) -> SetIter<'_, T> {
        SetIter { inner: self.m.iter() }
    }
    pub fn is_disjoint(&self, o: &Self) -> bool {
        for v in self.iter() {
            if o.contains(v) {
                return false;
            }
        }
        true
    }
    pub fn is_subset(&self, o: &Self) -> bool {
        for v in self.iter() {
            if !o.contains(v) {
                return false;
            }
        }
        true
    }
}

impl<T: PartialEq> Default for HashSet<T> {
    fn default() -> Self {
        Self::new()
    }
}

impl<T: PartialEq + Clone> Clone for HashSet<T> {
    fn clone(&self) -> Self {
        Self { m: self.m.clone() }
    }
}

impl<T: PartialEq + core::fmt::Debug> core::fmt::Debug for HashSet<T> {
    fn fmt(&self, f: &mut core::fmt::Formatter<'_>) -> core::fmt::Result {
        f.debug_set().entries(self.iter()).finish()
    }
}

impl<T: PartialEq> PartialEq for HashSet<T> {
    fn eq(&self, o: &Self) -> bool {
        self.len() == o.len() && self.is_subset(o)
    }
}
impl<T: Eq> Eq for HashSet<T> {}

impl<T: PartialEq> FromIterator<T> for HashSet<T> {
    fn from_iter<I: IntoIterator<Item = T>>(iter: I) -> Self {
        let mut s = Self::new();
        for v in iter {
            s.insert(v);
        }
        s
    }
}

impl<T: PartialEq> Extend<T> for HashSet<T> {
    fn extend<I: IntoIterator<Item = T>>(&mut self, iter: I) {
        for v in iter {
            self.insert(v);
        }
    }
}

pub struct SetIter<'a, T> {
    inner: MapIter<'a, T, ()>,
}

impl<'a, T> Iterator for SetIter<'a, T> {
    type Item = &'a T;
    fn next(&mut self) -> Option<&'a T> {
        self.inner.next().map(|(k, _)| k)
    }
}

impl<'a, T: PartialEq> IntoIterator for &'a HashSet<T> {
    type Item = &'a T;
    type IntoIter = SetIter<'a, T>;
    fn into_iter(self) -> Self::IntoIter {
        self.iter()
    }
}

// ---- appended for qrecovery::journal::rcvd (State::AckSent(.., HashSet<u64>), packet_include_ack) ----
impl<T: PartialEq> HashSet<T> {
    /// Keeps the elements for which `f` is true (relative order of the kept ones preserved).
    pub fn retain<F: FnMut(&T) -> bool>(&mut self, mut f: F) {
        let len = self.m.len;
        let mut kept: [Option<(T, ())>; CAP] = empty_arr();
        let mut w = 0;
        let mut r = 0;
        while r < CAP {
            if r < len {
                let kv = self.m.items[r].take().unwrap();
                if f(&kv.0) {
                    let mut j = 0;
                    let mut kv = Some(kv);
                    while j < CAP {
                        if j == w {
                            kept[j] = kv.take();
                        }
                        j += 1;
                    }
                    w += 1;
                }
            }
            r += 1;
        }
        self.m.items = kept;
        self.m.len = w;
    }
}

impl<T: PartialEq, const N: usize> From<[T; N]> for HashSet<T> {
    fn from(a: [T; N]) -> Self {
        a.into_iter().collect()
    }
}
