use crate::buf::{IntoIter, UninitSlice};
use crate::{Buf, BufMut};

#[cfg(feature = "std")]
use std::io::IoSlice;

/// A `Chain` sequences two buffers.
///
/// `Chain` is an adapter that links two underlying buffers and provides a
/// continuous view across both buffers. It is able to sequence either immutable
/// buffers ([`Buf`] values) or mutable buffers ([`BufMut`] values).
///
/// This struct is generally created by calling [`Buf::chain`]. Please see that
/// function's documentation for more detail.
///
/// # Examples
///
/// ```
/// use bytes::{Bytes, Buf};
///
/// let mut buf = (&b"hello "[..])
///     .chain(&b"world"[..]);
///
/// let full: Bytes = buf.copy_to_bytes(11);
/// assert_eq!(full[..], b"hello world"[..]);
/// ```
///
/// [`Buf::chain`]: Buf::chain
#[derive(Debug)]
pub struct Chain<T, U> {
    a: T,
    b: U,
}

impl<T, U> Chain<T, U> {
    /// Creates a new `Chain` sequencing the provided values.
    pub(crate) fn new(a: T, b: U) -> Chain<T, U> {
        Chain { a, b }
    }

    /// Gets a reference to the first underlying `Buf`.
    ///
    /// # Examples
    ///
    /// ```
    /// use bytes::Buf;
    ///
    /// let buf = (&b"hello"[..])
    ///     .chain(&b"world"[..]);
    ///
    /// assert_eq!(buf.first_ref()[..], b"hello"[..]);
    /// ```
    pub fn first_ref(&self) -> &T {
        &self.a
    }

    /// Gets a mutable reference to the first underlying `Buf`.
    ///
    /// # Examples
    ///
    /// ```
    /// use bytes::Buf;
    ///
    /// let mut buf = (&b"hello"[..])
    ///     .chain(&b"world"[..]);
    ///
    /// buf.first_mut().advance(1);
    ///
    /// let full = buf.copy_to_bytes(9);
    /// assert_eq!(full, b"elloworld"[..]);
    /// ```
    pub fn first_mut(&mut self) -> &mut T {
        &mut self.a
    }

    /// Gets a reference to the last underlying `Buf`.
    ///
    /// # Examples
    ///
    /// ```
    /// use bytes::Buf;
    ///
    /// let buf = (&b"hello"[..])
    ///     .chain(&b"world"[..]);
    ///
    /// assert_eq!(buf.last_ref()[..], b"world"[..]);
    /// ```
    pub fn last_ref(&self) -> &U {
        &self.b
    }

    /// Gets a mutable reference to the last underlying `Buf`.
    ///
    /// # Examples
    ///
    /// ```
    /// use bytes::Buf;
    ///
    /// let mut buf = (&b"hello "[..])
    ///     .chain(&b"world"[..]);
    ///
    /// buf.last_mut().advance(1);
    ///
    /// let full = buf.copy_to_bytes(10);
    /// assert_eq!(full, b"hello orld"[..]);
    /// ```
    pub fn last_mut(&mut self) -> &mut U {
        &mut self.b
    }

    /// Consumes this `Chain`, returning the underlying values.
    ///
    /// # Examples
    ///
    /// ```
    /// use bytes::Buf;
    ///
    /// let chain = (&b"hello"[..])
    ///     .chain(&b"world"[..]);
    ///
    /// let (first, last) = chain.into_inner();
    /// assert_eq!(first[..], b"hello"[..]);
    /// assert_eq!(last[..], b"world"[..]);
    /// ```
    pub fn into_inner(self) -> (T, U) {
        (self.a, self.b)
    }
}

impl<T, U> Buf for Chain<T, U>
where
    T: Buf,
    U: Buf,
{
    fn remaining(&self) -> usize {
        self.a.remaining().saturating_add(self.b.remaining())
    }

    fn chunk(&self) -> &[u8] {
        if self.a.has_remaining() {
            self.a.chunk()
        } else {
            self.b.chunk()
        }
    }

    fn advance(&mut self, mut cnt: usize) {
        let a_rem = self.a.remaining();

        if a_rem != 0 {
            if a_rem >= cnt {
                self.a.advance(cnt);
                return;
            }

            // Consume what is left of a
            self.a.advance(a_rem);

            cnt -= a_rem;
        }

        self.b.advance(cnt);
    }

    #[cfg(feature = "std")]
    fn chunks_vectored<'a>(&'a self, dst: &mut [IoSlice<'a>]) -> usize {
        let mut n = self.a.chunks_vectored(dst);
        n += self.b.chunks_vectored(&mut dst[n..]);
        n
    }

    fn copy_to_bytes(&mut self, len: usize) -> crate::Bytes {
        let a_rem = self.a.remaining();
        if a_rem >= len {
            self.a.copy_to_bytes(len)
        } else if a_rem == 0 {
            self.b.copy_to_bytes(len)
        } else {
            assert!(
                len - a_rem <= self.b.remaining(),
                "`len` greater than remaining"
            );
            let mut ret = crate::BytesMut::with_capacity(len);
            ret.put(&mut self.a);
            ret.put((&mut self.b).take(len - a_rem));
            ret.freeze()
        }
    }
}

unsafe impl<T, U> BufMut for Chain<T, U>
where
    T: BufMut,
    U: BufMut,
{
    fn remaining_mut(&self) -> usize {
        self.a
            .remaining_mut()
            .saturating_add(self.b.remaining_mut())
    }

    fn chunk_mut(&mut self) -> &mut UninitSlice {
        if self.a.has_remaining_mut() {
            self.a.chunk_mut()
        } else {
            self.b.chunk_mut()
        }
    }

    unsafe fn advance_mut(&mut self, mut cnt: usize) {
        let a_rem = self.a.remaining_mut();

        if a_rem != 0 {
            if a_rem >= cnt {
                self.a.advance_mut(cnt);
                return;
            }

            // Consume what is left of a
            self.a.advance_mut(a_rem);

            cnt -= a_rem;
        }

        self.b.advance_mut(cnt);
    }
}

impl<T, U> IntoIterator for Chain<T, U>
where
    T: Buf,
    U: Buf,
{
    type Item = u8;
    type IntoIter = IntoIter<Chain<T, U>>;

    fn into_iter(self) -> Self::IntoIter {
        IntoIter::new(self)
    }
}
