use crate::BufMut;

use std::{cmp, io};

/// A `BufMut` adapter which implements `io::Write` for the inner value.
///
/// This struct is generally created by calling `writer()` on `BufMut`. See
/// documentation of [`writer()`](BufMut::writer) for more
/// details.
#[derive(Debug)]
pub struct Writer<B> {
    buf: B,
}

pub fn new<B>(buf: B) -> Writer<B> {
    Writer { buf }
}

impl<B: BufMut> Writer<B> {
    /// Gets a reference to the underlying `BufMut`.
    ///
    /// It is inadvisable to directly write to the underlying `BufMut`.
    ///
    /// # Examples
    ///
    /// ```rust
    /// use bytes::BufMut;
    ///
    /// let buf = Vec::with_capacity(1024).writer();
    ///
    /// assert_eq!(1024, buf.get_ref().capacity());
    /// ```
    pub fn get_ref(&self) -> &B {
        &self.buf
    }

    /// Gets a mutable reference to the underlying `BufMut`.
    ///
    /// It is inadvisable to directly write to the underlying `BufMut`.
    ///
    /// # Examples
    ///
    /// ```rust
    /// use bytes::BufMut;
    ///
    /// let mut buf = vec![].writer();
    ///
    /// buf.get_mut().reserve(1024);
    ///
    /// assert_eq!(1024, buf.get_ref().capacity());
    /// ```
    pub fn get_mut(&mut self) -> &mut B {
        &mut self.buf
    }

    /// Consumes this `Writer`, returning the underlying value.
    ///
    /// # Examples
    ///
    /// ```rust
    /// use bytes::BufMut;
    /// use std::io;
    ///
    /// let mut buf = vec![].writer();
    /// let mut src = &b"hello world"[..];
    ///
    /// io::copy(&mut src, &mut buf).unwrap();
    ///
    /// let buf = buf.into_inner();
    /// assert_eq!(*buf, b"hello world"[..]);
    /// ```
    pub fn into_inner(self) -> B {
        self.buf
    }
}

impl<B: BufMut + Sized> io::Write for Writer<B> {
    fn write(&mut self, src: &[u8]) -> io::Result<usize> {
        let n = cmp::min(self.buf.remaining_mut(), src.len());

        self.buf.put_slice(&src[..n]);
        Ok(n)
    }

    fn flush(&mut self) -> io::Result<()> {
        Ok(())
    }
}
