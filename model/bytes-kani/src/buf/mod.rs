//! Utilities for working with buffers.
//!
//! A buffer is any structure that contains a sequence of bytes. The bytes may
//! or may not be stored in contiguous memory. This module contains traits used
//! to abstract over buffers as well as utilities for working with buffer types.
//!
//! # `Buf`, `BufMut`
//!
//! These are the two foundational traits for abstractly working with buffers.
//! They can be thought as iterators for byte structures. They offer additional
//! performance over `Iterator` by providing an API optimized for byte slices.
//!
//! See [`Buf`] and [`BufMut`] for more details.
//!
//! [rope]: https://en.wikipedia.org/wiki/Rope_(data_structure)

mod buf_impl;
mod buf_mut;
mod chain;
mod iter;
mod limit;
#[cfg(feature = "std")]
mod reader;
mod take;
mod uninit_slice;
mod vec_deque;
#[cfg(feature = "std")]
mod writer;

pub use self::buf_impl::Buf;
pub use self::buf_mut::BufMut;
pub use self::chain::Chain;
pub use self::iter::IntoIter;
pub use self::limit::Limit;
pub use self::take::Take;
pub use self::uninit_slice::UninitSlice;

#[cfg(feature = "std")]
pub use self::{reader::Reader, writer::Writer};
