use alloc::collections::VecDeque;
#[cfg(feature = "std")]
use std::io;

use super::Buf;

impl Buf for VecDeque<u8> {
    fn remaining(&self) -> usize {
        self.len()
    }

    fn chunk(&self) -> &[u8] {
        let (s1, s2) = self.as_slices();
        if s1.is_empty() {
            s2
        } else {
            s1
        }
    }

    #[cfg(feature = "std")]
    fn chunks_vectored<'a>(&'a self, dst: &mut [io::IoSlice<'a>]) -> usize {
        if self.is_empty() || dst.is_empty() {
            return 0;
        }

        let (s1, s2) = self.as_slices();
        dst[0] = io::IoSlice::new(s1);
        if s2.is_empty() || dst.len() == 1 {
            return 1;
        }

        dst[1] = io::IoSlice::new(s2);
        2
    }

    fn advance(&mut self, cnt: usize) {
        self.drain(..cnt);
    }
}
