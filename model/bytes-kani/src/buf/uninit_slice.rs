use core::fmt;
use core::mem::MaybeUninit;
use core::ops::{
    Index, IndexMut, Range, RangeFrom, RangeFull, RangeInclusive, RangeTo, RangeToInclusive,
};

/// Uninitialized byte slice.
///
/// Returned by `BufMut::chunk_mut()`, the referenced byte slice may be
/// uninitialized. The wrapper provides safe access without introducing
/// undefined behavior.
///
/// The safety invariants of this wrapper are:
///
///  1. Reading from an `UninitSlice` is undefined behavior.
///  2. Writing uninitialized bytes to an `UninitSlice` is undefined behavior.
///
/// The difference between `&mut UninitSlice` and `&mut [MaybeUninit<u8>]` is
/// that it is possible in safe code to write uninitialized bytes to an
/// `&mut [MaybeUninit<u8>]`, which this type prohibits.
#[repr(transparent)]
pub struct UninitSlice([MaybeUninit<u8>]);

impl UninitSlice {
    /// Creates a `&mut UninitSlice` wrapping a slice of initialised memory.
    ///
    /// # Examples
    ///
    /// ```
    /// use bytes::buf::UninitSlice;
    ///
    /// let mut buffer = [0u8; 64];
    /// let slice = UninitSlice::new(&mut buffer[..]);
    /// ```
    #[inline]
    pub fn new(slice: &mut [u8]) -> &mut UninitSlice {
        unsafe { &mut *(slice as *mut [u8] as *mut [MaybeUninit<u8>] as *mut UninitSlice) }
    }

    /// Creates a `&mut UninitSlice` wrapping a slice of uninitialised memory.
    ///
    /// # Examples
    ///
    /// ```
    /// use bytes::buf::UninitSlice;
    /// use core::mem::MaybeUninit;
    ///
    /// let mut buffer = [MaybeUninit::uninit(); 64];
    /// let slice = UninitSlice::uninit(&mut buffer[..]);
    ///
    /// let mut vec = Vec::with_capacity(1024);
    /// let spare: &mut UninitSlice = vec.spare_capacity_mut().into();
    /// ```
    #[inline]
    pub fn uninit(slice: &mut [MaybeUninit<u8>]) -> &mut UninitSlice {
        unsafe { &mut *(slice as *mut [MaybeUninit<u8>] as *mut UninitSlice) }
    }

    fn uninit_ref(slice: &[MaybeUninit<u8>]) -> &UninitSlice {
        unsafe { &*(slice as *const [MaybeUninit<u8>] as *const UninitSlice) }
    }

    /// Create a `&mut UninitSlice` from a pointer and a length.
    ///
    /// # Safety
    ///
    /// The caller must ensure that `ptr` references a valid memory region owned
    /// by the caller representing a byte slice for the duration of `'a`.
    ///
    /// # Examples
    ///
    /// ```
    /// use bytes::buf::UninitSlice;
    ///
    /// let bytes = b"hello world".to_vec();
    /// let ptr = bytes.as_ptr() as *mut _;
    /// let len = bytes.len();
    ///
    /// let slice = unsafe { UninitSlice::from_raw_parts_mut(ptr, len) };
    /// ```
    #[inline]
    pub unsafe fn from_raw_parts_mut<'a>(ptr: *mut u8, len: usize) -> &'a mut UninitSlice {
        let maybe_init: &mut [MaybeUninit<u8>] =
            core::slice::from_raw_parts_mut(ptr as *mut _, len);
        Self::uninit(maybe_init)
    }

    /// Write a single byte at the specified offset.
    ///
    /// # Panics
    ///
    /// The function panics if `index` is out of bounds.
    ///
    /// # Examples
    ///
    /// ```
    /// use bytes::buf::UninitSlice;
    ///
    /// let mut data = [b'f', b'o', b'o'];
    /// let slice = unsafe { UninitSlice::from_raw_parts_mut(data.as_mut_ptr(), 3) };
    ///
    /// slice.write_byte(0, b'b');
    ///
    /// assert_eq!(b"boo", &data[..]);
    /// ```
    #[inline]
    pub fn write_byte(&mut self, index: usize, byte: u8) {
        assert!(index < self.len());

        unsafe { self[index..].as_mut_ptr().write(byte) }
    }

    /// Copies bytes from `src` into `self`.
    ///
    /// The length of `src` must be the same as `self`.
    ///
    /// # Panics
    ///
    /// The function panics if `src` has a different length than `self`.
    ///
    /// # Examples
    ///
    /// ```
    /// use bytes::buf::UninitSlice;
    ///
    /// let mut data = [b'f', b'o', b'o'];
    /// let slice = unsafe { UninitSlice::from_raw_parts_mut(data.as_mut_ptr(), 3) };
    ///
    /// slice.copy_from_slice(b"bar");
    ///
    /// assert_eq!(b"bar", &data[..]);
    /// ```
    #[inline]
    pub fn copy_from_slice(&mut self, src: &[u8]) {
        use core::ptr;

        assert_eq!(self.len(), src.len());

        unsafe {
            ptr::copy_nonoverlapping(src.as_ptr(), self.as_mut_ptr(), self.len());
        }
    }

    /// Return a raw pointer to the slice's buffer.
    ///
    /// # Safety
    ///
    /// The caller **must not** read from the referenced memory and **must not**
    /// write **uninitialized** bytes to the slice either.
    ///
    /// # Examples
    ///
    /// ```
    /// use bytes::BufMut;
    ///
    /// let mut data = [0, 1, 2];
    /// let mut slice = &mut data[..];
    /// let ptr = BufMut::chunk_mut(&mut slice).as_mut_ptr();
    /// ```
    #[inline]
    pub fn as_mut_ptr(&mut self) -> *mut u8 {
        self.0.as_mut_ptr() as *mut _
    }

    /// Return a `&mut [MaybeUninit<u8>]` to this slice's buffer.
    ///
    /// # Safety
    ///
    /// The caller **must not** read from the referenced memory and **must not** write
    /// **uninitialized** bytes to the slice either. This is because `BufMut` implementation
    /// that created the `UninitSlice` knows which parts are initialized. Writing uninitialized
    /// bytes to the slice may cause the `BufMut` to read those bytes and trigger undefined
    /// behavior.
    ///
    /// # Examples
    ///
    /// ```
    /// use bytes::BufMut;
    ///
    /// let mut data = [0, 1, 2];
    /// let mut slice = &mut data[..];
    /// unsafe {
    ///     let uninit_slice = BufMut::chunk_mut(&mut slice).as_uninit_slice_mut();
    /// };
    /// ```
    #[inline]
    pub unsafe fn as_uninit_slice_mut(&mut self) -> &mut [MaybeUninit<u8>] {
        &mut self.0
    }

    /// Returns the number of bytes in the slice.
    ///
    /// # Examples
    ///
    /// ```
    /// use bytes::BufMut;
    ///
    /// let mut data = [0, 1, 2];
    /// let mut slice = &mut data[..];
    /// let len = BufMut::chunk_mut(&mut slice).len();
    ///
    /// assert_eq!(len, 3);
    /// ```
    #[inline]
    pub fn len(&self) -> usize {
        self.0.len()
    }
}

impl fmt::Debug for UninitSlice {
    fn fmt(&self, fmt: &mut fmt::Formatter<'_>) -> fmt::Result {
        fmt.debug_struct("UninitSlice[...]").finish()
    }
}

impl<'a> From<&'a mut [u8]> for &'a mut UninitSlice {
    fn from(slice: &'a mut [u8]) -> Self {
        UninitSlice::new(slice)
    }
}

impl<'a> From<&'a mut [MaybeUninit<u8>]> for &'a mut UninitSlice {
    fn from(slice: &'a mut [MaybeUninit<u8>]) -> Self {
        UninitSlice::uninit(slice)
    }
}

macro_rules! impl_index {
    ($($t:ty),*) => {
        $(
            impl Index<$t> for UninitSlice {
                type Output = UninitSlice;

                #[inline]
                fn index(&self, index: $t) -> &UninitSlice {
                    UninitSlice::uninit_ref(&self.0[index])
                }
            }

            impl IndexMut<$t> for UninitSlice {
                #[inline]
                fn index_mut(&mut self, index: $t) -> &mut UninitSlice {
                    UninitSlice::uninit(&mut self.0[index])
                }
            }
        )*
    };
}

impl_index!(
    Range<usize>,
    RangeFrom<usize>,
    RangeFull,
    RangeInclusive<usize>,
    RangeTo<usize>,
    RangeToInclusive<usize>
);
