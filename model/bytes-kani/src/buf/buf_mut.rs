use crate::buf::{limit, Chain, Limit, UninitSlice};
#[cfg(feature = "std")]
use crate::buf::{writer, Writer};
use crate::{panic_advance, panic_does_not_fit, TryGetError};

use core::{mem, ptr};

use alloc::{boxed::Box, vec::Vec};

/// A trait for values that provide sequential write access to bytes.
///
/// Write bytes to a buffer
///
/// A buffer stores bytes in memory such that write operations are infallible.
/// The underlying storage may or may not be in contiguous memory. A `BufMut`
/// value is a cursor into the buffer. Writing to `BufMut` advances the cursor
/// position.
///
/// The simplest `BufMut` is a `Vec<u8>`.
///
/// ```
/// use bytes::BufMut;
///
/// let mut buf = vec![];
///
/// buf.put(&b"hello world"[..]);
///
/// assert_eq!(buf, b"hello world");
/// ```
pub unsafe trait BufMut {
    /// Returns the number of bytes that can be written from the current
    /// position until the end of the buffer is reached.
    ///
    /// This value is greater than or equal to the length of the slice returned
    /// by `chunk_mut()`.
    ///
    /// Writing to a `BufMut` may involve allocating more memory on the fly.
    /// Implementations may fail before reaching the number of bytes indicated
    /// by this method if they encounter an allocation failure.
    ///
    /// # Examples
    ///
    /// ```
    /// use bytes::BufMut;
    ///
    /// let mut dst = [0; 10];
    /// let mut buf = &mut dst[..];
    ///
    /// let original_remaining = buf.remaining_mut();
    /// buf.put(&b"hello"[..]);
    ///
    /// assert_eq!(original_remaining - 5, buf.remaining_mut());
    /// ```
    ///
    /// # Implementer notes
    ///
    /// Implementations of `remaining_mut` should ensure that the return value
    /// does not change unless a call is made to `advance_mut` or any other
    /// function that is documented to change the `BufMut`'s current position.
    ///
    /// # Note
    ///
    /// `remaining_mut` may return value smaller than actual available space.
    fn remaining_mut(&self) -> usize;

    /// Advance the internal cursor of the BufMut
    ///
    /// The next call to `chunk_mut` will return a slice starting `cnt` bytes
    /// further into the underlying buffer.
    ///
    /// # Safety
    ///
    /// The caller must ensure that the next `cnt` bytes of `chunk` are
    /// initialized.
    ///
    /// # Examples
    ///
    /// ```
    /// use bytes::BufMut;
    ///
    /// let mut buf = Vec::with_capacity(16);
    ///
    /// // Write some data
    /// buf.chunk_mut()[0..2].copy_from_slice(b"he");
    /// unsafe { buf.advance_mut(2) };
    ///
    /// // write more bytes
    /// buf.chunk_mut()[0..3].copy_from_slice(b"llo");
    ///
    /// unsafe { buf.advance_mut(3); }
    ///
    /// assert_eq!(5, buf.len());
    /// assert_eq!(buf, b"hello");
    /// ```
    ///
    /// # Panics
    ///
    /// This function **may** panic if `cnt > self.remaining_mut()`.
    ///
    /// # Implementer notes
    ///
    /// It is recommended for implementations of `advance_mut` to panic if
    /// `cnt > self.remaining_mut()`. If the implementation does not panic,
    /// the call must behave as if `cnt == self.remaining_mut()`.
    ///
    /// A call with `cnt == 0` should never panic and be a no-op.
    unsafe fn advance_mut(&mut self, cnt: usize);

    /// Returns true if there is space in `self` for more bytes.
    ///
    /// This is equivalent to `self.remaining_mut() != 0`.
    ///
    /// # Examples
    ///
    /// ```
    /// use bytes::BufMut;
    ///
    /// let mut dst = [0; 5];
    /// let mut buf = &mut dst[..];
    ///
    /// assert!(buf.has_remaining_mut());
    ///
    /// buf.put(&b"hello"[..]);
    ///
    /// assert!(!buf.has_remaining_mut());
    /// ```
    #[inline]
    fn has_remaining_mut(&self) -> bool {
        self.remaining_mut() > 0
    }

    /// Returns a mutable slice starting at the current BufMut position and of
    /// length between 0 and `BufMut::remaining_mut()`. Note that this *can* be shorter than the
    /// whole remainder of the buffer (this allows non-continuous implementation).
    ///
    /// This is a lower level function. Most operations are done with other
    /// functions.
    ///
    /// The returned byte slice may represent uninitialized memory.
    ///
    /// # Examples
    ///
    /// ```
    /// use bytes::BufMut;
    ///
    /// let mut buf = Vec::with_capacity(16);
    ///
    /// unsafe {
    ///     // MaybeUninit::as_mut_ptr
    ///     buf.chunk_mut()[0..].as_mut_ptr().write(b'h');
    ///     buf.chunk_mut()[1..].as_mut_ptr().write(b'e');
    ///
    ///     buf.advance_mut(2);
    ///
    ///     buf.chunk_mut()[0..].as_mut_ptr().write(b'l');
    ///     buf.chunk_mut()[1..].as_mut_ptr().write(b'l');
    ///     buf.chunk_mut()[2..].as_mut_ptr().write(b'o');
    ///
    ///     buf.advance_mut(3);
    /// }
    ///
    /// assert_eq!(5, buf.len());
    /// assert_eq!(buf, b"hello");
    /// ```
    ///
    /// # Implementer notes
    ///
    /// This function should never panic. `chunk_mut()` should return an empty
    /// slice **if and only if** `remaining_mut()` returns 0. In other words,
    /// `chunk_mut()` returning an empty slice implies that `remaining_mut()` will
    /// return 0 and `remaining_mut()` returning 0 implies that `chunk_mut()` will
    /// return an empty slice.
    ///
    /// This function may trigger an out-of-memory abort if it tries to allocate
    /// memory and fails to do so.
    // The `chunk_mut` method was previously called `bytes_mut`. This alias makes the
    // rename more easily discoverable.
    #[cfg_attr(docsrs, doc(alias = "bytes_mut"))]
    fn chunk_mut(&mut self) -> &mut UninitSlice;

    /// Transfer bytes into `self` from `src` and advance the cursor by the
    /// number of bytes written.
    ///
    /// # Examples
    ///
    /// ```
    /// use bytes::BufMut;
    ///
    /// let mut buf = vec![];
    ///
    /// buf.put_u8(b'h');
    /// buf.put(&b"ello"[..]);
    /// buf.put(&b" world"[..]);
    ///
    /// assert_eq!(buf, b"hello world");
    /// ```
    ///
    /// # Panics
    ///
    /// Panics if `self` does not have enough capacity to contain `src`.
    #[inline]
    fn put<T: super::Buf>(&mut self, mut src: T)
    where
        Self: Sized,
    {
        if self.remaining_mut() < src.remaining() {
            panic_advance(&TryGetError {
                requested: src.remaining(),
                available: self.remaining_mut(),
            });
        }

        while src.has_remaining() {
            let s = src.chunk();
            let d = self.chunk_mut();
            let cnt = usize::min(s.len(), d.len());

            d[..cnt].copy_from_slice(&s[..cnt]);

            // SAFETY: We just initialized `cnt` bytes in `self`.
            unsafe { self.advance_mut(cnt) };
            src.advance(cnt);
        }
    }

    /// Transfer bytes into `self` from `src` and advance the cursor by the
    /// number of bytes written.
    ///
    /// `self` must have enough remaining capacity to contain all of `src`.
    ///
    /// ```
    /// use bytes::BufMut;
    ///
    /// let mut dst = [0; 6];
    ///
    /// {
    ///     let mut buf = &mut dst[..];
    ///     buf.put_slice(b"hello");
    ///
    ///     assert_eq!(1, buf.remaining_mut());
    /// }
    ///
    /// assert_eq!(b"hello\0", &dst);
    /// ```
    #[inline]
    fn put_slice(&mut self, mut src: &[u8]) {
        if self.remaining_mut() < src.len() {
            panic_advance(&TryGetError {
                requested: src.len(),
                available: self.remaining_mut(),
            });
        }

        while !src.is_empty() {
            let dst = self.chunk_mut();
            let cnt = usize::min(src.len(), dst.len());

            dst[..cnt].copy_from_slice(&src[..cnt]);
            src = &src[cnt..];

            // SAFETY: We just initialized `cnt` bytes in `self`.
            unsafe { self.advance_mut(cnt) };
        }
    }

    /// Put `cnt` bytes `val` into `self`.
    ///
    /// Logically equivalent to calling `self.put_u8(val)` `cnt` times, but may work faster.
    ///
    /// `self` must have at least `cnt` remaining capacity.
    ///
    /// ```
    /// use bytes::BufMut;
    ///
    /// let mut dst = [0; 6];
    ///
    /// {
    ///     let mut buf = &mut dst[..];
    ///     buf.put_bytes(b'a', 4);
    ///
    ///     assert_eq!(2, buf.remaining_mut());
    /// }
    ///
    /// assert_eq!(b"aaaa\0\0", &dst);
    /// ```
    ///
    /// # Panics
    ///
    /// This function panics if there is not enough remaining capacity in
    /// `self`.
    #[inline]
    fn put_bytes(&mut self, val: u8, mut cnt: usize) {
        if self.remaining_mut() < cnt {
            panic_advance(&TryGetError {
                requested: cnt,
                available: self.remaining_mut(),
            })
        }

        while cnt > 0 {
            let dst = self.chunk_mut();
            let dst_len = usize::min(dst.len(), cnt);
            // SAFETY: The pointer is valid for `dst_len <= dst.len()` bytes.
            unsafe { core::ptr::write_bytes(dst.as_mut_ptr(), val, dst_len) };
            // SAFETY: We just initialized `dst_len` bytes in `self`.
            unsafe { self.advance_mut(dst_len) };
            cnt -= dst_len;
        }
    }

    /// Writes an unsigned 8 bit integer to `self`.
    ///
    /// The current position is advanced by 1.
    ///
    /// # Examples
    ///
    /// ```
    /// use bytes::BufMut;
    ///
    /// let mut buf = vec![];
    /// buf.put_u8(0x01);
    /// assert_eq!(buf, b"\x01");
    /// ```
    ///
    /// # Panics
    ///
    /// This function panics if there is not enough remaining capacity in
    /// `self`.
    #[inline]
    fn put_u8(&mut self, n: u8) {
        let src = [n];
        self.put_slice(&src);
    }

    /// Writes a signed 8 bit integer to `self`.
    ///
    /// The current position is advanced by 1.
    ///
    /// # Examples
    ///
    /// ```
    /// use bytes::BufMut;
    ///
    /// let mut buf = vec![];
    /// buf.put_i8(0x01);
    /// assert_eq!(buf, b"\x01");
    /// ```
    ///
    /// # Panics
    ///
    /// This function panics if there is not enough remaining capacity in
    /// `self`.
    #[inline]
    fn put_i8(&mut self, n: i8) {
        let src = [n as u8];
        self.put_slice(&src)
    }

    /// Writes an unsigned 16 bit integer to `self` in big-endian byte order.
    ///
    /// The current position is advanced by 2.
    ///
    /// # Examples
    ///
    /// ```
    /// use bytes::BufMut;
    ///
    /// let mut buf = vec![];
    /// buf.put_u16(0x0809);
    /// assert_eq!(buf, b"\x08\x09");
    /// ```
    ///
    /// # Panics
    ///
    /// This function panics if there is not enough remaining capacity in
    /// `self`.
    #[inline]
    fn put_u16(&mut self, n: u16) {
        self.put_slice(&n.to_be_bytes())
    }

    /// Writes an unsigned 16 bit integer to `self` in little-endian byte order.
    ///
    /// The current position is advanced by 2.
    ///
    /// # Examples
    ///
    /// ```
    /// use bytes::BufMut;
    ///
    /// let mut buf = vec![];
    /// buf.put_u16_le(0x0809);
    /// assert_eq!(buf, b"\x09\x08");
    /// ```
    ///
    /// # Panics
    ///
    /// This function panics if there is not enough remaining capacity in
    /// `self`.
    #[inline]
    fn put_u16_le(&mut self, n: u16) {
        self.put_slice(&n.to_le_bytes())
    }

    /// Writes an unsigned 16 bit integer to `self` in native-endian byte order.
    ///
    /// The current position is advanced by 2.
    ///
    /// # Examples
    ///
    /// ```
    /// use bytes::BufMut;
    ///
    /// let mut buf = vec![];
    /// buf.put_u16_ne(0x0809);
    /// if cfg!(target_endian = "big") {
    ///     assert_eq!(buf, b"\x08\x09");
    /// } else {
    ///     assert_eq!(buf, b"\x09\x08");
    /// }
    /// ```
    ///
    /// # Panics
    ///
    /// This function panics if there is not enough remaining capacity in
    /// `self`.
    #[inline]
    fn put_u16_ne(&mut self, n: u16) {
        self.put_slice(&n.to_ne_bytes())
    }

    /// Writes a signed 16 bit integer to `self` in big-endian byte order.
    ///
    /// The current position is advanced by 2.
    ///
    /// # Examples
    ///
    /// ```
    /// use bytes::BufMut;
    ///
    /// let mut buf = vec![];
    /// buf.put_i16(0x0809);
    /// assert_eq!(buf, b"\x08\x09");
    /// ```
    ///
    /// # Panics
    ///
    /// This function panics if there is not enough remaining capacity in
    /// `self`.
    #[inline]
    fn put_i16(&mut self, n: i16) {
        self.put_slice(&n.to_be_bytes())
    }

    /// Writes a signed 16 bit integer to `self` in little-endian byte order.
    ///
    /// The current position is advanced by 2.
    ///
    /// # Examples
    ///
    /// ```
    /// use bytes::BufMut;
    ///
    /// let mut buf = vec![];
    /// buf.put_i16_le(0x0809);
    /// assert_eq!(buf, b"\x09\x08");
    /// ```
    ///
    /// # Panics
    ///
    /// This function panics if there is not enough remaining capacity in
    /// `self`.
    #[inline]
    fn put_i16_le(&mut self, n: i16) {
        self.put_slice(&n.to_le_bytes())
    }

    /// Writes a signed 16 bit integer to `self` in native-endian byte order.
    ///
    /// The current position is advanced by 2.
    ///
    /// # Examples
    ///
    /// ```
    /// use bytes::BufMut;
    ///
    /// let mut buf = vec![];
    /// buf.put_i16_ne(0x0809);
    /// if cfg!(target_endian = "big") {
    ///     assert_eq!(buf, b"\x08\x09");
    /// } else {
    ///     assert_eq!(buf, b"\x09\x08");
    /// }
    /// ```
    ///
    /// # Panics
    ///
    /// This function panics if there is not enough remaining capacity in
    /// `self`.
    #[inline]
    fn put_i16_ne(&mut self, n: i16) {
        self.put_slice(&n.to_ne_bytes())
    }

    /// Writes an unsigned 32 bit integer to `self` in big-endian byte order.
    ///
    /// The current position is advanced by 4.
    ///
    /// # Examples
    ///
    /// ```
    /// use bytes::BufMut;
    ///
    /// let mut buf = vec![];
    /// buf.put_u32(0x0809A0A1);
    /// assert_eq!(buf, b"\x08\x09\xA0\xA1");
    /// ```
    ///
    /// # Panics
    ///
    /// This function panics if there is not enough remaining capacity in
    /// `self`.
    #[inline]
    fn put_u32(&mut self, n: u32) {
        self.put_slice(&n.to_be_bytes())
    }

    /// Writes an unsigned 32 bit integer to `self` in little-endian byte order.
    ///
    /// The current position is advanced by 4.
    ///
    /// # Examples
    ///
    /// ```
    /// use bytes::BufMut;
    ///
    /// let mut buf = vec![];
    /// buf.put_u32_le(0x0809A0A1);
    /// assert_eq!(buf, b"\xA1\xA0\x09\x08");
    /// ```
    ///
    /// # Panics
    ///
    /// This function panics if there is not enough remaining capacity in
    /// `self`.
    #[inline]
    fn put_u32_le(&mut self, n: u32) {
        self.put_slice(&n.to_le_bytes())
    }

    /// Writes an unsigned 32 bit integer to `self` in native-endian byte order.
    ///
    /// The current position is advanced by 4.
    ///
    /// # Examples
    ///
    /// ```
    /// use bytes::BufMut;
    ///
    /// let mut buf = vec![];
    /// buf.put_u32_ne(0x0809A0A1);
    /// if cfg!(target_endian = "big") {
    ///     assert_eq!(buf, b"\x08\x09\xA0\xA1");
    /// } else {
    ///     assert_eq!(buf, b"\xA1\xA0\x09\x08");
    /// }
    /// ```
    ///
    /// # Panics
    ///
    /// This function panics if there is not enough remaining capacity in
    /// `self`.
    #[inline]
    fn put_u32_ne(&mut self, n: u32) {
        self.put_slice(&n.to_ne_bytes())
    }

    /// Writes a signed 32 bit integer to `self` in big-endian byte order.
    ///
    /// The current position is advanced by 4.
    ///
    /// # Examples
    ///
    /// ```
    /// use bytes::BufMut;
    ///
    /// let mut buf = vec![];
    /// buf.put_i32(0x0809A0A1);
    /// assert_eq!(buf, b"\x08\x09\xA0\xA1");
    /// ```
    ///
    /// # Panics
    ///
    /// This function panics if there is not enough remaining capacity in
    /// `self`.
    #[inline]
    fn put_i32(&mut self, n: i32) {
        self.put_slice(&n.to_be_bytes())
    }

    /// Writes a signed 32 bit integer to `self` in little-endian byte order.
    ///
    /// The current position is advanced by 4.
    ///
    /// # Examples
    ///
    /// ```
    /// use bytes::BufMut;
    ///
    /// let mut buf = vec![];
    /// buf.put_i32_le(0x0809A0A1);
    /// assert_eq!(buf, b"\xA1\xA0\x09\x08");
    /// ```
    ///
    /// # Panics
    ///
    /// This function panics if there is not enough remaining capacity in
    /// `self`.
    #[inline]
    fn put_i32_le(&mut self, n: i32) {
        self.put_slice(&n.to_le_bytes())
    }

    /// Writes a signed 32 bit integer to `self` in native-endian byte order.
    ///
    /// The current position is advanced by 4.
    ///
    /// # Examples
    ///
    /// ```
    /// use bytes::BufMut;
    ///
    /// let mut buf = vec![];
    /// buf.put_i32_ne(0x0809A0A1);
    /// if cfg!(target_endian = "big") {
    ///     assert_eq!(buf, b"\x08\x09\xA0\xA1");
    /// } else {
    ///     assert_eq!(buf, b"\xA1\xA0\x09\x08");
    /// }
    /// ```
    ///
    /// # Panics
    ///
    /// This function panics if there is not enough remaining capacity in
    /// `self`.
    #[inline]
    fn put_i32_ne(&mut self, n: i32) {
        self.put_slice(&n.to_ne_bytes())
    }

    /// Writes an unsigned 64 bit integer to `self` in the big-endian byte order.
    ///
    /// The current position is advanced by 8.
    ///
    /// # Examples
    ///
    /// ```
    /// use bytes::BufMut;
    ///
    /// let mut buf = vec![];
    /// buf.put_u64(0x0102030405060708);
    /// assert_eq!(buf, b"\x01\x02\x03\x04\x05\x06\x07\x08");
    /// ```
    ///
    /// # Panics
    ///
    /// This function panics if there is not enough remaining capacity in
    /// `self`.
    #[inline]
    fn put_u64(&mut self, n: u64) {
        self.put_slice(&n.to_be_bytes())
    }

    /// Writes an unsigned 64 bit integer to `self` in little-endian byte order.
    ///
    /// The current position is advanced by 8.
    ///
    /// # Examples
    ///
    /// ```
    /// use bytes::BufMut;
    ///
    /// let mut buf = vec![];
    /// buf.put_u64_le(0x0102030405060708);
    /// assert_eq!(buf, b"\x08\x07\x06\x05\x04\x03\x02\x01");
    /// ```
    ///
    /// # Panics
    ///
    /// This function panics if there is not enough remaining capacity in
    /// `self`.
    #[inline]
    fn put_u64_le(&mut self, n: u64) {
        self.put_slice(&n.to_le_bytes())
    }

    /// Writes an unsigned 64 bit integer to `self` in native-endian byte order.
    ///
    /// The current position is advanced by 8.
    ///
    /// # Examples
    ///
    /// ```
    /// use bytes::BufMut;
    ///
    /// let mut buf = vec![];
    /// buf.put_u64_ne(0x0102030405060708);
    /// if cfg!(target_endian = "big") {
    ///     assert_eq!(buf, b"\x01\x02\x03\x04\x05\x06\x07\x08");
    /// } else {
    ///     assert_eq!(buf, b"\x08\x07\x06\x05\x04\x03\x02\x01");
    /// }
    /// ```
    ///
    /// # Panics
    ///
    /// This function panics if there is not enough remaining capacity in
    /// `self`.
    #[inline]
    fn put_u64_ne(&mut self, n: u64) {
        self.put_slice(&n.to_ne_bytes())
    }

    /// Writes a signed 64 bit integer to `self` in the big-endian byte order.
    ///
    /// The current position is advanced by 8.
    ///
    /// # Examples
    ///
    /// ```
    /// use bytes::BufMut;
    ///
    /// let mut buf = vec![];
    /// buf.put_i64(0x0102030405060708);
    /// assert_eq!(buf, b"\x01\x02\x03\x04\x05\x06\x07\x08");
    /// ```
    ///
    /// # Panics
    ///
    /// This function panics if there is not enough remaining capacity in
    /// `self`.
    #[inline]
    fn put_i64(&mut self, n: i64) {
        self.put_slice(&n.to_be_bytes())
    }

    /// Writes a signed 64 bit integer to `self` in little-endian byte order.
    ///
    /// The current position is advanced by 8.
    ///
    /// # Examples
    ///
    /// ```
    /// use bytes::BufMut;
    ///
    /// let mut buf = vec![];
    /// buf.put_i64_le(0x0102030405060708);
    /// assert_eq!(buf, b"\x08\x07\x06\x05\x04\x03\x02\x01");
    /// ```
    ///
    /// # Panics
    ///
    /// This function panics if there is not enough remaining capacity in
    /// `self`.
    #[inline]
    fn put_i64_le(&mut self, n: i64) {
        self.put_slice(&n.to_le_bytes())
    }

    /// Writes a signed 64 bit integer to `self` in native-endian byte order.
    ///
    /// The current position is advanced by 8.
    ///
    /// # Examples
    ///
    /// ```
    /// use bytes::BufMut;
    ///
    /// let mut buf = vec![];
    /// buf.put_i64_ne(0x0102030405060708);
    /// if cfg!(target_endian = "big") {
    ///     assert_eq!(buf, b"\x01\x02\x03\x04\x05\x06\x07\x08");
    /// } else {
    ///     assert_eq!(buf, b"\x08\x07\x06\x05\x04\x03\x02\x01");
    /// }
    /// ```
    ///
    /// # Panics
    ///
    /// This function panics if there is not enough remaining capacity in
    /// `self`.
    #[inline]
    fn put_i64_ne(&mut self, n: i64) {
        self.put_slice(&n.to_ne_bytes())
    }

    /// Writes an unsigned 128 bit integer to `self` in the big-endian byte order.
    ///
    /// The current position is advanced by 16.
    ///
    /// # Examples
    ///
    /// ```
    /// use bytes::BufMut;
    ///
    /// let mut buf = vec![];
    /// buf.put_u128(0x01020304050607080910111213141516);
    /// assert_eq!(buf, b"\x01\x02\x03\x04\x05\x06\x07\x08\x09\x10\x11\x12\x13\x14\x15\x16");
    /// ```
    ///
    /// # Panics
    ///
    /// This function panics if there is not enough remaining capacity in
    /// `self`.
    #[inline]
    fn put_u128(&mut self, n: u128) {
        self.put_slice(&n.to_be_bytes())
    }

    /// Writes an unsigned 128 bit integer to `self` in little-endian byte order.
    ///
    /// The current position is advanced by 16.
    ///
    /// # Examples
    ///
    /// ```
    /// use bytes::BufMut;
    ///
    /// let mut buf = vec![];
    /// buf.put_u128_le(0x01020304050607080910111213141516);
    /// assert_eq!(buf, b"\x16\x15\x14\x13\x12\x11\x10\x09\x08\x07\x06\x05\x04\x03\x02\x01");
    /// ```
    ///
    /// # Panics
    ///
    /// This function panics if there is not enough remaining capacity in
    /// `self`.
    #[inline]
    fn put_u128_le(&mut self, n: u128) {
        self.put_slice(&n.to_le_bytes())
    }

    /// Writes an unsigned 128 bit integer to `self` in native-endian byte order.
    ///
    /// The current position is advanced by 16.
    ///
    /// # Examples
    ///
    /// ```
    /// use bytes::BufMut;
    ///
    /// let mut buf = vec![];
    /// buf.put_u128_ne(0x01020304050607080910111213141516);
    /// if cfg!(target_endian = "big") {
    ///     assert_eq!(buf, b"\x01\x02\x03\x04\x05\x06\x07\x08\x09\x10\x11\x12\x13\x14\x15\x16");
    /// } else {
    ///     assert_eq!(buf, b"\x16\x15\x14\x13\x12\x11\x10\x09\x08\x07\x06\x05\x04\x03\x02\x01");
    /// }
    /// ```
    ///
    /// # Panics
    ///
    /// This function panics if there is not enough remaining capacity in
    /// `self`.
    #[inline]
    fn put_u128_ne(&mut self, n: u128) {
        self.put_slice(&n.to_ne_bytes())
    }

    /// Writes a signed 128 bit integer to `self` in the big-endian byte order.
    ///
    /// The current position is advanced by 16.
    ///
    /// # Examples
    ///
    /// ```
    /// use bytes::BufMut;
    ///
    /// let mut buf = vec![];
    /// buf.put_i128(0x01020304050607080910111213141516);
    /// assert_eq!(buf, b"\x01\x02\x03\x04\x05\x06\x07\x08\x09\x10\x11\x12\x13\x14\x15\x16");
    /// ```
    ///
    /// # Panics
    ///
    /// This function panics if there is not enough remaining capacity in
    /// `self`.
    #[inline]
    fn put_i128(&mut self, n: i128) {
        self.put_slice(&n.to_be_bytes())
    }

    /// Writes a signed 128 bit integer to `self` in little-endian byte order.
    ///
    /// The current position is advanced by 16.
    ///
    /// # Examples
    ///
    /// ```
    /// use bytes::BufMut;
    ///
    /// let mut buf = vec![];
    /// buf.put_i128_le(0x01020304050607080910111213141516);
    /// assert_eq!(buf, b"\x16\x15\x14\x13\x12\x11\x10\x09\x08\x07\x06\x05\x04\x03\x02\x01");
    /// ```
    ///
    /// # Panics
    ///
    /// This function panics if there is not enough remaining capacity in
    /// `self`.
    #[inline]
    fn put_i128_le(&mut self, n: i128) {
        self.put_slice(&n.to_le_bytes())
    }

    /// Writes a signed 128 bit integer to `self` in native-endian byte order.
    ///
    /// The current position is advanced by 16.
    ///
    /// # Examples
    ///
    /// ```
    /// use bytes::BufMut;
    ///
    /// let mut buf = vec![];
    /// buf.put_i128_ne(0x01020304050607080910111213141516);
    /// if cfg!(target_endian = "big") {
    ///     assert_eq!(buf, b"\x01\x02\x03\x04\x05\x06\x07\x08\x09\x10\x11\x12\x13\x14\x15\x16");
    /// } else {
    ///     assert_eq!(buf, b"\x16\x15\x14\x13\x12\x11\x10\x09\x08\x07\x06\x05\x04\x03\x02\x01");
    /// }
    /// ```
    ///
    /// # Panics
    ///
    /// This function panics if there is not enough remaining capacity in
    /// `self`.
    #[inline]
    fn put_i128_ne(&mut self, n: i128) {
        self.put_slice(&n.to_ne_bytes())
    }

    /// Writes an unsigned n-byte integer to `self` in big-endian byte order.
    ///
    /// The current position is advanced by `nbytes`.
    ///
    /// # Examples
    ///
    /// ```
    /// use bytes::BufMut;
    ///
    /// let mut buf = vec![];
    /// buf.put_uint(0x010203, 3);
    /// assert_eq!(buf, b"\x01\x02\x03");
    /// ```
    ///
    /// # Panics
    ///
    /// This function panics if there is not enough remaining capacity in
    /// `self` or if `nbytes` is greater than 8.
    #[inline]
    fn put_uint(&mut self, n: u64, nbytes: usize) {
        let start = match mem::size_of_val(&n).checked_sub(nbytes) {
            Some(start) => start,
            None => panic_does_not_fit(nbytes, mem::size_of_val(&n)),
        };

        self.put_slice(&n.to_be_bytes()[start..]);
    }

    /// Writes an unsigned n-byte integer to `self` in the little-endian byte order.
    ///
    /// The current position is advanced by `nbytes`.
    ///
    /// # Examples
    ///
    /// ```
    /// use bytes::BufMut;
    ///
    /// let mut buf = vec![];
    /// buf.put_uint_le(0x010203, 3);
    /// assert_eq!(buf, b"\x03\x02\x01");
    /// ```
    ///
    /// # Panics
    ///
    /// This function panics if there is not enough remaining capacity in
    /// `self` or if `nbytes` is greater than 8.
    #[inline]
    fn put_uint_le(&mut self, n: u64, nbytes: usize) {
        let slice = n.to_le_bytes();
        let slice = match slice.get(..nbytes) {
            Some(slice) => slice,
            None => panic_does_not_fit(nbytes, slice.len()),
        };

        self.put_slice(slice);
    }

    /// Writes an unsigned n-byte integer to `self` in the native-endian byte order.
    ///
    /// The current position is advanced by `nbytes`.
    ///
    /// # Examples
    ///
    /// ```
    /// use bytes::BufMut;
    ///
    /// let mut buf = vec![];
    /// buf.put_uint_ne(0x010203, 3);
    /// if cfg!(target_endian = "big") {
    ///     assert_eq!(buf, b"\x01\x02\x03");
    /// } else {
    ///     assert_eq!(buf, b"\x03\x02\x01");
    /// }
    /// ```
    ///
    /// # Panics
    ///
    /// This function panics if there is not enough remaining capacity in
    /// `self` or if `nbytes` is greater than 8.
    #[inline]
    fn put_uint_ne(&mut self, n: u64, nbytes: usize) {
        if cfg!(target_endian = "big") {
            self.put_uint(n, nbytes)
        } else {
            self.put_uint_le(n, nbytes)
        }
    }

    /// Writes low `nbytes` of a signed integer to `self` in big-endian byte order.
    ///
    /// The current position is advanced by `nbytes`.
    ///
    /// # Examples
    ///
    /// ```
    /// use bytes::BufMut;
    ///
    /// let mut buf = vec![];
    /// buf.put_int(0x0504010203, 3);
    /// assert_eq!(buf, b"\x01\x02\x03");
    /// ```
    ///
    /// # Panics
    ///
    /// This function panics if there is not enough remaining capacity in
    /// `self` or if `nbytes` is greater than 8.
    #[inline]
    fn put_int(&mut self, n: i64, nbytes: usize) {
        let start = match mem::size_of_val(&n).checked_sub(nbytes) {
            Some(start) => start,
            None => panic_does_not_fit(nbytes, mem::size_of_val(&n)),
        };

        self.put_slice(&n.to_be_bytes()[start..]);
    }

    /// Writes low `nbytes` of a signed integer to `self` in little-endian byte order.
    ///
    /// The current position is advanced by `nbytes`.
    ///
    /// # Examples
    ///
    /// ```
    /// use bytes::BufMut;
    ///
    /// let mut buf = vec![];
    /// buf.put_int_le(0x0504010203, 3);
    /// assert_eq!(buf, b"\x03\x02\x01");
    /// ```
    ///
    /// # Panics
    ///
    /// This function panics if there is not enough remaining capacity in
    /// `self` or if `nbytes` is greater than 8.
    #[inline]
    fn put_int_le(&mut self, n: i64, nbytes: usize) {
        let slice = n.to_le_bytes();
        let slice = match slice.get(..nbytes) {
            Some(slice) => slice,
            None => panic_does_not_fit(nbytes, slice.len()),
        };

        self.put_slice(slice);
    }

    /// Writes low `nbytes` of a signed integer to `self` in native-endian byte order.
    ///
    /// The current position is advanced by `nbytes`.
    ///
    /// # Examples
    ///
    /// ```
    /// use bytes::BufMut;
    ///
    /// let mut buf = vec![];
    /// buf.put_int_ne(0x010203, 3);
    /// if cfg!(target_endian = "big") {
    ///     assert_eq!(buf, b"\x01\x02\x03");
    /// } else {
    ///     assert_eq!(buf, b"\x03\x02\x01");
    /// }
    /// ```
    ///
    /// # Panics
    ///
    /// This function panics if there is not enough remaining capacity in
    /// `self` or if `nbytes` is greater than 8.
    #[inline]
    fn put_int_ne(&mut self, n: i64, nbytes: usize) {
        if cfg!(target_endian = "big") {
            self.put_int(n, nbytes)
        } else {
            self.put_int_le(n, nbytes)
        }
    }

    /// Writes an IEEE754 single-precision (4 bytes) floating point number to
    /// `self` in big-endian byte order.
    ///
    /// The current position is advanced by 4.
    ///
    /// # Examples
    ///
    /// ```
    /// use bytes::BufMut;
    ///
    /// let mut buf = vec![];
    /// buf.put_f32(1.2f32);
    /// assert_eq!(buf, b"\x3F\x99\x99\x9A");
    /// ```
    ///
    /// # Panics
    ///
    /// This function panics if there is not enough remaining capacity in
    /// `self`.
    #[inline]
    fn put_f32(&mut self, n: f32) {
        self.put_u32(n.to_bits());
    }

    /// Writes an IEEE754 single-precision (4 bytes) floating point number to
    /// `self` in little-endian byte order.
    ///
    /// The current position is advanced by 4.
    ///
    /// # Examples
    ///
    /// ```
    /// use bytes::BufMut;
    ///
    /// let mut buf = vec![];
    /// buf.put_f32_le(1.2f32);
    /// assert_eq!(buf, b"\x9A\x99\x99\x3F");
    /// ```
    ///
    /// # Panics
    ///
    /// This function panics if there is not enough remaining capacity in
    /// `self`.
    #[inline]
    fn put_f32_le(&mut self, n: f32) {
        self.put_u32_le(n.to_bits());
    }

    /// Writes an IEEE754 single-precision (4 bytes) floating point number to
    /// `self` in native-endian byte order.
    ///
    /// The current position is advanced by 4.
    ///
    /// # Examples
    ///
    /// ```
    /// use bytes::BufMut;
    ///
    /// let mut buf = vec![];
    /// buf.put_f32_ne(1.2f32);
    /// if cfg!(target_endian = "big") {
    ///     assert_eq!(buf, b"\x3F\x99\x99\x9A");
    /// } else {
    ///     assert_eq!(buf, b"\x9A\x99\x99\x3F");
    /// }
    /// ```
    ///
    /// # Panics
    ///
    /// This function panics if there is not enough remaining capacity in
    /// `self`.
    #[inline]
    fn put_f32_ne(&mut self, n: f32) {
        self.put_u32_ne(n.to_bits());
    }

    /// Writes an IEEE754 double-precision (8 bytes) floating point number to
    /// `self` in big-endian byte order.
    ///
    /// The current position is advanced by 8.
    ///
    /// # Examples
    ///
    /// ```
    /// use bytes::BufMut;
    ///
    /// let mut buf = vec![];
    /// buf.put_f64(1.2f64);
    /// assert_eq!(buf, b"\x3F\xF3\x33\x33\x33\x33\x33\x33");
    /// ```
    ///
    /// # Panics
    ///
    /// This function panics if there is not enough remaining capacity in
    /// `self`.
    #[inline]
    fn put_f64(&mut self, n: f64) {
        self.put_u64(n.to_bits());
    }

    /// Writes an IEEE754 double-precision (8 bytes) floating point number to
    /// `self` in little-endian byte order.
    ///
    /// The current position is advanced by 8.
    ///
    /// # Examples
    ///
    /// ```
    /// use bytes::BufMut;
    ///
    /// let mut buf = vec![];
    /// buf.put_f64_le(1.2f64);
    /// assert_eq!(buf, b"\x33\x33\x33\x33\x33\x33\xF3\x3F");
    /// ```
    ///
    /// # Panics
    ///
    /// This function panics if there is not enough remaining capacity in
    /// `self`.
    #[inline]
    fn put_f64_le(&mut self, n: f64) {
        self.put_u64_le(n.to_bits());
    }

    /// Writes an IEEE754 double-precision (8 bytes) floating point number to
    /// `self` in native-endian byte order.
    ///
    /// The current position is advanced by 8.
    ///
    /// # Examples
    ///
    /// ```
    /// use bytes::BufMut;
    ///
    /// let mut buf = vec![];
    /// buf.put_f64_ne(1.2f64);
    /// if cfg!(target_endian = "big") {
    ///     assert_eq!(buf, b"\x3F\xF3\x33\x33\x33\x33\x33\x33");
    /// } else {
    ///     assert_eq!(buf, b"\x33\x33\x33\x33\x33\x33\xF3\x3F");
    /// }
    /// ```
    ///
    /// # Panics
    ///
    /// This function panics if there is not enough remaining capacity in
    /// `self`.
    #[inline]
    fn put_f64_ne(&mut self, n: f64) {
        self.put_u64_ne(n.to_bits());
    }

    /// Creates an adaptor which can write at most `limit` bytes to `self`.
    ///
    /// # Examples
    ///
    /// ```
    /// use bytes::BufMut;
    ///
    /// let arr = &mut [0u8; 128][..];
    /// assert_eq!(arr.remaining_mut(), 128);
    ///
    /// let dst = arr.limit(10);
    /// assert_eq!(dst.remaining_mut(), 10);
    /// ```
    #[inline]
    fn limit(self, limit: usize) -> Limit<Self>
    where
        Self: Sized,
    {
        limit::new(self, limit)
    }

    /// Creates an adaptor which implements the `Write` trait for `self`.
    ///
    /// This function returns a new value which implements `Write` by adapting
    /// the `Write` trait functions to the `BufMut` trait functions. Given that
    /// `BufMut` operations are infallible, none of the `Write` functions will
    /// return with `Err`.
    ///
    /// # Examples
    ///
    /// ```
    /// use bytes::BufMut;
    /// use std::io::Write;
    ///
    /// let mut buf = vec![].writer();
    ///
    /// let num = buf.write(&b"hello world"[..]).unwrap();
    /// assert_eq!(11, num);
    ///
    /// let buf = buf.into_inner();
    ///
    /// assert_eq!(*buf, b"hello world"[..]);
    /// ```
    #[cfg(feature = "std")]
    #[cfg_attr(docsrs, doc(cfg(feature = "std")))]
    #[inline]
    fn writer(self) -> Writer<Self>
    where
        Self: Sized,
    {
        writer::new(self)
    }

    /// Creates an adapter which will chain this buffer with another.
    ///
    /// The returned `BufMut` instance will first write to all bytes from
    /// `self`. Afterwards, it will write to `next`.
    ///
    /// # Examples
    ///
    /// ```
    /// use bytes::BufMut;
    ///
    /// let mut a = [0u8; 5];
    /// let mut b = [0u8; 6];
    ///
    /// let mut chain = (&mut a[..]).chain_mut(&mut b[..]);
    ///
    /// chain.put_slice(b"hello world");
    ///
    /// assert_eq!(&a[..], b"hello");
    /// assert_eq!(&b[..], b" world");
    /// ```
    #[inline]
    fn chain_mut<U: BufMut>(self, next: U) -> Chain<Self, U>
    where
        Self: Sized,
    {
        Chain::new(self, next)
    }
}

macro_rules! deref_forward_bufmut {
    () => {
        #[inline]
        fn remaining_mut(&self) -> usize {
            (**self).remaining_mut()
        }

        #[inline]
        fn chunk_mut(&mut self) -> &mut UninitSlice {
            (**self).chunk_mut()
        }

        #[inline]
        unsafe fn advance_mut(&mut self, cnt: usize) {
            (**self).advance_mut(cnt)
        }

        #[inline]
        fn put_slice(&mut self, src: &[u8]) {
            (**self).put_slice(src)
        }

        #[inline]
        fn put_u8(&mut self, n: u8) {
            (**self).put_u8(n)
        }

        #[inline]
        fn put_i8(&mut self, n: i8) {
            (**self).put_i8(n)
        }

        #[inline]
        fn put_u16(&mut self, n: u16) {
            (**self).put_u16(n)
        }

        #[inline]
        fn put_u16_le(&mut self, n: u16) {
            (**self).put_u16_le(n)
        }

        #[inline]
        fn put_u16_ne(&mut self, n: u16) {
            (**self).put_u16_ne(n)
        }

        #[inline]
        fn put_i16(&mut self, n: i16) {
            (**self).put_i16(n)
        }

        #[inline]
        fn put_i16_le(&mut self, n: i16) {
            (**self).put_i16_le(n)
        }

        #[inline]
        fn put_i16_ne(&mut self, n: i16) {
            (**self).put_i16_ne(n)
        }

        #[inline]
        fn put_u32(&mut self, n: u32) {
            (**self).put_u32(n)
        }

        #[inline]
        fn put_u32_le(&mut self, n: u32) {
            (**self).put_u32_le(n)
        }

        #[inline]
        fn put_u32_ne(&mut self, n: u32) {
            (**self).put_u32_ne(n)
        }

        #[inline]
        fn put_i32(&mut self, n: i32) {
            (**self).put_i32(n)
        }

        #[inline]
        fn put_i32_le(&mut self, n: i32) {
            (**self).put_i32_le(n)
        }

        #[inline]
        fn put_i32_ne(&mut self, n: i32) {
            (**self).put_i32_ne(n)
        }

        #[inline]
        fn put_u64(&mut self, n: u64) {
            (**self).put_u64(n)
        }

        #[inline]
        fn put_u64_le(&mut self, n: u64) {
            (**self).put_u64_le(n)
        }

        #[inline]
        fn put_u64_ne(&mut self, n: u64) {
            (**self).put_u64_ne(n)
        }

        #[inline]
        fn put_i64(&mut self, n: i64) {
            (**self).put_i64(n)
        }

        #[inline]
        fn put_i64_le(&mut self, n: i64) {
            (**self).put_i64_le(n)
        }

        #[inline]
        fn put_i64_ne(&mut self, n: i64) {
            (**self).put_i64_ne(n)
        }
    };
}

unsafe impl<T: BufMut + ?Sized> BufMut for &mut T {
    deref_forward_bufmut!();
}

unsafe impl<T: BufMut + ?Sized> BufMut for Box<T> {
    deref_forward_bufmut!();
}

unsafe impl BufMut for &mut [u8] {
    #[inline]
    fn remaining_mut(&self) -> usize {
        self.len()
    }

    #[inline]
    fn chunk_mut(&mut self) -> &mut UninitSlice {
        UninitSlice::new(self)
    }

    #[inline]
    unsafe fn advance_mut(&mut self, cnt: usize) {
        if self.len() < cnt {
            panic_advance(&TryGetError {
                requested: cnt,
                available: self.len(),
            });
        }

        // Lifetime dance taken from `impl Write for &mut [u8]`.
        let (_, b) = core::mem::take(self).split_at_mut(cnt);
        *self = b;
    }

    #[inline]
    fn put_slice(&mut self, src: &[u8]) {
        if self.len() < src.len() {
            panic_advance(&TryGetError {
                requested: src.len(),
                available: self.len(),
            });
        }

        self[..src.len()].copy_from_slice(src);
        // SAFETY: We just initialized `src.len()` bytes.
        unsafe { self.advance_mut(src.len()) };
    }

    #[inline]
    fn put_bytes(&mut self, val: u8, cnt: usize) {
        if self.len() < cnt {
            panic_advance(&TryGetError {
                requested: cnt,
                available: self.len(),
            });
        }

        // SAFETY: We just checked that the pointer is valid for `cnt` bytes.
        unsafe {
            ptr::write_bytes(self.as_mut_ptr(), val, cnt);
            self.advance_mut(cnt);
        }
    }
}

unsafe impl BufMut for &mut [core::mem::MaybeUninit<u8>] {
    #[inline]
    fn remaining_mut(&self) -> usize {
        self.len()
    }

    #[inline]
    fn chunk_mut(&mut self) -> &mut UninitSlice {
        UninitSlice::uninit(self)
    }

    #[inline]
    unsafe fn advance_mut(&mut self, cnt: usize) {
        if self.len() < cnt {
            panic_advance(&TryGetError {
                requested: cnt,
                available: self.len(),
            });
        }

        // Lifetime dance taken from `impl Write for &mut [u8]`.
        let (_, b) = core::mem::take(self).split_at_mut(cnt);
        *self = b;
    }

    #[inline]
    fn put_slice(&mut self, src: &[u8]) {
        if self.len() < src.len() {
            panic_advance(&TryGetError {
                requested: src.len(),
                available: self.len(),
            });
        }

        // SAFETY: We just checked that the pointer is valid for `src.len()` bytes.
        unsafe {
            ptr::copy_nonoverlapping(src.as_ptr(), self.as_mut_ptr().cast(), src.len());
            self.advance_mut(src.len());
        }
    }

    #[inline]
    fn put_bytes(&mut self, val: u8, cnt: usize) {
        if self.len() < cnt {
            panic_advance(&TryGetError {
                requested: cnt,
                available: self.len(),
            });
        }

        // SAFETY: We just checked that the pointer is valid for `cnt` bytes.
        unsafe {
            ptr::write_bytes(self.as_mut_ptr() as *mut u8, val, cnt);
            self.advance_mut(cnt);
        }
    }
}

unsafe impl BufMut for Vec<u8> {
    #[inline]
    fn remaining_mut(&self) -> usize {
        // A vector can never have more than isize::MAX bytes
        isize::MAX as usize - self.len()
    }

    #[inline]
    unsafe fn advance_mut(&mut self, cnt: usize) {
        let len = self.len();
        let remaining = self.capacity() - len;

        if remaining < cnt {
            panic_advance(&TryGetError {
                requested: cnt,
                available: remaining,
            });
        }

        // Addition will not overflow since the sum is at most the capacity.
        self.set_len(len + cnt);
    }

    #[inline]
    fn chunk_mut(&mut self) -> &mut UninitSlice {
        if self.capacity() == self.len() {
            self.reserve(64); // Grow the vec
        }

        let cap = self.capacity();
        let len = self.len();

        let ptr = self.as_mut_ptr();
        // SAFETY: Since `ptr` is valid for `cap` bytes, `ptr.add(len)` must be
        // valid for `cap - len` bytes. The subtraction will not underflow since
        // `len <= cap`.
        unsafe { UninitSlice::from_raw_parts_mut(ptr.add(len), cap - len) }
    }

    // Specialize these methods so they can skip checking `remaining_mut`
    // and `advance_mut`.
    #[inline]
    fn put<T: super::Buf>(&mut self, mut src: T)
    where
        Self: Sized,
    {
        // In case the src isn't contiguous, reserve upfront.
        self.reserve(src.remaining());

        while src.has_remaining() {
            let s = src.chunk();
            let l = s.len();
            self.extend_from_slice(s);
            src.advance(l);
        }
    }

    #[inline]
    fn put_slice(&mut self, src: &[u8]) {
        self.extend_from_slice(src);
    }

    #[inline]
    fn put_bytes(&mut self, val: u8, cnt: usize) {
        // If the addition overflows, then the `resize` will fail.
        let new_len = self.len().saturating_add(cnt);
        self.resize(new_len, val);
    }
}

// The existence of this function makes the compiler catch if the BufMut
// trait is "object-safe" or not.
fn _assert_trait_object(_b: &dyn BufMut) {}
