use crate::buf::UninitSlice;
use crate::BufMut;

use core::cmp;

/// A `BufMut` adapter which limits the amount of bytes that can be written
/// to an underlying buffer.
#[derive(Debug)]
pub struct Limit<T> {
    inner: T,
    limit: usize,
}

pub(super) fn new<T>(inner: T, limit: usize) -> Limit<T> {
    Limit { inner, limit }
}

impl<T> Limit<T> {
    /// Consumes this `Limit`, returning the underlying value.
    pub fn into_inner(self) -> T {
        self.inner
    }

    /// Gets a reference to the underlying `BufMut`.
    ///
    /// It is inadvisable to directly write to the underlying `BufMut`.
    pub fn get_ref(&self) -> &T {
        &self.inner
    }

    /// Gets a mutable reference to the underlying `BufMut`.
    ///
    /// It is inadvisable to directly write to the underlying `BufMut`.
    pub fn get_mut(&mut self) -> &mut T {
        &mut self.inner
    }

    /// Returns the maximum number of bytes that can be written
    ///
    /// # Note
    ///
    /// If the inner `BufMut` has fewer bytes than indicated by this method then
    /// that is the actual number of available bytes.
    pub fn limit(&self) -> usize {
        self.limit
    }

    /// Sets the maximum number of bytes that can be written.
    ///
    /// # Note
    ///
    /// If the inner `BufMut` has fewer bytes than `lim` then that is the actual
    /// number of available bytes.
    pub fn set_limit(&mut self, lim: usize) {
        self.limit = lim
    }
}

unsafe impl<T: BufMut> BufMut for Limit<T> {
    fn remaining_mut(&self) -> usize {
        cmp::min(self.inner.remaining_mut(), self.limit)
    }

    fn chunk_mut(&mut self) -> &mut UninitSlice {
        let bytes = self.inner.chunk_mut();
        let end = cmp::min(bytes.len(), self.limit);
        &mut bytes[..end]
    }

    unsafe fn advance_mut(&mut self, cnt: usize) {
        assert!(cnt <= self.limit);
        self.inner.advance_mut(cnt);
        self.limit -= cnt;
    }
}
