use crate::Buf;

use core::cmp;

#[cfg(feature = "std")]
use std::io::IoSlice;

/// A `Buf` adapter which limits the bytes read from an underlying buffer.
///
/// This struct is generally created by calling `take()` on `Buf`. See
/// documentation of [`take()`](Buf::take) for more details.
#[derive(Debug)]
pub struct Take<T> {
    inner: T,
    limit: usize,
}

pub fn new<T>(inner: T, limit: usize) -> Take<T> {
    Take { inner, limit }
}

impl<T> Take<T> {
    /// Consumes this `Take`, returning the underlying value.
    ///
    /// # Examples
    ///
    /// ```rust
    /// use bytes::{Buf, BufMut};
    ///
    /// let mut buf = b"hello world".take(2);
    /// let mut dst = vec![];
    ///
    /// dst.put(&mut buf);
    /// assert_eq!(*dst, b"he"[..]);
    ///
    /// let mut buf = buf.into_inner();
    ///
    /// dst.clear();
    /// dst.put(&mut buf);
    /// assert_eq!(*dst, b"llo world"[..]);
    /// ```
    pub fn into_inner(self) -> T {
        self.inner
    }

    /// Gets a reference to the underlying `Buf`.
    ///
    /// It is inadvisable to directly read from the underlying `Buf`.
    ///
    /// # Examples
    ///
    /// ```rust
    /// use bytes::Buf;
    ///
    /// let buf = b"hello world".take(2);
    ///
    /// assert_eq!(11, buf.get_ref().remaining());
    /// ```
    pub fn get_ref(&self) -> &T {
        &self.inner
    }

    /// Gets a mutable reference to the underlying `Buf`.
    ///
    /// It is inadvisable to directly read from the underlying `Buf`.
    ///
    /// # Examples
    ///
    /// ```rust
    /// use bytes::{Buf, BufMut};
    ///
    /// let mut buf = b"hello world".take(2);
    /// let mut dst = vec![];
    ///
    /// buf.get_mut().advance(2);
    ///
    /// dst.put(&mut buf);
    /// assert_eq!(*dst, b"ll"[..]);
    /// ```
    pub fn get_mut(&mut self) -> &mut T {
        &mut self.inner
    }

    /// Returns the maximum number of bytes that can be read.
    ///
    /// # Note
    ///
    /// If the inner `Buf` has fewer bytes than indicated by this method then
    /// that is the actual number of available bytes.
    ///
    /// # Examples
    ///
    /// ```rust
    /// use bytes::Buf;
    ///
    /// let mut buf = b"hello world".take(2);
    ///
    /// assert_eq!(2, buf.limit());
    /// assert_eq!(b'h', buf.get_u8());
    /// assert_eq!(1, buf.limit());
    /// ```
    pub fn limit(&self) -> usize {
        self.limit
    }

    /// Sets the maximum number of bytes that can be read.
    ///
    /// # Note
    ///
    /// If the inner `Buf` has fewer bytes than `lim` then that is the actual
    /// number of available bytes.
    ///
    /// # Examples
    ///
    /// ```rust
    /// use bytes::{Buf, BufMut};
    ///
    /// let mut buf = b"hello world".take(2);
    /// let mut dst = vec![];
    ///
    /// dst.put(&mut buf);
    /// assert_eq!(*dst, b"he"[..]);
    ///
    /// dst.clear();
    ///
    /// buf.set_limit(3);
    /// dst.put(&mut buf);
    /// assert_eq!(*dst, b"llo"[..]);
    /// ```
    pub fn set_limit(&mut self, lim: usize) {
        self.limit = lim
    }
}

impl<T: Buf> Buf for Take<T> {
    fn remaining(&self) -> usize {
        cmp::min(self.inner.remaining(), self.limit)
    }

    fn chunk(&self) -> &[u8] {
        let bytes = self.inner.chunk();
        &bytes[..cmp::min(bytes.len(), self.limit)]
    }

    fn advance(&mut self, cnt: usize) {
        assert!(cnt <= self.limit);
        self.inner.advance(cnt);
        self.limit -= cnt;
    }

    fn copy_to_bytes(&mut self, len: usize) -> crate::Bytes {
        assert!(len <= self.remaining(), "`len` greater than remaining");

        let r = self.inner.copy_to_bytes(len);
        self.limit -= len;
        r
    }

    #[cfg(feature = "std")]
    fn chunks_vectored<'a>(&'a self, dst: &mut [IoSlice<'a>]) -> usize {
        if self.limit == 0 {
            return 0;
        }

        const LEN: usize = 16;
        let mut slices: [IoSlice<'a>; LEN] = [IoSlice::new(&[]); LEN];

        let cnt = self
            .inner
            .chunks_vectored(&mut slices[..dst.len().min(LEN)]);
        let mut limit = self.limit;
        for (i, (dst, slice)) in dst[..cnt].iter_mut().zip(slices.iter()).enumerate() {
            if let Some(buf) = slice.get(..limit) {
                // SAFETY: We could do this safely with `IoSlice::advance` if we had a larger MSRV.
                let buf = unsafe { std::mem::transmute::<&[u8], &'a [u8]>(buf) };
                *dst = IoSlice::new(buf);
                return i + 1;
            } else {
                // SAFETY: We could do this safely with `IoSlice::advance` if we had a larger MSRV.
                let buf = unsafe { std::mem::transmute::<&[u8], &'a [u8]>(slice) };
                *dst = IoSlice::new(buf);
                limit -= slice.len();
            }
        }
        cnt
    }
}
