#[cfg(feature = "std")]
use crate::buf::{reader, Reader};
use crate::buf::{take, Chain, Take};
#[cfg(feature = "std")]
use crate::{min_u64_usize, saturating_sub_usize_u64};
use crate::{panic_advance, panic_does_not_fit, TryGetError};

#[cfg(feature = "std")]
use std::io::IoSlice;

use alloc::boxed::Box;

macro_rules! buf_try_get_impl {
    ($this:ident, $typ:tt::$conv:tt) => {{
        const SIZE: usize = core::mem::size_of::<$typ>();

        if $this.remaining() < SIZE {
            return Err(TryGetError {
                requested: SIZE,
                available: $this.remaining(),
            });
        }

        // try to convert directly from the bytes
        // this Option<ret> trick is to avoid keeping a borrow on self
        // when advance() is called (mut borrow) and to call bytes() only once
        let ret = $this
            .chunk()
            .get(..SIZE)
            .map(|src| unsafe { $typ::$conv(*(src as *const _ as *const [_; SIZE])) });

        if let Some(ret) = ret {
            // if the direct conversion was possible, advance and return
            $this.advance(SIZE);
            return Ok(ret);
        } else {
            // if not we copy the bytes in a temp buffer then convert
            let mut buf = [0; SIZE];
            $this.copy_to_slice(&mut buf); // (do the advance)
            return Ok($typ::$conv(buf));
        }
    }};
    (le => $this:ident, $typ:tt, $len_to_read:expr) => {{
        const SIZE: usize = core::mem::size_of::<$typ>();

        // The same trick as above does not improve the best case speed.
        // It seems to be linked to the way the method is optimised by the compiler
        let mut buf = [0; SIZE];

        let subslice = match buf.get_mut(..$len_to_read) {
            Some(subslice) => subslice,
            None => panic_does_not_fit(SIZE, $len_to_read),
        };

        $this.try_copy_to_slice(subslice)?;
        return Ok($typ::from_le_bytes(buf));
    }};
    (be => $this:ident, $typ:tt, $len_to_read:expr) => {{
        const SIZE: usize = core::mem::size_of::<$typ>();

        let slice_at = match SIZE.checked_sub($len_to_read) {
            Some(slice_at) => slice_at,
            None => panic_does_not_fit(SIZE, $len_to_read),
        };

        let mut buf = [0; SIZE];
        $this.try_copy_to_slice(&mut buf[slice_at..])?;
        return Ok($typ::from_be_bytes(buf));
    }};
}

macro_rules! buf_get_impl {
    ($this:ident, $typ:tt::$conv:tt) => {{
        return (|| buf_try_get_impl!($this, $typ::$conv))()
            .unwrap_or_else(|error| panic_advance(&error));
    }};
    (le => $this:ident, $typ:tt, $len_to_read:expr) => {{
        return (|| buf_try_get_impl!(le => $this, $typ, $len_to_read))()
            .unwrap_or_else(|error| panic_advance(&error));
    }};
    (be => $this:ident, $typ:tt, $len_to_read:expr) => {{
        return (|| buf_try_get_impl!(be => $this, $typ, $len_to_read))()
            .unwrap_or_else(|error| panic_advance(&error));
    }};
}

// https://en.wikipedia.org/wiki/Sign_extension
fn sign_extend(val: u64, nbytes: usize) -> i64 {
    if nbytes == 0 {
        // avoid `val << 64` panic
        0
    } else {
        let shift = (8 - nbytes) * 8;
        (val << shift) as i64 >> shift
    }
}

/// Read bytes from a buffer.
///
/// A buffer stores bytes in memory such that read operations are infallible.
/// The underlying storage may or may not be in contiguous memory. A `Buf` value
/// is a cursor into the buffer. Reading from `Buf` advances the cursor
/// position. It can be thought of as an efficient `Iterator` for collections of
/// bytes.
///
/// The simplest `Buf` is a `&[u8]`.
///
/// ```
/// use bytes::Buf;
///
/// let mut buf = &b"hello world"[..];
///
/// assert_eq!(b'h', buf.get_u8());
/// assert_eq!(b'e', buf.get_u8());
/// assert_eq!(b'l', buf.get_u8());
///
/// let mut rest = [0; 8];
/// buf.copy_to_slice(&mut rest);
///
/// assert_eq!(&rest[..], &b"lo world"[..]);
/// ```
pub trait Buf {
    /// Returns the number of bytes between the current position and the end of
    /// the buffer.
    ///
    /// This value is greater than or equal to the length of the slice returned
    /// by `chunk()`.
    ///
    /// # Examples
    ///
    /// ```
    /// use bytes::Buf;
    ///
    /// let mut buf = &b"hello world"[..];
    ///
    /// assert_eq!(buf.remaining(), 11);
    ///
    /// buf.get_u8();
    ///
    /// assert_eq!(buf.remaining(), 10);
    /// ```
    ///
    /// # Implementer notes
    ///
    /// Implementations of `remaining` should ensure that the return value does
    /// not change unless a call is made to `advance` or any other function that
    /// is documented to change the `Buf`'s current position.
    fn remaining(&self) -> usize;

    /// Returns a slice starting at the current position and of length between 0
    /// and `Buf::remaining()`. Note that this *can* return a shorter slice (this
    /// allows non-continuous internal representation).
    ///
    /// This is a lower level function. Most operations are done with other
    /// functions.
    ///
    /// # Examples
    ///
    /// ```
    /// use bytes::Buf;
    ///
    /// let mut buf = &b"hello world"[..];
    ///
    /// assert_eq!(buf.chunk(), &b"hello world"[..]);
    ///
    /// buf.advance(6);
    ///
    /// assert_eq!(buf.chunk(), &b"world"[..]);
    /// ```
    ///
    /// # Implementer notes
    ///
    /// This function should never panic. `chunk()` should return an empty
    /// slice **if and only if** `remaining()` returns 0. In other words,
    /// `chunk()` returning an empty slice implies that `remaining()` will
    /// return 0 and `remaining()` returning 0 implies that `chunk()` will
    /// return an empty slice.
    // The `chunk` method was previously called `bytes`. This alias makes the rename
    // more easily discoverable.
    #[cfg_attr(docsrs, doc(alias = "bytes"))]
    fn chunk(&self) -> &[u8];

    /// Fills `dst` with potentially multiple slices starting at `self`'s
    /// current position.
    ///
    /// If the `Buf` is backed by disjoint slices of bytes, `chunk_vectored` enables
    /// fetching more than one slice at once. `dst` is a slice of `IoSlice`
    /// references, enabling the slice to be directly used with [`writev`]
    /// without any further conversion. The sum of the lengths of all the
    /// buffers written to `dst` will be less than or equal to `Buf::remaining()`.
    ///
    /// The entries in `dst` will be overwritten, but the data **contained** by
    /// the slices **will not** be modified. The return value is the number of
    /// slices written to `dst`. If `Buf::remaining()` is non-zero, then this
    /// writes at least one non-empty slice to `dst`.
    ///
    /// This is a lower level function. Most operations are done with other
    /// functions.
    ///
    /// # Implementer notes
    ///
    /// This function should never panic. Once the end of the buffer is reached,
    /// i.e., `Buf::remaining` returns 0, calls to `chunk_vectored` must return 0
    /// without mutating `dst`.
    ///
    /// Implementations should also take care to properly handle being called
    /// with `dst` being a zero length slice.
    ///
    /// [`writev`]: http://man7.org/linux/man-pages/man2/readv.2.html
    #[cfg(feature = "std")]
    #[cfg_attr(docsrs, doc(cfg(feature = "std")))]
    fn chunks_vectored<'a>(&'a self, dst: &mut [IoSlice<'a>]) -> usize {
        if dst.is_empty() {
            return 0;
        }

        if self.has_remaining() {
            dst[0] = IoSlice::new(self.chunk());
            1
        } else {
            0
        }
    }

    /// Advance the internal cursor of the Buf
    ///
    /// The next call to `chunk()` will return a slice starting `cnt` bytes
    /// further into the underlying buffer.
    ///
    /// # Examples
    ///
    /// ```
    /// use bytes::Buf;
    ///
    /// let mut buf = &b"hello world"[..];
    ///
    /// assert_eq!(buf.chunk(), &b"hello world"[..]);
    ///
    /// buf.advance(6);
    ///
    /// assert_eq!(buf.chunk(), &b"world"[..]);
    /// ```
    ///
    /// # Panics
    ///
    /// This function **may** panic if `cnt > self.remaining()`.
    ///
    /// # Implementer notes
    ///
    /// It is recommended for implementations of `advance` to panic if `cnt >
    /// self.remaining()`. If the implementation does not panic, the call must
    /// behave as if `cnt == self.remaining()`.
    ///
    /// A call with `cnt == 0` should never panic and be a no-op.
    fn advance(&mut self, cnt: usize);

    /// Returns true if there are any more bytes to consume
    ///
    /// This is equivalent to `self.remaining() != 0`.
    ///
    /// # Examples
    ///
    /// ```
    /// use bytes::Buf;
    ///
    /// let mut buf = &b"a"[..];
    ///
    /// assert!(buf.has_remaining());
    ///
    /// buf.get_u8();
    ///
    /// assert!(!buf.has_remaining());
    /// ```
    fn has_remaining(&self) -> bool {
        self.remaining() > 0
    }

    /// Copies bytes from `self` into `dst`.
    ///
    /// The cursor is advanced by the number of bytes copied. `self` must have
    /// enough remaining bytes to fill `dst`.
    ///
    /// # Examples
    ///
    /// ```
    /// use bytes::Buf;
    ///
    /// let mut buf = &b"hello world"[..];
    /// let mut dst = [0; 5];
    ///
    /// buf.copy_to_slice(&mut dst);
    /// assert_eq!(&b"hello"[..], &dst);
    /// assert_eq!(6, buf.remaining());
    /// ```
    ///
    /// # Panics
    ///
    /// This function panics if `self.remaining() < dst.len()`.
    fn copy_to_slice(&mut self, dst: &mut [u8]) {
        self.try_copy_to_slice(dst)
            .unwrap_or_else(|error| panic_advance(&error));
    }

    /// Gets an unsigned 8 bit integer from `self`.
    ///
    /// The current position is advanced by 1.
    ///
    /// # Examples
    ///
    /// ```
    /// use bytes::Buf;
    ///
    /// let mut buf = &b"\x08 hello"[..];
    /// assert_eq!(8, buf.get_u8());
    /// ```
    ///
    /// # Panics
    ///
    /// This function panics if there is no more remaining data in `self`.
    fn get_u8(&mut self) -> u8 {
        if self.remaining() < 1 {
            panic_advance(&TryGetError {
                requested: 1,
                available: 0,
            })
        }
        let ret = self.chunk()[0];
        self.advance(1);
        ret
    }

    /// Gets a signed 8 bit integer from `self`.
    ///
    /// The current position is advanced by 1.
    ///
    /// # Examples
    ///
    /// ```
    /// use bytes::Buf;
    ///
    /// let mut buf = &b"\x08 hello"[..];
    /// assert_eq!(8, buf.get_i8());
    /// ```
    ///
    /// # Panics
    ///
    /// This function panics if there is no more remaining data in `self`.
    fn get_i8(&mut self) -> i8 {
        if self.remaining() < 1 {
            panic_advance(&TryGetError {
                requested: 1,
                available: 0,
            });
        }
        let ret = self.chunk()[0] as i8;
        self.advance(1);
        ret
    }

    /// Gets an unsigned 16 bit integer from `self` in big-endian byte order.
    ///
    /// The current position is advanced by 2.
    ///
    /// # Examples
    ///
    /// ```
    /// use bytes::Buf;
    ///
    /// let mut buf = &b"\x08\x09 hello"[..];
    /// assert_eq!(0x0809, buf.get_u16());
    /// ```
    ///
    /// # Panics
    ///
    /// This function panics if there is not enough remaining data in `self`.
    fn get_u16(&mut self) -> u16 {
        buf_get_impl!(self, u16::from_be_bytes);
    }

    /// Gets an unsigned 16 bit integer from `self` in little-endian byte order.
    ///
    /// The current position is advanced by 2.
    ///
    /// # Examples
    ///
    /// ```
    /// use bytes::Buf;
    ///
    /// let mut buf = &b"\x09\x08 hello"[..];
    /// assert_eq!(0x0809, buf.get_u16_le());
    /// ```
    ///
    /// # Panics
    ///
    /// This function panics if there is not enough remaining data in `self`.
    fn get_u16_le(&mut self) -> u16 {
        buf_get_impl!(self, u16::from_le_bytes);
    }

    /// Gets an unsigned 16 bit integer from `self` in native-endian byte order.
    ///
    /// The current position is advanced by 2.
    ///
    /// # Examples
    ///
    /// ```
    /// use bytes::Buf;
    ///
    /// let mut buf: &[u8] = match cfg!(target_endian = "big") {
    ///     true => b"\x08\x09 hello",
    ///     false => b"\x09\x08 hello",
    /// };
    /// assert_eq!(0x0809, buf.get_u16_ne());
    /// ```
    ///
    /// # Panics
    ///
    /// This function panics if there is not enough remaining data in `self`.
    fn get_u16_ne(&mut self) -> u16 {
        buf_get_impl!(self, u16::from_ne_bytes);
    }

    /// Gets a signed 16 bit integer from `self` in big-endian byte order.
    ///
    /// The current position is advanced by 2.
    ///
    /// # Examples
    ///
    /// ```
    /// use bytes::Buf;
    ///
    /// let mut buf = &b"\x08\x09 hello"[..];
    /// assert_eq!(0x0809, buf.get_i16());
    /// ```
    ///
    /// # Panics
    ///
    /// This function panics if there is not enough remaining data in `self`.
    fn get_i16(&mut self) -> i16 {
        buf_get_impl!(self, i16::from_be_bytes);
    }

    /// Gets a signed 16 bit integer from `self` in little-endian byte order.
    ///
    /// The current position is advanced by 2.
    ///
    /// # Examples
    ///
    /// ```
    /// use bytes::Buf;
    ///
    /// let mut buf = &b"\x09\x08 hello"[..];
    /// assert_eq!(0x0809, buf.get_i16_le());
    /// ```
    ///
    /// # Panics
    ///
    /// This function panics if there is not enough remaining data in `self`.
    fn get_i16_le(&mut self) -> i16 {
        buf_get_impl!(self, i16::from_le_bytes);
    }

    /// Gets a signed 16 bit integer from `self` in native-endian byte order.
    ///
    /// The current position is advanced by 2.
    ///
    /// # Examples
    ///
    /// ```
    /// use bytes::Buf;
    ///
    /// let mut buf: &[u8] = match cfg!(target_endian = "big") {
    ///     true => b"\x08\x09 hello",
    ///     false => b"\x09\x08 hello",
    /// };
    /// assert_eq!(0x0809, buf.get_i16_ne());
    /// ```
    ///
    /// # Panics
    ///
    /// This function panics if there is not enough remaining data in `self`.
    fn get_i16_ne(&mut self) -> i16 {
        buf_get_impl!(self, i16::from_ne_bytes);
    }

    /// Gets an unsigned 32 bit integer from `self` in the big-endian byte order.
    ///
    /// The current position is advanced by 4.
    ///
    /// # Examples
    ///
    /// ```
    /// use bytes::Buf;
    ///
    /// let mut buf = &b"\x08\x09\xA0\xA1 hello"[..];
    /// assert_eq!(0x0809A0A1, buf.get_u32());
    /// ```
    ///
    /// # Panics
    ///
    /// This function panics if there is not enough remaining data in `self`.
    fn get_u32(&mut self) -> u32 {
        buf_get_impl!(self, u32::from_be_bytes);
    }

    /// Gets an unsigned 32 bit integer from `self` in the little-endian byte order.
    ///
    /// The current position is advanced by 4.
    ///
    /// # Examples
    ///
    /// ```
    /// use bytes::Buf;
    ///
    /// let mut buf = &b"\xA1\xA0\x09\x08 hello"[..];
    /// assert_eq!(0x0809A0A1, buf.get_u32_le());
    /// ```
    ///
    /// # Panics
    ///
    /// This function panics if there is not enough remaining data in `self`.
    fn get_u32_le(&mut self) -> u32 {
        buf_get_impl!(self, u32::from_le_bytes);
    }

    /// Gets an unsigned 32 bit integer from `self` in native-endian byte order.
    ///
    /// The current position is advanced by 4.
    ///
    /// # Examples
    ///
    /// ```
    /// use bytes::Buf;
    ///
    /// let mut buf: &[u8] = match cfg!(target_endian = "big") {
    ///     true => b"\x08\x09\xA0\xA1 hello",
    ///     false => b"\xA1\xA0\x09\x08 hello",
    /// };
    /// assert_eq!(0x0809A0A1, buf.get_u32_ne());
    /// ```
    ///
    /// # Panics
    ///
    /// This function panics if there is not enough remaining data in `self`.
    fn get_u32_ne(&mut self) -> u32 {
        buf_get_impl!(self, u32::from_ne_bytes);
    }

    /// Gets a signed 32 bit integer from `self` in big-endian byte order.
    ///
    /// The current position is advanced by 4.
    ///
    /// # Examples
    ///
    /// ```
    /// use bytes::Buf;
    ///
    /// let mut buf = &b"\x08\x09\xA0\xA1 hello"[..];
    /// assert_eq!(0x0809A0A1, buf.get_i32());
    /// ```
    ///
    /// # Panics
    ///
    /// This function panics if there is not enough remaining data in `self`.
    fn get_i32(&mut self) -> i32 {
        buf_get_impl!(self, i32::from_be_bytes);
    }

    /// Gets a signed 32 bit integer from `self` in little-endian byte order.
    ///
    /// The current position is advanced by 4.
    ///
    /// # Examples
    ///
    /// ```
    /// use bytes::Buf;
    ///
    /// let mut buf = &b"\xA1\xA0\x09\x08 hello"[..];
    /// assert_eq!(0x0809A0A1, buf.get_i32_le());
    /// ```
    ///
    /// # Panics
    ///
    /// This function panics if there is not enough remaining data in `self`.
    fn get_i32_le(&mut self) -> i32 {
        buf_get_impl!(self, i32::from_le_bytes);
    }

    /// Gets a signed 32 bit integer from `self` in native-endian byte order.
    ///
    /// The current position is advanced by 4.
    ///
    /// # Examples
    ///
    /// ```
    /// use bytes::Buf;
    ///
    /// let mut buf: &[u8] = match cfg!(target_endian = "big") {
    ///     true => b"\x08\x09\xA0\xA1 hello",
    ///     false => b"\xA1\xA0\x09\x08 hello",
    /// };
    /// assert_eq!(0x0809A0A1, buf.get_i32_ne());
    /// ```
    ///
    /// # Panics
    ///
    /// This function panics if there is not enough remaining data in `self`.
    fn get_i32_ne(&mut self) -> i32 {
        buf_get_impl!(self, i32::from_ne_bytes);
    }

    /// Gets an unsigned 64 bit integer from `self` in big-endian byte order.
    ///
    /// The current position is advanced by 8.
    ///
    /// # Examples
    ///
    /// ```
    /// use bytes::Buf;
    ///
    /// let mut buf = &b"\x01\x02\x03\x04\x05\x06\x07\x08 hello"[..];
    /// assert_eq!(0x0102030405060708, buf.get_u64());
    /// ```
    ///
    /// # Panics
    ///
    /// This function panics if there is not enough remaining data in `self`.
    fn get_u64(&mut self) -> u64 {
        buf_get_impl!(self, u64::from_be_bytes);
    }

    /// Gets an unsigned 64 bit integer from `self` in little-endian byte order.
    ///
    /// The current position is advanced by 8.
    ///
    /// # Examples
    ///
    /// ```
    /// use bytes::Buf;
    ///
    /// let mut buf = &b"\x08\x07\x06\x05\x04\x03\x02\x01 hello"[..];
    /// assert_eq!(0x0102030405060708, buf.get_u64_le());
    /// ```
    ///
    /// # Panics
    ///
    /// This function panics if there is not enough remaining data in `self`.
    fn get_u64_le(&mut self) -> u64 {
        buf_get_impl!(self, u64::from_le_bytes);
    }

    /// Gets an unsigned 64 bit integer from `self` in native-endian byte order.
    ///
    /// The current position is advanced by 8.
    ///
    /// # Examples
    ///
    /// ```
    /// use bytes::Buf;
    ///
    /// let mut buf: &[u8] = match cfg!(target_endian = "big") {
    ///     true => b"\x01\x02\x03\x04\x05\x06\x07\x08 hello",
    ///     false => b"\x08\x07\x06\x05\x04\x03\x02\x01 hello",
    /// };
    /// assert_eq!(0x0102030405060708, buf.get_u64_ne());
    /// ```
    ///
    /// # Panics
    ///
    /// This function panics if there is not enough remaining data in `self`.
    fn get_u64_ne(&mut self) -> u64 {
        buf_get_impl!(self, u64::from_ne_bytes);
    }

    /// Gets a signed 64 bit integer from `self` in big-endian byte order.
    ///
    /// The current position is advanced by 8.
    ///
    /// # Examples
    ///
    /// ```
    /// use bytes::Buf;
    ///
    /// let mut buf = &b"\x01\x02\x03\x04\x05\x06\x07\x08 hello"[..];
    /// assert_eq!(0x0102030405060708, buf.get_i64());
    /// ```
    ///
    /// # Panics
    ///
    /// This function panics if there is not enough remaining data in `self`.
    fn get_i64(&mut self) -> i64 {
        buf_get_impl!(self, i64::from_be_bytes);
    }

    /// Gets a signed 64 bit integer from `self` in little-endian byte order.
    ///
    /// The current position is advanced by 8.
    ///
    /// # Examples
    ///
    /// ```
    /// use bytes::Buf;
    ///
    /// let mut buf = &b"\x08\x07\x06\x05\x04\x03\x02\x01 hello"[..];
    /// assert_eq!(0x0102030405060708, buf.get_i64_le());
    /// ```
    ///
    /// # Panics
    ///
    /// This function panics if there is not enough remaining data in `self`.
    fn get_i64_le(&mut self) -> i64 {
        buf_get_impl!(self, i64::from_le_bytes);
    }

    /// Gets a signed 64 bit integer from `self` in native-endian byte order.
    ///
    /// The current position is advanced by 8.
    ///
    /// # Examples
    ///
    /// ```
    /// use bytes::Buf;
    ///
    /// let mut buf: &[u8] = match cfg!(target_endian = "big") {
    ///     true => b"\x01\x02\x03\x04\x05\x06\x07\x08 hello",
    ///     false => b"\x08\x07\x06\x05\x04\x03\x02\x01 hello",
    /// };
    /// assert_eq!(0x0102030405060708, buf.get_i64_ne());
    /// ```
    ///
    /// # Panics
    ///
    /// This function panics if there is not enough remaining data in `self`.
    fn get_i64_ne(&mut self) -> i64 {
        buf_get_impl!(self, i64::from_ne_bytes);
    }

    /// Gets an unsigned 128 bit integer from `self` in big-endian byte order.
    ///
    /// The current position is advanced by 16.
    ///
    /// # Examples
    ///
    /// ```
    /// use bytes::Buf;
    ///
    /// let mut buf = &b"\x01\x02\x03\x04\x05\x06\x07\x08\x09\x10\x11\x12\x13\x14\x15\x16 hello"[..];
    /// assert_eq!(0x01020304050607080910111213141516, buf.get_u128());
    /// ```
    ///
    /// # Panics
    ///
    /// This function panics if there is not enough remaining data in `self`.
    fn get_u128(&mut self) -> u128 {
        buf_get_impl!(self, u128::from_be_bytes);
    }

    /// Gets an unsigned 128 bit integer from `self` in little-endian byte order.
    ///
    /// The current position is advanced by 16.
    ///
    /// # Examples
    ///
    /// ```
    /// use bytes::Buf;
    ///
    /// let mut buf = &b"\x16\x15\x14\x13\x12\x11\x10\x09\x08\x07\x06\x05\x04\x03\x02\x01 hello"[..];
    /// assert_eq!(0x01020304050607080910111213141516, buf.get_u128_le());
    /// ```
    ///
    /// # Panics
    ///
    /// This function panics if there is not enough remaining data in `self`.
    fn get_u128_le(&mut self) -> u128 {
        buf_get_impl!(self, u128::from_le_bytes);
    }

    /// Gets an unsigned 128 bit integer from `self` in native-endian byte order.
    ///
    /// The current position is advanced by 16.
    ///
    /// # Examples
    ///
    /// ```
    /// use bytes::Buf;
    ///
    /// let mut buf: &[u8] = match cfg!(target_endian = "big") {
    ///     true => b"\x01\x02\x03\x04\x05\x06\x07\x08\x09\x10\x11\x12\x13\x14\x15\x16 hello",
    ///     false => b"\x16\x15\x14\x13\x12\x11\x10\x09\x08\x07\x06\x05\x04\x03\x02\x01 hello",
    /// };
    /// assert_eq!(0x01020304050607080910111213141516, buf.get_u128_ne());
    /// ```
    ///
    /// # Panics
    ///
    /// This function panics if there is not enough remaining data in `self`.
    fn get_u128_ne(&mut self) -> u128 {
        buf_get_impl!(self, u128::from_ne_bytes);
    }

    /// Gets a signed 128 bit integer from `self` in big-endian byte order.
    ///
    /// The current position is advanced by 16.
    ///
    /// # Examples
    ///
    /// ```
    /// use bytes::Buf;
    ///
    /// let mut buf = &b"\x01\x02\x03\x04\x05\x06\x07\x08\x09\x10\x11\x12\x13\x14\x15\x16 hello"[..];
    /// assert_eq!(0x01020304050607080910111213141516, buf.get_i128());
    /// ```
    ///
    /// # Panics
    ///
    /// This function panics if there is not enough remaining data in `self`.
    fn get_i128(&mut self) -> i128 {
        buf_get_impl!(self, i128::from_be_bytes);
    }

    /// Gets a signed 128 bit integer from `self` in little-endian byte order.
    ///
    /// The current position is advanced by 16.
    ///
    /// # Examples
    ///
    /// ```
    /// use bytes::Buf;
    ///
    /// let mut buf = &b"\x16\x15\x14\x13\x12\x11\x10\x09\x08\x07\x06\x05\x04\x03\x02\x01 hello"[..];
    /// assert_eq!(0x01020304050607080910111213141516, buf.get_i128_le());
    /// ```
    ///
    /// # Panics
    ///
    /// This function panics if there is not enough remaining data in `self`.
    fn get_i128_le(&mut self) -> i128 {
        buf_get_impl!(self, i128::from_le_bytes);
    }

    /// Gets a signed 128 bit integer from `self` in native-endian byte order.
    ///
    /// The current position is advanced by 16.
    ///
    /// # Examples
    ///
    /// ```
    /// use bytes::Buf;
    ///
    /// let mut buf: &[u8] = match cfg!(target_endian = "big") {
    ///     true => b"\x01\x02\x03\x04\x05\x06\x07\x08\x09\x10\x11\x12\x13\x14\x15\x16 hello",
    ///     false => b"\x16\x15\x14\x13\x12\x11\x10\x09\x08\x07\x06\x05\x04\x03\x02\x01 hello",
    /// };
    /// assert_eq!(0x01020304050607080910111213141516, buf.get_i128_ne());
    /// ```
    ///
    /// # Panics
    ///
    /// This function panics if there is not enough remaining data in `self`.
    fn get_i128_ne(&mut self) -> i128 {
        buf_get_impl!(self, i128::from_ne_bytes);
    }

    /// Gets an unsigned n-byte integer from `self` in big-endian byte order.
    ///
    /// The current position is advanced by `nbytes`.
    ///
    /// # Examples
    ///
    /// ```
    /// use bytes::Buf;
    ///
    /// let mut buf = &b"\x01\x02\x03 hello"[..];
    /// assert_eq!(0x010203, buf.get_uint(3));
    /// ```
    ///
    /// # Panics
    ///
    /// This function panics if there is not enough remaining data in `self`, or
    /// if `nbytes` is greater than 8.
    fn get_uint(&mut self, nbytes: usize) -> u64 {
        buf_get_impl!(be => self, u64, nbytes);
    }

    /// Gets an unsigned n-byte integer from `self` in little-endian byte order.
    ///
    /// The current position is advanced by `nbytes`.
    ///
    /// # Examples
    ///
    /// ```
    /// use bytes::Buf;
    ///
    /// let mut buf = &b"\x03\x02\x01 hello"[..];
    /// assert_eq!(0x010203, buf.get_uint_le(3));
    /// ```
    ///
    /// # Panics
    ///
    /// This function panics if there is not enough remaining data in `self`, or
    /// if `nbytes` is greater than 8.
    fn get_uint_le(&mut self, nbytes: usize) -> u64 {
        buf_get_impl!(le => self, u64, nbytes);
    }

    /// Gets an unsigned n-byte integer from `self` in native-endian byte order.
    ///
    /// The current position is advanced by `nbytes`.
    ///
    /// # Examples
    ///
    /// ```
    /// use bytes::Buf;
    ///
    /// let mut buf: &[u8] = match cfg!(target_endian = "big") {
    ///     true => b"\x01\x02\x03 hello",
    ///     false => b"\x03\x02\x01 hello",
    /// };
    /// assert_eq!(0x010203, buf.get_uint_ne(3));
    /// ```
    ///
    /// # Panics
    ///
    /// This function panics if there is not enough remaining data in `self`, or
    /// if `nbytes` is greater than 8.
    fn get_uint_ne(&mut self, nbytes: usize) -> u64 {
        if cfg!(target_endian = "big") {
            self.get_uint(nbytes)
        } else {
            self.get_uint_le(nbytes)
        }
    }

    /// Gets a signed n-byte integer from `self` in big-endian byte order.
    ///
    /// The current position is advanced by `nbytes`.
    ///
    /// # Examples
    ///
    /// ```
    /// use bytes::Buf;
    ///
    /// let mut buf = &b"\x01\x02\x03 hello"[..];
    /// assert_eq!(0x010203, buf.get_int(3));
    /// ```
    ///
    /// # Panics
    ///
    /// This function panics if there is not enough remaining data in `self`, or
    /// if `nbytes` is greater than 8.
    fn get_int(&mut self, nbytes: usize) -> i64 {
        sign_extend(self.get_uint(nbytes), nbytes)
    }

    /// Gets a signed n-byte integer from `self` in little-endian byte order.
    ///
    /// The current position is advanced by `nbytes`.
    ///
    /// # Examples
    ///
    /// ```
    /// use bytes::Buf;
    ///
    /// let mut buf = &b"\x03\x02\x01 hello"[..];
    /// assert_eq!(0x010203, buf.get_int_le(3));
    /// ```
    ///
    /// # Panics
    ///
    /// This function panics if there is not enough remaining data in `self`, or
    /// if `nbytes` is greater than 8.
    fn get_int_le(&mut self, nbytes: usize) -> i64 {
        sign_extend(self.get_uint_le(nbytes), nbytes)
    }

    /// Gets a signed n-byte integer from `self` in native-endian byte order.
    ///
    /// The current position is advanced by `nbytes`.
    ///
    /// # Examples
    ///
    /// ```
    /// use bytes::Buf;
    ///
    /// let mut buf: &[u8] = match cfg!(target_endian = "big") {
    ///     true => b"\x01\x02\x03 hello",
    ///     false => b"\x03\x02\x01 hello",
    /// };
    /// assert_eq!(0x010203, buf.get_int_ne(3));
    /// ```
    ///
    /// # Panics
    ///
    /// This function panics if there is not enough remaining data in `self`, or
    /// if `nbytes` is greater than 8.
    fn get_int_ne(&mut self, nbytes: usize) -> i64 {
        if cfg!(target_endian = "big") {
            self.get_int(nbytes)
        } else {
            self.get_int_le(nbytes)
        }
    }

    /// Gets an IEEE754 single-precision (4 bytes) floating point number from
    /// `self` in big-endian byte order.
    ///
    /// The current position is advanced by 4.
    ///
    /// # Examples
    ///
    /// ```
    /// use bytes::Buf;
    ///
    /// let mut buf = &b"\x3F\x99\x99\x9A hello"[..];
    /// assert_eq!(1.2f32, buf.get_f32());
    /// ```
    ///
    /// # Panics
    ///
    /// This function panics if there is not enough remaining data in `self`.
    fn get_f32(&mut self) -> f32 {
        f32::from_bits(self.get_u32())
    }

    /// Gets an IEEE754 single-precision (4 bytes) floating point number from
    /// `self` in little-endian byte order.
    ///
    /// The current position is advanced by 4.
    ///
    /// # Examples
    ///
    /// ```
    /// use bytes::Buf;
    ///
    /// let mut buf = &b"\x9A\x99\x99\x3F hello"[..];
    /// assert_eq!(1.2f32, buf.get_f32_le());
    /// ```
    ///
    /// # Panics
    ///
    /// This function panics if there is not enough remaining data in `self`.
    fn get_f32_le(&mut self) -> f32 {
        f32::from_bits(self.get_u32_le())
    }

    /// Gets an IEEE754 single-precision (4 bytes) floating point number from
    /// `self` in native-endian byte order.
    ///
    /// The current position is advanced by 4.
    ///
    /// # Examples
    ///
    /// ```
    /// use bytes::Buf;
    ///
    /// let mut buf: &[u8] = match cfg!(target_endian = "big") {
    ///     true => b"\x3F\x99\x99\x9A hello",
    ///     false => b"\x9A\x99\x99\x3F hello",
    /// };
    /// assert_eq!(1.2f32, buf.get_f32_ne());
    /// ```
    ///
    /// # Panics
    ///
    /// This function panics if there is not enough remaining data in `self`.
    fn get_f32_ne(&mut self) -> f32 {
        f32::from_bits(self.get_u32_ne())
    }

    /// Gets an IEEE754 double-precision (8 bytes) floating point number from
    /// `self` in big-endian byte order.
    ///
    /// The current position is advanced by 8.
    ///
    /// # Examples
    ///
    /// ```
    /// use bytes::Buf;
    ///
    /// let mut buf = &b"\x3F\xF3\x33\x33\x33\x33\x33\x33 hello"[..];
    /// assert_eq!(1.2f64, buf.get_f64());
    /// ```
    ///
    /// # Panics
    ///
    /// This function panics if there is not enough remaining data in `self`.
    fn get_f64(&mut self) -> f64 {
        f64::from_bits(self.get_u64())
    }

    /// Gets an IEEE754 double-precision (8 bytes) floating point number from
    /// `self` in little-endian byte order.
    ///
    /// The current position is advanced by 8.
    ///
    /// # Examples
    ///
    /// ```
    /// use bytes::Buf;
    ///
    /// let mut buf = &b"\x33\x33\x33\x33\x33\x33\xF3\x3F hello"[..];
    /// assert_eq!(1.2f64, buf.get_f64_le());
    /// ```
    ///
    /// # Panics
    ///
    /// This function panics if there is not enough remaining data in `self`.
    fn get_f64_le(&mut self) -> f64 {
        f64::from_bits(self.get_u64_le())
    }

    /// Gets an IEEE754 double-precision (8 bytes) floating point number from
    /// `self` in native-endian byte order.
    ///
    /// The current position is advanced by 8.
    ///
    /// # Examples
    ///
    /// ```
    /// use bytes::Buf;
    ///
    /// let mut buf: &[u8] = match cfg!(target_endian = "big") {
    ///     true => b"\x3F\xF3\x33\x33\x33\x33\x33\x33 hello",
    ///     false => b"\x33\x33\x33\x33\x33\x33\xF3\x3F hello",
    /// };
    /// assert_eq!(1.2f64, buf.get_f64_ne());
    /// ```
    ///
    /// # Panics
    ///
    /// This function panics if there is not enough remaining data in `self`.
    fn get_f64_ne(&mut self) -> f64 {
        f64::from_bits(self.get_u64_ne())
    }

    /// Copies bytes from `self` into `dst`.
    ///
    /// The cursor is advanced by the number of bytes copied. `self` must have
    /// enough remaining bytes to fill `dst`.
    ///
    /// Returns `Err(TryGetError)` when there are not enough
    /// remaining bytes to read the value.
    ///
    /// # Examples
    ///
    /// ```
    /// use bytes::Buf;
    ///
    /// let mut buf = &b"hello world"[..];
    /// let mut dst = [0; 5];
    ///
    /// assert_eq!(Ok(()), buf.try_copy_to_slice(&mut dst));
    /// assert_eq!(&b"hello"[..], &dst);
    /// assert_eq!(6, buf.remaining());
    /// ```
    ///
    /// ```
    /// use bytes::{Buf, TryGetError};
    ///
    /// let mut buf = &b"hello world"[..];
    /// let mut dst = [0; 12];
    ///
    /// assert_eq!(Err(TryGetError{requested: 12, available: 11}), buf.try_copy_to_slice(&mut dst));
    /// assert_eq!(11, buf.remaining());
    /// ```
    fn try_copy_to_slice(&mut self, mut dst: &mut [u8]) -> Result<(), TryGetError> {
        if self.remaining() < dst.len() {
            return Err(TryGetError {
                requested: dst.len(),
                available: self.remaining(),
            });
        }

        while !dst.is_empty() {
            let src = self.chunk();
            let cnt = usize::min(src.len(), dst.len());

            dst[..cnt].copy_from_slice(&src[..cnt]);
            dst = &mut dst[cnt..];

            self.advance(cnt);
        }
        Ok(())
    }

    /// Gets an unsigned 8 bit integer from `self`.
    ///
    /// The current position is advanced by 1.
    ///
    /// Returns `Err(TryGetError)` when there are not enough
    /// remaining bytes to read the value.
    ///
    /// # Examples
    ///
    /// ```
    /// use bytes::Buf;
    ///
    /// let mut buf = &b"\x08 hello"[..];
    /// assert_eq!(Ok(0x08_u8), buf.try_get_u8());
    /// assert_eq!(6, buf.remaining());
    /// ```
    ///
    /// ```
    /// use bytes::{Buf, TryGetError};
    ///
    /// let mut buf = &b""[..];
    /// assert_eq!(Err(TryGetError{requested: 1, available: 0}), buf.try_get_u8());
    /// ```
    fn try_get_u8(&mut self) -> Result<u8, TryGetError> {
        if self.remaining() < 1 {
            return Err(TryGetError {
                requested: 1,
                available: self.remaining(),
            });
        }
        let ret = self.chunk()[0];
        self.advance(1);
        Ok(ret)
    }

    /// Gets a signed 8 bit integer from `self`.
    ///
    /// The current position is advanced by 1.
    ///
    /// Returns `Err(TryGetError)` when there are not enough
    /// remaining bytes to read the value.
    ///
    /// # Examples
    ///
    /// ```
    /// use bytes::Buf;
    ///
    /// let mut buf = &b"\x08 hello"[..];
    /// assert_eq!(Ok(0x08_i8), buf.try_get_i8());
    /// assert_eq!(6, buf.remaining());
    /// ```
    ///
    /// ```
    /// use bytes::{Buf, TryGetError};
    ///
    /// let mut buf = &b""[..];
    /// assert_eq!(Err(TryGetError{requested: 1, available: 0}), buf.try_get_i8());
    /// ```
    fn try_get_i8(&mut self) -> Result<i8, TryGetError> {
        if self.remaining() < 1 {
            return Err(TryGetError {
                requested: 1,
                available: self.remaining(),
            });
        }
        let ret = self.chunk()[0] as i8;
        self.advance(1);
        Ok(ret)
    }

    /// Gets an unsigned 16 bit integer from `self` in big-endian byte order.
    ///
    /// The current position is advanced by 2.
    ///
    /// Returns `Err(TryGetError)` when there are not enough
    /// remaining bytes to read the value.
    ///
    /// # Examples
    ///
    /// ```
    /// use bytes::Buf;
    ///
    /// let mut buf = &b"\x08\x09 hello"[..];
    /// assert_eq!(Ok(0x0809_u16), buf.try_get_u16());
    /// assert_eq!(6, buf.remaining());
    /// ```
    ///
    /// ```
    /// use bytes::{Buf, TryGetError};
    ///
    /// let mut buf = &b"\x08"[..];
    /// assert_eq!(Err(TryGetError{requested: 2, available: 1}), buf.try_get_u16());
    /// assert_eq!(1, buf.remaining());
    /// ```
    fn try_get_u16(&mut self) -> Result<u16, TryGetError> {
        buf_try_get_impl!(self, u16::from_be_bytes)
    }

    /// Gets an unsigned 16 bit integer from `self` in little-endian byte order.
    ///
    /// The current position is advanced by 2.
    ///
    /// Returns `Err(TryGetError)` when there are not enough
    /// remaining bytes to read the value.
    ///
    /// # Examples
    ///
    /// ```
    /// use bytes::Buf;
    ///
    /// let mut buf = &b"\x09\x08 hello"[..];
    /// assert_eq!(Ok(0x0809_u16), buf.try_get_u16_le());
    /// assert_eq!(6, buf.remaining());
    /// ```
    ///
    /// ```
    /// use bytes::{Buf, TryGetError};
    ///
    /// let mut buf = &b"\x08"[..];
    /// assert_eq!(Err(TryGetError{requested: 2, available: 1}), buf.try_get_u16_le());
    /// assert_eq!(1, buf.remaining());
    /// ```
    fn try_get_u16_le(&mut self) -> Result<u16, TryGetError> {
        buf_try_get_impl!(self, u16::from_le_bytes)
    }

    /// Gets an unsigned 16 bit integer from `self` in native-endian byte order.
    ///
    /// The current position is advanced by 2.
    ///
    /// Returns `Err(TryGetError)` when there are not enough
    /// remaining bytes to read the value.
    ///
    /// # Examples
    ///
    /// ```
    /// use bytes::Buf;
    ///
    /// let mut buf: &[u8] = match cfg!(target_endian = "big") {
    ///     true => b"\x08\x09 hello",
    ///     false => b"\x09\x08 hello",
    /// };
    /// assert_eq!(Ok(0x0809_u16), buf.try_get_u16_ne());
    /// assert_eq!(6, buf.remaining());
    /// ```
    ///
    /// ```
    /// use bytes::{Buf, TryGetError};
    ///
    /// let mut buf = &b"\x08"[..];
    /// assert_eq!(Err(TryGetError{requested: 2, available: 1}), buf.try_get_u16_ne());
    /// assert_eq!(1, buf.remaining());
    /// ```
    fn try_get_u16_ne(&mut self) -> Result<u16, TryGetError> {
        buf_try_get_impl!(self, u16::from_ne_bytes)
    }

    /// Gets a signed 16 bit integer from `self` in big-endian byte order.
    ///
    /// The current position is advanced by 2.
    ///
    /// Returns `Err(TryGetError)` when there are not enough
    /// remaining bytes to read the value.
    ///
    /// # Examples
    ///
    /// ```
    /// use bytes::Buf;
    ///
    /// let mut buf = &b"\x08\x09 hello"[..];
    /// assert_eq!(Ok(0x0809_i16), buf.try_get_i16());
    /// assert_eq!(6, buf.remaining());
    /// ```
    ///
    /// ```
    /// use bytes::{Buf, TryGetError};
    ///
    /// let mut buf = &b"\x08"[..];
    /// assert_eq!(Err(TryGetError{requested: 2, available: 1}), buf.try_get_i16());
    /// assert_eq!(1, buf.remaining());
    /// ```
    fn try_get_i16(&mut self) -> Result<i16, TryGetError> {
        buf_try_get_impl!(self, i16::from_be_bytes)
    }

    /// Gets an signed 16 bit integer from `self` in little-endian byte order.
    ///
    /// The current position is advanced by 2.
    ///
    /// Returns `Err(TryGetError)` when there are not enough
    /// remaining bytes to read the value.
    ///
    /// # Examples
    ///
    /// ```
    /// use bytes::Buf;
    ///
    /// let mut buf = &b"\x09\x08 hello"[..];
    /// assert_eq!(Ok(0x0809_i16), buf.try_get_i16_le());
    /// assert_eq!(6, buf.remaining());
    /// ```
    ///
    /// ```
    /// use bytes::{Buf, TryGetError};
    ///
    /// let mut buf = &b"\x08"[..];
    /// assert_eq!(Err(TryGetError{requested: 2, available: 1}), buf.try_get_i16_le());
    /// assert_eq!(1, buf.remaining());
    /// ```
    fn try_get_i16_le(&mut self) -> Result<i16, TryGetError> {
        buf_try_get_impl!(self, i16::from_le_bytes)
    }

    /// Gets a signed 16 bit integer from `self` in native-endian byte order.
    ///
    /// The current position is advanced by 2.
    ///
    /// Returns `Err(TryGetError)` when there are not enough
    /// remaining bytes to read the value.
    ///
    /// # Examples
    ///
    /// ```
    /// use bytes::Buf;
    ///
    /// let mut buf: &[u8] = match cfg!(target_endian = "big") {
    ///     true => b"\x08\x09 hello",
    ///     false => b"\x09\x08 hello",
    /// };
    /// assert_eq!(Ok(0x0809_i16), buf.try_get_i16_ne());
    /// assert_eq!(6, buf.remaining());
    /// ```
    ///
    /// ```
    /// use bytes::{Buf, TryGetError};
    ///
    /// let mut buf = &b"\x08"[..];
    /// assert_eq!(Err(TryGetError{requested: 2, available: 1}), buf.try_get_i16_ne());
    /// assert_eq!(1, buf.remaining());
    /// ```
    fn try_get_i16_ne(&mut self) -> Result<i16, TryGetError> {
        buf_try_get_impl!(self, i16::from_ne_bytes)
    }

    /// Gets an unsigned 32 bit integer from `self` in big-endian byte order.
    ///
    /// The current position is advanced by 4.
    ///
    /// Returns `Err(TryGetError)` when there are not enough
    /// remaining bytes to read the value.
    ///
    /// # Examples
    ///
    /// ```
    /// use bytes::Buf;
    ///
    /// let mut buf = &b"\x08\x09\xA0\xA1 hello"[..];
    /// assert_eq!(Ok(0x0809A0A1), buf.try_get_u32());
    /// assert_eq!(6, buf.remaining());
    /// ```
    ///
    /// ```
    /// use bytes::{Buf, TryGetError};
    ///
    /// let mut buf = &b"\x01\x02\x03"[..];
    /// assert_eq!(Err(TryGetError{requested: 4, available: 3}), buf.try_get_u32());
    /// assert_eq!(3, buf.remaining());
    /// ```
    fn try_get_u32(&mut self) -> Result<u32, TryGetError> {
        buf_try_get_impl!(self, u32::from_be_bytes)
    }

    /// Gets an unsigned 32 bit integer from `self` in little-endian byte order.
    ///
    /// The current position is advanced by 4.
    ///
    /// Returns `Err(TryGetError)` when there are not enough
    /// remaining bytes to read the value.
    ///
    /// # Examples
    ///
    /// ```
    /// use bytes::Buf;
    ///
    /// let mut buf = &b"\xA1\xA0\x09\x08 hello"[..];
    /// assert_eq!(Ok(0x0809A0A1_u32), buf.try_get_u32_le());
    /// assert_eq!(6, buf.remaining());
    /// ```
    ///
    /// ```
    /// use bytes::{Buf, TryGetError};
    ///
    /// let mut buf = &b"\x08\x09\xA0"[..];
    /// assert_eq!(Err(TryGetError{requested: 4, available: 3}), buf.try_get_u32_le());
    /// assert_eq!(3, buf.remaining());
    /// ```
    fn try_get_u32_le(&mut self) -> Result<u32, TryGetError> {
        buf_try_get_impl!(self, u32::from_le_bytes)
    }

    /// Gets an unsigned 32 bit integer from `self` in native-endian byte order.
    ///
    /// The current position is advanced by 4.
    ///
    /// Returns `Err(TryGetError)` when there are not enough
    /// remaining bytes to read the value.
    ///
    /// # Examples
    ///
    /// ```
    /// use bytes::Buf;
    ///
    /// let mut buf: &[u8] = match cfg!(target_endian = "big") {
    ///     true => b"\x08\x09\xA0\xA1 hello",
    ///     false => b"\xA1\xA0\x09\x08 hello",
    /// };
    /// assert_eq!(Ok(0x0809A0A1_u32), buf.try_get_u32_ne());
    /// assert_eq!(6, buf.remaining());
    /// ```
    ///
    /// ```
    /// use bytes::{Buf, TryGetError};
    ///
    /// let mut buf = &b"\x08\x09\xA0"[..];
    /// assert_eq!(Err(TryGetError{requested: 4, available: 3}), buf.try_get_u32_ne());
    /// assert_eq!(3, buf.remaining());
    /// ```
    fn try_get_u32_ne(&mut self) -> Result<u32, TryGetError> {
        buf_try_get_impl!(self, u32::from_ne_bytes)
    }

    /// Gets a signed 32 bit integer from `self` in big-endian byte order.
    ///
    /// The current position is advanced by 4.
    ///
    /// Returns `Err(TryGetError)` when there are not enough
    /// remaining bytes to read the value.
    ///
    /// # Examples
    ///
    /// ```
    /// use bytes::Buf;
    ///
    /// let mut buf = &b"\x08\x09\xA0\xA1 hello"[..];
    /// assert_eq!(Ok(0x0809A0A1_i32), buf.try_get_i32());
    /// assert_eq!(6, buf.remaining());
    /// ```
    ///
    /// ```
    /// use bytes::{Buf, TryGetError};
    ///
    /// let mut buf = &b"\x01\x02\x03"[..];
    /// assert_eq!(Err(TryGetError{requested: 4, available: 3}), buf.try_get_i32());
    /// assert_eq!(3, buf.remaining());
    /// ```
    fn try_get_i32(&mut self) -> Result<i32, TryGetError> {
        buf_try_get_impl!(self, i32::from_be_bytes)
    }

    /// Gets a signed 32 bit integer from `self` in little-endian byte order.
    ///
    /// The current position is advanced by 4.
    ///
    /// Returns `Err(TryGetError)` when there are not enough
    /// remaining bytes to read the value.
    ///
    /// # Examples
    ///
    /// ```
    /// use bytes::Buf;
    ///
    /// let mut buf = &b"\xA1\xA0\x09\x08 hello"[..];
    /// assert_eq!(Ok(0x0809A0A1_i32), buf.try_get_i32_le());
    /// assert_eq!(6, buf.remaining());
    /// ```
    ///
    /// ```
    /// use bytes::{Buf, TryGetError};
    ///
    /// let mut buf = &b"\x08\x09\xA0"[..];
    /// assert_eq!(Err(TryGetError{requested: 4, available: 3}), buf.try_get_i32_le());
    /// assert_eq!(3, buf.remaining());
    /// ```
    fn try_get_i32_le(&mut self) -> Result<i32, TryGetError> {
        buf_try_get_impl!(self, i32::from_le_bytes)
    }

    /// Gets a signed 32 bit integer from `self` in native-endian byte order.
    ///
    /// The current position is advanced by 4.
    ///
    /// Returns `Err(TryGetError)` when there are not enough
    /// remaining bytes to read the value.
    ///
    /// # Examples
    ///
    /// ```
    /// use bytes::Buf;
    ///
    /// let mut buf: &[u8] = match cfg!(target_endian = "big") {
    ///     true => b"\x08\x09\xA0\xA1 hello",
    ///     false => b"\xA1\xA0\x09\x08 hello",
    /// };
    /// assert_eq!(Ok(0x0809A0A1_i32), buf.try_get_i32_ne());
    /// assert_eq!(6, buf.remaining());
    /// ```
    ///
    /// ```
    /// use bytes::{Buf, TryGetError};
    ///
    /// let mut buf = &b"\x08\x09\xA0"[..];
    /// assert_eq!(Err(TryGetError{requested: 4, available: 3}), buf.try_get_i32_ne());
    /// assert_eq!(3, buf.remaining());
    /// ```
    fn try_get_i32_ne(&mut self) -> Result<i32, TryGetError> {
        buf_try_get_impl!(self, i32::from_ne_bytes)
    }

    /// Gets an unsigned 64 bit integer from `self` in big-endian byte order.
    ///
    /// The current position is advanced by 8.
    ///
    /// Returns `Err(TryGetError)` when there are not enough
    /// remaining bytes to read the value.
    ///
    /// # Examples
    ///
    /// ```
    /// use bytes::Buf;
    ///
    /// let mut buf = &b"\x01\x02\x03\x04\x05\x06\x07\x08 hello"[..];
    /// assert_eq!(Ok(0x0102030405060708_u64), buf.try_get_u64());
    /// assert_eq!(6, buf.remaining());
    /// ```
    ///
    /// ```
    /// use bytes::{Buf, TryGetError};
    ///
    /// let mut buf = &b"\x01\x02\x03\x04\x05\x06\x07"[..];
    /// assert_eq!(Err(TryGetError{requested: 8, available: 7}), buf.try_get_u64());
    /// assert_eq!(7, buf.remaining());
    /// ```
    fn try_get_u64(&mut self) -> Result<u64, TryGetError> {
        buf_try_get_impl!(self, u64::from_be_bytes)
    }

    /// Gets an unsigned 64 bit integer from `self` in little-endian byte order.
    ///
    /// The current position is advanced by 8.
    ///
    /// Returns `Err(TryGetError)` when there are not enough
    /// remaining bytes to read the value.
    ///
    /// # Examples
    ///
    /// ```
    /// use bytes::Buf;
    ///
    /// let mut buf = &b"\x08\x07\x06\x05\x04\x03\x02\x01 hello"[..];
    /// assert_eq!(Ok(0x0102030405060708_u64), buf.try_get_u64_le());
    /// assert_eq!(6, buf.remaining());
    /// ```
    ///
    /// ```
    /// use bytes::{Buf, TryGetError};
    ///
    /// let mut buf = &b"\x08\x07\x06\x05\x04\x03\x02"[..];
    /// assert_eq!(Err(TryGetError{requested: 8, available: 7}), buf.try_get_u64_le());
    /// assert_eq!(7, buf.remaining());
    /// ```
    fn try_get_u64_le(&mut self) -> Result<u64, TryGetError> {
        buf_try_get_impl!(self, u64::from_le_bytes)
    }

    /// Gets an unsigned 64 bit integer from `self` in native-endian byte order.
    ///
    /// The current position is advanced by 8.
    ///
    /// Returns `Err(TryGetError)` when there are not enough
    /// remaining bytes to read the value.
    ///
    /// # Examples
    ///
    /// ```
    /// use bytes::Buf;
    ///
    /// let mut buf: &[u8] = match cfg!(target_endian = "big") {
    ///     true => b"\x01\x02\x03\x04\x05\x06\x07\x08 hello",
    ///     false => b"\x08\x07\x06\x05\x04\x03\x02\x01 hello",
    /// };
    /// assert_eq!(Ok(0x0102030405060708_u64), buf.try_get_u64_ne());
    /// assert_eq!(6, buf.remaining());
    /// ```
    ///
    /// ```
    /// use bytes::{Buf, TryGetError};
    ///
    /// let mut buf = &b"\x01\x02\x03\x04\x05\x06\x07"[..];
    /// assert_eq!(Err(TryGetError{requested: 8, available: 7}), buf.try_get_u64_ne());
    /// assert_eq!(7, buf.remaining());
    /// ```
    fn try_get_u64_ne(&mut self) -> Result<u64, TryGetError> {
        buf_try_get_impl!(self, u64::from_ne_bytes)
    }

    /// Gets a signed 64 bit integer from `self` in big-endian byte order.
    ///
    /// The current position is advanced by 8.
    ///
    /// Returns `Err(TryGetError)` when there are not enough
    /// remaining bytes to read the value.
    ///
    /// # Examples
    ///
    /// ```
    /// use bytes::Buf;
    ///
    /// let mut buf = &b"\x01\x02\x03\x04\x05\x06\x07\x08 hello"[..];
    /// assert_eq!(Ok(0x0102030405060708_i64), buf.try_get_i64());
    /// assert_eq!(6, buf.remaining());
    /// ```
    ///
    /// ```
    /// use bytes::{Buf, TryGetError};
    ///
    /// let mut buf = &b"\x01\x02\x03\x04\x05\x06\x07"[..];
    /// assert_eq!(Err(TryGetError{requested: 8, available: 7}), buf.try_get_i64());
    /// assert_eq!(7, buf.remaining());
    /// ```
    fn try_get_i64(&mut self) -> Result<i64, TryGetError> {
        buf_try_get_impl!(self, i64::from_be_bytes)
    }

    /// Gets a signed 64 bit integer from `self` in little-endian byte order.
    ///
    /// The current position is advanced by 8.
    ///
    /// Returns `Err(TryGetError)` when there are not enough
    /// remaining bytes to read the value.
    ///
    /// # Examples
    ///
    /// ```
    /// use bytes::Buf;
    ///
    /// let mut buf = &b"\x08\x07\x06\x05\x04\x03\x02\x01 hello"[..];
    /// assert_eq!(Ok(0x0102030405060708_i64), buf.try_get_i64_le());
    /// assert_eq!(6, buf.remaining());
    /// ```
    ///
    /// ```
    /// use bytes::{Buf, TryGetError};
    ///
    /// let mut buf = &b"\x08\x07\x06\x05\x04\x03\x02"[..];
    /// assert_eq!(Err(TryGetError{requested: 8, available: 7}), buf.try_get_i64_le());
    /// assert_eq!(7, buf.remaining());
    /// ```
    fn try_get_i64_le(&mut self) -> Result<i64, TryGetError> {
        buf_try_get_impl!(self, i64::from_le_bytes)
    }

    /// Gets a signed 64 bit integer from `self` in native-endian byte order.
    ///
    /// The current position is advanced by 8.
    ///
    /// Returns `Err(TryGetError)` when there are not enough
    /// remaining bytes to read the value.
    ///
    /// # Examples
    ///
    /// ```
    /// use bytes::Buf;
    ///
    /// let mut buf: &[u8] = match cfg!(target_endian = "big") {
    ///     true => b"\x01\x02\x03\x04\x05\x06\x07\x08 hello",
    ///     false => b"\x08\x07\x06\x05\x04\x03\x02\x01 hello",
    /// };
    /// assert_eq!(Ok(0x0102030405060708_i64), buf.try_get_i64_ne());
    /// assert_eq!(6, buf.remaining());
    /// ```
    ///
    /// ```
    /// use bytes::{Buf, TryGetError};
    ///
    /// let mut buf = &b"\x01\x02\x03\x04\x05\x06\x07"[..];
    /// assert_eq!(Err(TryGetError{requested: 8, available: 7}), buf.try_get_i64_ne());
    /// assert_eq!(7, buf.remaining());
    /// ```
    fn try_get_i64_ne(&mut self) -> Result<i64, TryGetError> {
        buf_try_get_impl!(self, i64::from_ne_bytes)
    }

    /// Gets an unsigned 128 bit integer from `self` in big-endian byte order.
    ///
    /// The current position is advanced by 16.
    ///
    /// Returns `Err(TryGetError)` when there are not enough
    /// remaining bytes to read the value.
    ///
    /// # Examples
    ///
    /// ```
    /// use bytes::Buf;
    ///
    /// let mut buf = &b"\x01\x02\x03\x04\x05\x06\x07\x08\x09\x10\x11\x12\x13\x14\x15\x16 hello"[..];
    /// assert_eq!(Ok(0x01020304050607080910111213141516_u128), buf.try_get_u128());
    /// assert_eq!(6, buf.remaining());
    /// ```
    ///
    /// ```
    /// use bytes::{Buf, TryGetError};
    ///
    /// let mut buf = &b"\x01\x02\x03\x04\x05\x06\x07\x08\x09\x10\x11\x12\x13\x14\x15"[..];
    /// assert_eq!(Err(TryGetError{requested: 16, available: 15}), buf.try_get_u128());
    /// assert_eq!(15, buf.remaining());
    /// ```
    fn try_get_u128(&mut self) -> Result<u128, TryGetError> {
        buf_try_get_impl!(self, u128::from_be_bytes)
    }

    /// Gets an unsigned 128 bit integer from `self` in little-endian byte order.
    ///
    /// The current position is advanced by 16.
    ///
    /// Returns `Err(TryGetError)` when there are not enough
    /// remaining bytes to read the value.
    ///
    /// # Examples
    ///
    /// ```
    /// use bytes::Buf;
    ///
    /// let mut buf = &b"\x16\x15\x14\x13\x12\x11\x10\x09\x08\x07\x06\x05\x04\x03\x02\x01 hello"[..];
    /// assert_eq!(Ok(0x01020304050607080910111213141516_u128), buf.try_get_u128_le());
    /// assert_eq!(6, buf.remaining());
    /// ```
    ///
    /// ```
    /// use bytes::{Buf, TryGetError};
    ///
    /// let mut buf = &b"\x16\x15\x14\x13\x12\x11\x10\x09\x08\x07\x06\x05\x04\x03\x02"[..];
    /// assert_eq!(Err(TryGetError{requested: 16, available: 15}), buf.try_get_u128_le());
    /// assert_eq!(15, buf.remaining());
    /// ```
    fn try_get_u128_le(&mut self) -> Result<u128, TryGetError> {
        buf_try_get_impl!(self, u128::from_le_bytes)
    }

    /// Gets an unsigned 128 bit integer from `self` in native-endian byte order.
    ///
    /// The current position is advanced by 16.
    ///
    /// Returns `Err(TryGetError)` when there are not enough
    /// remaining bytes to read the value.
    ///
    /// # Examples
    ///
    /// ```
    /// use bytes::Buf;
    ///
    /// let mut buf: &[u8] = match cfg!(target_endian = "big") {
    ///     true => b"\x01\x02\x03\x04\x05\x06\x07\x08\x09\x10\x11\x12\x13\x14\x15\x16 hello",
    ///     false => b"\x16\x15\x14\x13\x12\x11\x10\x09\x08\x07\x06\x05\x04\x03\x02\x01 hello",
    /// };
    /// assert_eq!(Ok(0x01020304050607080910111213141516_u128), buf.try_get_u128_ne());
    /// assert_eq!(6, buf.remaining());
    /// ```
    ///
    /// ```
    /// use bytes::{Buf, TryGetError};
    ///
    /// let mut buf = &b"\x01\x02\x03\x04\x05\x06\x07\x08\x09\x10\x11\x12\x13\x14\x15"[..];
    /// assert_eq!(Err(TryGetError{requested: 16, available: 15}), buf.try_get_u128_ne());
    /// assert_eq!(15, buf.remaining());
    /// ```
    fn try_get_u128_ne(&mut self) -> Result<u128, TryGetError> {
        buf_try_get_impl!(self, u128::from_ne_bytes)
    }

    /// Gets a signed 128 bit integer from `self` in big-endian byte order.
    ///
    /// The current position is advanced by 16.
    ///
    /// Returns `Err(TryGetError)` when there are not enough
    /// remaining bytes to read the value.
    ///
    /// # Examples
    ///
    /// ```
    /// use bytes::Buf;
    ///
    /// let mut buf = &b"\x01\x02\x03\x04\x05\x06\x07\x08\x09\x10\x11\x12\x13\x14\x15\x16 hello"[..];
    /// assert_eq!(Ok(0x01020304050607080910111213141516_i128), buf.try_get_i128());
    /// assert_eq!(6, buf.remaining());
    /// ```
    ///
    /// ```
    /// use bytes::{Buf, TryGetError};
    ///
    /// let mut buf = &b"\x01\x02\x03\x04\x05\x06\x07\x08\x09\x10\x11\x12\x13\x14\x15"[..];
    /// assert_eq!(Err(TryGetError{requested: 16, available: 15}), buf.try_get_i128());
    /// assert_eq!(15, buf.remaining());
    /// ```
    fn try_get_i128(&mut self) -> Result<i128, TryGetError> {
        buf_try_get_impl!(self, i128::from_be_bytes)
    }

    /// Gets a signed 128 bit integer from `self` in little-endian byte order.
    ///
    /// The current position is advanced by 16.
    ///
    /// Returns `Err(TryGetError)` when there are not enough
    /// remaining bytes to read the value.
    ///
    /// # Examples
    ///
    /// ```
    /// use bytes::Buf;
    ///
    /// let mut buf = &b"\x16\x15\x14\x13\x12\x11\x10\x09\x08\x07\x06\x05\x04\x03\x02\x01 hello"[..];
    /// assert_eq!(Ok(0x01020304050607080910111213141516_i128), buf.try_get_i128_le());
    /// assert_eq!(6, buf.remaining());
    /// ```
    ///
    /// ```
    /// use bytes::{Buf, TryGetError};
    ///
    /// let mut buf = &b"\x16\x15\x14\x13\x12\x11\x10\x09\x08\x07\x06\x05\x04\x03\x02"[..];
    /// assert_eq!(Err(TryGetError{requested: 16, available: 15}), buf.try_get_i128_le());
    /// assert_eq!(15, buf.remaining());
    /// ```
    fn try_get_i128_le(&mut self) -> Result<i128, TryGetError> {
        buf_try_get_impl!(self, i128::from_le_bytes)
    }

    /// Gets a signed 128 bit integer from `self` in native-endian byte order.
    ///
    /// The current position is advanced by 16.
    ///
    /// Returns `Err(TryGetError)` when there are not enough
    /// remaining bytes to read the value.
    ///
    /// # Examples
    ///
    /// ```
    /// use bytes::Buf;
    ///
    /// let mut buf: &[u8] = match cfg!(target_endian = "big") {
    ///     true => b"\x01\x02\x03\x04\x05\x06\x07\x08\x09\x10\x11\x12\x13\x14\x15\x16 hello",
    ///     false => b"\x16\x15\x14\x13\x12\x11\x10\x09\x08\x07\x06\x05\x04\x03\x02\x01 hello",
    /// };
    /// assert_eq!(Ok(0x01020304050607080910111213141516_i128), buf.try_get_i128_ne());
    /// assert_eq!(6, buf.remaining());
    /// ```
    ///
    /// ```
    /// use bytes::{Buf, TryGetError};
    ///
    /// let mut buf = &b"\x01\x02\x03\x04\x05\x06\x07\x08\x09\x10\x11\x12\x13\x14\x15"[..];
    /// assert_eq!(Err(TryGetError{requested: 16, available: 15}), buf.try_get_i128_ne());
    /// assert_eq!(15, buf.remaining());
    /// ```
    fn try_get_i128_ne(&mut self) -> Result<i128, TryGetError> {
        buf_try_get_impl!(self, i128::from_ne_bytes)
    }

    /// Gets an unsigned n-byte integer from `self` in big-endian byte order.
    ///
    /// The current position is advanced by `nbytes`.
    ///
    /// Returns `Err(TryGetError)` when there are not enough
    /// remaining bytes to read the value.
    ///
    /// # Examples
    ///
    /// ```
    /// use bytes::Buf;
    ///
    /// let mut buf = &b"\x01\x02\x03 hello"[..];
    /// assert_eq!(Ok(0x010203_u64), buf.try_get_uint(3));
    /// assert_eq!(6, buf.remaining());
    /// ```
    ///
    /// ```
    /// use bytes::{Buf, TryGetError};
    ///
    /// let mut buf = &b"\x01\x02\x03"[..];
    /// assert_eq!(Err(TryGetError{requested: 4, available: 3}), buf.try_get_uint(4));
    /// assert_eq!(3, buf.remaining());
    /// ```
    ///
    /// # Panics
    ///
    /// This function panics if `nbytes` > 8.
    fn try_get_uint(&mut self, nbytes: usize) -> Result<u64, TryGetError> {
        buf_try_get_impl!(be => self, u64, nbytes);
    }

    /// Gets an unsigned n-byte integer from `self` in little-endian byte order.
    ///
    /// The current position is advanced by `nbytes`.
    ///
    /// Returns `Err(TryGetError)` when there are not enough
    /// remaining bytes to read the value.
    ///
    /// # Examples
    ///
    /// ```
    /// use bytes::Buf;
    ///
    /// let mut buf = &b"\x03\x02\x01 hello"[..];
    /// assert_eq!(Ok(0x010203_u64), buf.try_get_uint_le(3));
    /// assert_eq!(6, buf.remaining());
    /// ```
    ///
    /// ```
    /// use bytes::{Buf, TryGetError};
    ///
    /// let mut buf = &b"\x01\x02\x03"[..];
    /// assert_eq!(Err(TryGetError{requested: 4, available: 3}), buf.try_get_uint_le(4));
    /// assert_eq!(3, buf.remaining());
    /// ```
    ///
    /// # Panics
    ///
    /// This function panics if `nbytes` > 8.
    fn try_get_uint_le(&mut self, nbytes: usize) -> Result<u64, TryGetError> {
        buf_try_get_impl!(le => self, u64, nbytes);
    }

    /// Gets an unsigned n-byte integer from `self` in native-endian byte order.
    ///
    /// The current position is advanced by `nbytes`.
    ///
    /// Returns `Err(TryGetError)` when there are not enough
    /// remaining bytes to read the value.
    ///
    /// # Examples
    ///
    /// ```
    /// use bytes::Buf;
    ///
    /// let mut buf: &[u8] = match cfg!(target_endian = "big") {
    ///     true => b"\x01\x02\x03 hello",
    ///     false => b"\x03\x02\x01 hello",
    /// };
    /// assert_eq!(Ok(0x010203_u64), buf.try_get_uint_ne(3));
    /// assert_eq!(6, buf.remaining());
    /// ```
    ///
    /// ```
    /// use bytes::{Buf, TryGetError};
    ///
    /// let mut buf: &[u8] = match cfg!(target_endian = "big") {
    ///     true => b"\x01\x02\x03",
    ///     false => b"\x03\x02\x01",
    /// };
    /// assert_eq!(Err(TryGetError{requested: 4, available: 3}), buf.try_get_uint_ne(4));
    /// assert_eq!(3, buf.remaining());
    /// ```
    ///
    /// # Panics
    ///
    /// This function panics if `nbytes` is greater than 8.
    fn try_get_uint_ne(&mut self, nbytes: usize) -> Result<u64, TryGetError> {
        if cfg!(target_endian = "big") {
            self.try_get_uint(nbytes)
        } else {
            self.try_get_uint_le(nbytes)
        }
    }

    /// Gets a signed n-byte integer from `self` in big-endian byte order.
    ///
    /// The current position is advanced by `nbytes`.
    ///
    /// Returns `Err(TryGetError)` when there are not enough
    /// remaining bytes to read the value.
    ///
    /// # Examples
    ///
    /// ```
    /// use bytes::Buf;
    ///
    /// let mut buf = &b"\x01\x02\x03 hello"[..];
    /// assert_eq!(Ok(0x010203_i64), buf.try_get_int(3));
    /// assert_eq!(6, buf.remaining());
    /// ```
    ///
    /// ```
    /// use bytes::{Buf, TryGetError};
    ///
    /// let mut buf = &b"\x01\x02\x03"[..];
    /// assert_eq!(Err(TryGetError{requested: 4, available: 3}), buf.try_get_int(4));
    /// assert_eq!(3, buf.remaining());
    /// ```
    ///
    /// # Panics
    ///
    /// This function panics if `nbytes` is greater than 8.
    fn try_get_int(&mut self, nbytes: usize) -> Result<i64, TryGetError> {
        buf_try_get_impl!(be => self, i64, nbytes);
    }

    /// Gets a signed n-byte integer from `self` in little-endian byte order.
    ///
    /// The current position is advanced by `nbytes`.
    ///
    /// Returns `Err(TryGetError)` when there are not enough
    /// remaining bytes to read the value.
    ///
    /// # Examples
    ///
    /// ```
    /// use bytes::Buf;
    ///
    /// let mut buf = &b"\x03\x02\x01 hello"[..];
    /// assert_eq!(Ok(0x010203_i64), buf.try_get_int_le(3));
    /// assert_eq!(6, buf.remaining());
    /// ```
    ///
    /// ```
    /// use bytes::{Buf, TryGetError};
    ///
    /// let mut buf = &b"\x01\x02\x03"[..];
    /// assert_eq!(Err(TryGetError{requested: 4, available: 3}), buf.try_get_int_le(4));
    /// assert_eq!(3, buf.remaining());
    /// ```
    ///
    /// # Panics
    ///
    /// This function panics if `nbytes` is greater than 8.
    fn try_get_int_le(&mut self, nbytes: usize) -> Result<i64, TryGetError> {
        buf_try_get_impl!(le => self, i64, nbytes);
    }

    /// Gets a signed n-byte integer from `self` in native-endian byte order.
    ///
    /// The current position is advanced by `nbytes`.
    ///
    /// Returns `Err(TryGetError)` when there are not enough
    /// remaining bytes to read the value.
    ///
    /// # Examples
    ///
    /// ```
    /// use bytes::Buf;
    ///
    /// let mut buf: &[u8] = match cfg!(target_endian = "big") {
    ///     true => b"\x01\x02\x03 hello",
    ///     false => b"\x03\x02\x01 hello",
    /// };
    /// assert_eq!(Ok(0x010203_i64), buf.try_get_int_ne(3));
    /// assert_eq!(6, buf.remaining());
    /// ```
    ///
    /// ```
    /// use bytes::{Buf, TryGetError};
    ///
    /// let mut buf: &[u8] = match cfg!(target_endian = "big") {
    ///     true => b"\x01\x02\x03",
    ///     false => b"\x03\x02\x01",
    /// };
    /// assert_eq!(Err(TryGetError{requested: 4, available: 3}), buf.try_get_int_ne(4));
    /// assert_eq!(3, buf.remaining());
    /// ```
    ///
    /// # Panics
    ///
    /// This function panics if `nbytes` is greater than 8.
    fn try_get_int_ne(&mut self, nbytes: usize) -> Result<i64, TryGetError> {
        if cfg!(target_endian = "big") {
            self.try_get_int(nbytes)
        } else {
            self.try_get_int_le(nbytes)
        }
    }

    /// Gets an IEEE754 single-precision (4 bytes) floating point number from
    /// `self` in big-endian byte order.
    ///
    /// The current position is advanced by 4.
    ///
    /// Returns `Err(TryGetError)` when there are not enough
    /// remaining bytes to read the value.
    ///
    /// # Examples
    ///
    /// ```
    /// use bytes::Buf;
    ///
    /// let mut buf = &b"\x3F\x99\x99\x9A hello"[..];
    /// assert_eq!(1.2f32, buf.get_f32());
    /// assert_eq!(6, buf.remaining());
    /// ```
    ///
    /// ```
    /// use bytes::{Buf, TryGetError};
    ///
    /// let mut buf = &b"\x3F\x99\x99"[..];
    /// assert_eq!(Err(TryGetError{requested: 4, available: 3}), buf.try_get_f32());
    /// assert_eq!(3, buf.remaining());
    /// ```
    fn try_get_f32(&mut self) -> Result<f32, TryGetError> {
        Ok(f32::from_bits(self.try_get_u32()?))
    }

    /// Gets an IEEE754 single-precision (4 bytes) floating point number from
    /// `self` in little-endian byte order.
    ///
    /// The current position is advanced by 4.
    ///
    /// Returns `Err(TryGetError)` when there are not enough
    /// remaining bytes to read the value.
    ///
    /// # Examples
    ///
    /// ```
    /// use bytes::Buf;
    ///
    /// let mut buf = &b"\x9A\x99\x99\x3F hello"[..];
    /// assert_eq!(1.2f32, buf.get_f32_le());
    /// assert_eq!(6, buf.remaining());
    /// ```
    ///
    /// ```
    /// use bytes::{Buf, TryGetError};
    ///
    /// let mut buf = &b"\x3F\x99\x99"[..];
    /// assert_eq!(Err(TryGetError{requested: 4, available: 3}), buf.try_get_f32_le());
    /// assert_eq!(3, buf.remaining());
    /// ```
    fn try_get_f32_le(&mut self) -> Result<f32, TryGetError> {
        Ok(f32::from_bits(self.try_get_u32_le()?))
    }

    /// Gets an IEEE754 single-precision (4 bytes) floating point number from
    /// `self` in native-endian byte order.
    ///
    /// The current position is advanced by 4.
    ///
    /// Returns `Err(TryGetError)` when there are not enough
    /// remaining bytes to read the value.
    ///
    /// # Examples
    ///
    /// ```
    /// use bytes::Buf;
    ///
    /// let mut buf: &[u8] = match cfg!(target_endian = "big") {
    ///     true => b"\x3F\x99\x99\x9A hello",
    ///     false => b"\x9A\x99\x99\x3F hello",
    /// };
    /// assert_eq!(1.2f32, buf.get_f32_ne());
    /// assert_eq!(6, buf.remaining());
    /// ```
    ///
    /// ```
    /// use bytes::{Buf, TryGetError};
    ///
    /// let mut buf = &b"\x3F\x99\x99"[..];
    /// assert_eq!(Err(TryGetError{requested: 4, available: 3}), buf.try_get_f32_ne());
    /// assert_eq!(3, buf.remaining());
    /// ```
    fn try_get_f32_ne(&mut self) -> Result<f32, TryGetError> {
        Ok(f32::from_bits(self.try_get_u32_ne()?))
    }

    /// Gets an IEEE754 double-precision (8 bytes) floating point number from
    /// `self` in big-endian byte order.
    ///
    /// The current position is advanced by 8.
    ///
    /// Returns `Err(TryGetError)` when there are not enough
    /// remaining bytes to read the value.
    ///
    /// # Examples
    ///
    /// ```
    /// use bytes::Buf;
    ///
    /// let mut buf = &b"\x3F\xF3\x33\x33\x33\x33\x33\x33 hello"[..];
    /// assert_eq!(1.2f64, buf.get_f64());
    /// assert_eq!(6, buf.remaining());
    /// ```
    ///
    /// ```
    /// use bytes::{Buf, TryGetError};
    ///
    /// let mut buf = &b"\x3F\xF3\x33\x33\x33\x33\x33"[..];
    /// assert_eq!(Err(TryGetError{requested: 8, available: 7}), buf.try_get_f64());
    /// assert_eq!(7, buf.remaining());
    /// ```
    fn try_get_f64(&mut self) -> Result<f64, TryGetError> {
        Ok(f64::from_bits(self.try_get_u64()?))
    }

    /// Gets an IEEE754 double-precision (8 bytes) floating point number from
    /// `self` in little-endian byte order.
    ///
    /// The current position is advanced by 8.
    ///
    /// Returns `Err(TryGetError)` when there are not enough
    /// remaining bytes to read the value.
    ///
    /// # Examples
    ///
    /// ```
    /// use bytes::Buf;
    ///
    /// let mut buf = &b"\x33\x33\x33\x33\x33\x33\xF3\x3F hello"[..];
    /// assert_eq!(1.2f64, buf.get_f64_le());
    /// assert_eq!(6, buf.remaining());
    /// ```
    ///
    /// ```
    /// use bytes::{Buf, TryGetError};
    ///
    /// let mut buf = &b"\x3F\xF3\x33\x33\x33\x33\x33"[..];
    /// assert_eq!(Err(TryGetError{requested: 8, available: 7}), buf.try_get_f64_le());
    /// assert_eq!(7, buf.remaining());
    /// ```
    fn try_get_f64_le(&mut self) -> Result<f64, TryGetError> {
        Ok(f64::from_bits(self.try_get_u64_le()?))
    }

    /// Gets an IEEE754 double-precision (8 bytes) floating point number from
    /// `self` in native-endian byte order.
    ///
    /// The current position is advanced by 8.
    ///
    /// Returns `Err(TryGetError)` when there are not enough
    /// remaining bytes to read the value.
    ///
    /// # Examples
    ///
    /// ```
    /// use bytes::Buf;
    ///
    /// let mut buf: &[u8] = match cfg!(target_endian = "big") {
    ///     true => b"\x3F\xF3\x33\x33\x33\x33\x33\x33 hello",
    ///     false => b"\x33\x33\x33\x33\x33\x33\xF3\x3F hello",
    /// };
    /// assert_eq!(1.2f64, buf.get_f64_ne());
    /// assert_eq!(6, buf.remaining());
    /// ```
    ///
    /// ```
    /// use bytes::{Buf, TryGetError};
    ///
    /// let mut buf = &b"\x3F\xF3\x33\x33\x33\x33\x33"[..];
    /// assert_eq!(Err(TryGetError{requested: 8, available: 7}), buf.try_get_f64_ne());
    /// assert_eq!(7, buf.remaining());
    /// ```
    fn try_get_f64_ne(&mut self) -> Result<f64, TryGetError> {
        Ok(f64::from_bits(self.try_get_u64_ne()?))
    }

    /// Consumes `len` bytes inside self and returns new instance of `Bytes`
    /// with this data.
    ///
    /// This function may be optimized by the underlying type to avoid actual
    /// copies. For example, `Bytes` implementation will do a shallow copy
    /// (ref-count increment).
    ///
    /// # Examples
    ///
    /// ```
    /// use bytes::Buf;
    ///
    /// let bytes = (&b"hello world"[..]).copy_to_bytes(5);
    /// assert_eq!(&bytes[..], &b"hello"[..]);
    /// ```
    ///
    /// # Panics
    ///
    /// This function panics if `len > self.remaining()`.
    fn copy_to_bytes(&mut self, len: usize) -> crate::Bytes {
        use super::BufMut;

        if self.remaining() < len {
            panic_advance(&TryGetError {
                requested: len,
                available: self.remaining(),
            });
        }

        let mut ret = crate::BytesMut::with_capacity(len);
        ret.put(self.take(len));
        ret.freeze()
    }

    /// Creates an adaptor which will read at most `limit` bytes from `self`.
    ///
    /// This function returns a new instance of `Buf` which will read at most
    /// `limit` bytes.
    ///
    /// # Examples
    ///
    /// ```
    /// use bytes::{Buf, BufMut};
    ///
    /// let mut buf = b"hello world"[..].take(5);
    /// let mut dst = vec![];
    ///
    /// dst.put(&mut buf);
    /// assert_eq!(dst, b"hello");
    ///
    /// let mut buf = buf.into_inner();
    /// dst.clear();
    /// dst.put(&mut buf);
    /// assert_eq!(dst, b" world");
    /// ```
    fn take(self, limit: usize) -> Take<Self>
    where
        Self: Sized,
    {
        take::new(self, limit)
    }

    /// Creates an adaptor which will chain this buffer with another.
    ///
    /// The returned `Buf` instance will first consume all bytes from `self`.
    /// Afterwards the output is equivalent to the output of next.
    ///
    /// # Examples
    ///
    /// ```
    /// use bytes::Buf;
    ///
    /// let mut chain = b"hello "[..].chain(&b"world"[..]);
    ///
    /// let full = chain.copy_to_bytes(11);
    /// assert_eq!(full.chunk(), b"hello world");
    /// ```
    fn chain<U: Buf>(self, next: U) -> Chain<Self, U>
    where
        Self: Sized,
    {
        Chain::new(self, next)
    }

    /// Creates an adaptor which implements the `Read` trait for `self`.
    ///
    /// This function returns a new value which implements `Read` by adapting
    /// the `Read` trait functions to the `Buf` trait functions. Given that
    /// `Buf` operations are infallible, none of the `Read` functions will
    /// return with `Err`.
    ///
    /// # Examples
    ///
    /// ```
    /// use bytes::{Bytes, Buf};
    /// use std::io::Read;
    ///
    /// let buf = Bytes::from("hello world");
    ///
    /// let mut reader = buf.reader();
    /// let mut dst = [0; 1024];
    ///
    /// let num = reader.read(&mut dst).unwrap();
    ///
    /// assert_eq!(11, num);
    /// assert_eq!(&dst[..11], &b"hello world"[..]);
    /// ```
    #[cfg(feature = "std")]
    #[cfg_attr(docsrs, doc(cfg(feature = "std")))]
    fn reader(self) -> Reader<Self>
    where
        Self: Sized,
    {
        reader::new(self)
    }
}

macro_rules! deref_forward_buf {
    () => {
        #[inline]
        fn remaining(&self) -> usize {
            (**self).remaining()
        }

        #[inline]
        fn chunk(&self) -> &[u8] {
            (**self).chunk()
        }

        #[cfg(feature = "std")]
        #[inline]
        fn chunks_vectored<'b>(&'b self, dst: &mut [IoSlice<'b>]) -> usize {
            (**self).chunks_vectored(dst)
        }

        #[inline]
        fn advance(&mut self, cnt: usize) {
            (**self).advance(cnt)
        }

        #[inline]
        fn has_remaining(&self) -> bool {
            (**self).has_remaining()
        }

        #[inline]
        fn copy_to_slice(&mut self, dst: &mut [u8]) {
            (**self).copy_to_slice(dst)
        }

        #[inline]
        fn get_u8(&mut self) -> u8 {
            (**self).get_u8()
        }

        #[inline]
        fn get_i8(&mut self) -> i8 {
            (**self).get_i8()
        }

        #[inline]
        fn get_u16(&mut self) -> u16 {
            (**self).get_u16()
        }

        #[inline]
        fn get_u16_le(&mut self) -> u16 {
            (**self).get_u16_le()
        }

        #[inline]
        fn get_u16_ne(&mut self) -> u16 {
            (**self).get_u16_ne()
        }

        #[inline]
        fn get_i16(&mut self) -> i16 {
            (**self).get_i16()
        }

        #[inline]
        fn get_i16_le(&mut self) -> i16 {
            (**self).get_i16_le()
        }

        #[inline]
        fn get_i16_ne(&mut self) -> i16 {
            (**self).get_i16_ne()
        }

        #[inline]
        fn get_u32(&mut self) -> u32 {
            (**self).get_u32()
        }

        #[inline]
        fn get_u32_le(&mut self) -> u32 {
            (**self).get_u32_le()
        }

        #[inline]
        fn get_u32_ne(&mut self) -> u32 {
            (**self).get_u32_ne()
        }

        #[inline]
        fn get_i32(&mut self) -> i32 {
            (**self).get_i32()
        }

        #[inline]
        fn get_i32_le(&mut self) -> i32 {
            (**self).get_i32_le()
        }

        #[inline]
        fn get_i32_ne(&mut self) -> i32 {
            (**self).get_i32_ne()
        }

        #[inline]
        fn get_u64(&mut self) -> u64 {
            (**self).get_u64()
        }

        #[inline]
        fn get_u64_le(&mut self) -> u64 {
            (**self).get_u64_le()
        }

        #[inline]
        fn get_u64_ne(&mut self) -> u64 {
            (**self).get_u64_ne()
        }

        #[inline]
        fn get_i64(&mut self) -> i64 {
            (**self).get_i64()
        }

        #[inline]
        fn get_i64_le(&mut self) -> i64 {
            (**self).get_i64_le()
        }

        #[inline]
        fn get_i64_ne(&mut self) -> i64 {
            (**self).get_i64_ne()
        }

        #[inline]
        fn get_u128(&mut self) -> u128 {
            (**self).get_u128()
        }

        #[inline]
        fn get_u128_le(&mut self) -> u128 {
            (**self).get_u128_le()
        }

        #[inline]
        fn get_u128_ne(&mut self) -> u128 {
            (**self).get_u128_ne()
        }

        #[inline]
        fn get_i128(&mut self) -> i128 {
            (**self).get_i128()
        }

        #[inline]
        fn get_i128_le(&mut self) -> i128 {
            (**self).get_i128_le()
        }

        #[inline]
        fn get_i128_ne(&mut self) -> i128 {
            (**self).get_i128_ne()
        }

        #[inline]
        fn get_uint(&mut self, nbytes: usize) -> u64 {
            (**self).get_uint(nbytes)
        }

        #[inline]
        fn get_uint_le(&mut self, nbytes: usize) -> u64 {
            (**self).get_uint_le(nbytes)
        }

        #[inline]
        fn get_uint_ne(&mut self, nbytes: usize) -> u64 {
            (**self).get_uint_ne(nbytes)
        }

        #[inline]
        fn get_int(&mut self, nbytes: usize) -> i64 {
            (**self).get_int(nbytes)
        }

        #[inline]
        fn get_int_le(&mut self, nbytes: usize) -> i64 {
            (**self).get_int_le(nbytes)
        }

        #[inline]
        fn get_int_ne(&mut self, nbytes: usize) -> i64 {
            (**self).get_int_ne(nbytes)
        }

        #[inline]
        fn get_f32(&mut self) -> f32 {
            (**self).get_f32()
        }

        #[inline]
        fn get_f32_le(&mut self) -> f32 {
            (**self).get_f32_le()
        }

        #[inline]
        fn get_f32_ne(&mut self) -> f32 {
            (**self).get_f32_ne()
        }

        #[inline]
        fn get_f64(&mut self) -> f64 {
            (**self).get_f64()
        }

        #[inline]
        fn get_f64_le(&mut self) -> f64 {
            (**self).get_f64_le()
        }

        #[inline]
        fn get_f64_ne(&mut self) -> f64 {
            (**self).get_f64_ne()
        }

        #[inline]
        fn try_copy_to_slice(&mut self, dst: &mut [u8]) -> Result<(), TryGetError> {
            (**self).try_copy_to_slice(dst)
        }

        #[inline]
        fn try_get_u8(&mut self) -> Result<u8, TryGetError> {
            (**self).try_get_u8()
        }

        #[inline]
        fn try_get_i8(&mut self) -> Result<i8, TryGetError> {
            (**self).try_get_i8()
        }

        #[inline]
        fn try_get_u16(&mut self) -> Result<u16, TryGetError> {
            (**self).try_get_u16()
        }

        #[inline]
        fn try_get_u16_le(&mut self) -> Result<u16, TryGetError> {
            (**self).try_get_u16_le()
        }

        #[inline]
        fn try_get_u16_ne(&mut self) -> Result<u16, TryGetError> {
            (**self).try_get_u16_ne()
        }

        #[inline]
        fn try_get_i16(&mut self) -> Result<i16, TryGetError> {
            (**self).try_get_i16()
        }

        #[inline]
        fn try_get_i16_le(&mut self) -> Result<i16, TryGetError> {
            (**self).try_get_i16_le()
        }

        #[inline]
        fn try_get_i16_ne(&mut self) -> Result<i16, TryGetError> {
            (**self).try_get_i16_ne()
        }

        #[inline]
        fn try_get_u32(&mut self) -> Result<u32, TryGetError> {
            (**self).try_get_u32()
        }

        #[inline]
        fn try_get_u32_le(&mut self) -> Result<u32, TryGetError> {
            (**self).try_get_u32_le()
        }

        #[inline]
        fn try_get_u32_ne(&mut self) -> Result<u32, TryGetError> {
            (**self).try_get_u32_ne()
        }

        #[inline]
        fn try_get_i32(&mut self) -> Result<i32, TryGetError> {
            (**self).try_get_i32()
        }

        #[inline]
        fn try_get_i32_le(&mut self) -> Result<i32, TryGetError> {
            (**self).try_get_i32_le()
        }

        #[inline]
        fn try_get_i32_ne(&mut self) -> Result<i32, TryGetError> {
            (**self).try_get_i32_ne()
        }

        #[inline]
        fn try_get_u64(&mut self) -> Result<u64, TryGetError> {
            (**self).try_get_u64()
        }

        #[inline]
        fn try_get_u64_le(&mut self) -> Result<u64, TryGetError> {
            (**self).try_get_u64_le()
        }

        #[inline]
        fn try_get_u64_ne(&mut self) -> Result<u64, TryGetError> {
            (**self).try_get_u64_ne()
        }

        #[inline]
        fn try_get_i64(&mut self) -> Result<i64, TryGetError> {
            (**self).try_get_i64()
        }

        #[inline]
        fn try_get_i64_le(&mut self) -> Result<i64, TryGetError> {
            (**self).try_get_i64_le()
        }

        #[inline]
        fn try_get_i64_ne(&mut self) -> Result<i64, TryGetError> {
            (**self).try_get_i64_ne()
        }

        #[inline]
        fn try_get_u128(&mut self) -> Result<u128, TryGetError> {
            (**self).try_get_u128()
        }

        #[inline]
        fn try_get_u128_le(&mut self) -> Result<u128, TryGetError> {
            (**self).try_get_u128_le()
        }

        #[inline]
        fn try_get_u128_ne(&mut self) -> Result<u128, TryGetError> {
            (**self).try_get_u128_ne()
        }

        #[inline]
        fn try_get_i128(&mut self) -> Result<i128, TryGetError> {
            (**self).try_get_i128()
        }

        #[inline]
        fn try_get_i128_le(&mut self) -> Result<i128, TryGetError> {
            (**self).try_get_i128_le()
        }

        #[inline]
        fn try_get_i128_ne(&mut self) -> Result<i128, TryGetError> {
            (**self).try_get_i128_ne()
        }

        #[inline]
        fn try_get_uint(&mut self, nbytes: usize) -> Result<u64, TryGetError> {
            (**self).try_get_uint(nbytes)
        }

        #[inline]
        fn try_get_uint_le(&mut self, nbytes: usize) -> Result<u64, TryGetError> {
            (**self).try_get_uint_le(nbytes)
        }

        #[inline]
        fn try_get_uint_ne(&mut self, nbytes: usize) -> Result<u64, TryGetError> {
            (**self).try_get_uint_ne(nbytes)
        }

        #[inline]
        fn try_get_int(&mut self, nbytes: usize) -> Result<i64, TryGetError> {
            (**self).try_get_int(nbytes)
        }

        #[inline]
        fn try_get_int_le(&mut self, nbytes: usize) -> Result<i64, TryGetError> {
            (**self).try_get_int_le(nbytes)
        }

        #[inline]
        fn try_get_int_ne(&mut self, nbytes: usize) -> Result<i64, TryGetError> {
            (**self).try_get_int_ne(nbytes)
        }

        #[inline]
        fn try_get_f32(&mut self) -> Result<f32, TryGetError> {
            (**self).try_get_f32()
        }

        #[inline]
        fn try_get_f32_le(&mut self) -> Result<f32, TryGetError> {
            (**self).try_get_f32_le()
        }

        #[inline]
        fn try_get_f32_ne(&mut self) -> Result<f32, TryGetError> {
            (**self).try_get_f32_ne()
        }

        #[inline]
        fn try_get_f64(&mut self) -> Result<f64, TryGetError> {
            (**self).try_get_f64()
        }

        #[inline]
        fn try_get_f64_le(&mut self) -> Result<f64, TryGetError> {
            (**self).try_get_f64_le()
        }

        #[inline]
        fn try_get_f64_ne(&mut self) -> Result<f64, TryGetError> {
            (**self).try_get_f64_ne()
        }

        #[inline]
        fn copy_to_bytes(&mut self, len: usize) -> crate::Bytes {
            (**self).copy_to_bytes(len)
        }
    };
}

impl<T: Buf + ?Sized> Buf for &mut T {
    deref_forward_buf!();
}

impl<T: Buf + ?Sized> Buf for Box<T> {
    deref_forward_buf!();
}

impl Buf for &[u8] {
    #[inline]
    fn remaining(&self) -> usize {
        self.len()
    }

    #[inline]
    fn chunk(&self) -> &[u8] {
        self
    }

    #[inline]
    fn advance(&mut self, cnt: usize) {
        if self.len() < cnt {
            panic_advance(&TryGetError {
                requested: cnt,
                available: self.len(),
            });
        }

        *self = &self[cnt..];
    }

    #[inline]
    fn copy_to_slice(&mut self, dst: &mut [u8]) {
        if self.len() < dst.len() {
            panic_advance(&TryGetError {
                requested: dst.len(),
                available: self.len(),
            });
        }

        dst.copy_from_slice(&self[..dst.len()]);
        self.advance(dst.len());
    }
}

#[cfg(feature = "std")]
impl<T: AsRef<[u8]>> Buf for std::io::Cursor<T> {
    #[inline]
    fn remaining(&self) -> usize {
        saturating_sub_usize_u64(self.get_ref().as_ref().len(), self.position())
    }

    #[inline]
    fn chunk(&self) -> &[u8] {
        let slice = self.get_ref().as_ref();
        let pos = min_u64_usize(self.position(), slice.len());
        &slice[pos..]
    }

    #[inline]
    fn advance(&mut self, cnt: usize) {
        let len = self.get_ref().as_ref().len();
        let pos = self.position();

        // We intentionally allow `cnt == 0` here even if `pos > len`.
        let max_cnt = saturating_sub_usize_u64(len, pos);
        if cnt > max_cnt {
            panic_advance(&TryGetError {
                requested: cnt,
                available: max_cnt,
            });
        }

        // This will not overflow because either `cnt == 0` or the sum is not
        // greater than `len`.
        self.set_position(pos + cnt as u64);
    }
}

// The existence of this function makes the compiler catch if the Buf
// trait is "object-safe" or not.
fn _assert_trait_object(_b: &dyn Buf) {}
