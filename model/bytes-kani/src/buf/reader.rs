use crate::Buf;

use std::{cmp, io};

/// A `Buf` adapter which implements `io::Read` for the inner value.
///
/// This struct is generally created by calling `reader()` on `Buf`. See
/// documentation of [`reader()`](Buf::reader) for more
/// details.
#[derive(Debug)]
pub struct Reader<B> {
    buf: B,
}

pub fn new<B>(buf: B) -> Reader<B> {
    Reader { buf }
}

impl<B: Buf> Reader<B> {
    /// Gets a reference to the underlying `Buf`.
    ///
    /// It is inadvisable to directly read from the underlying `Buf`.
    ///
    /// # Examples
    ///
    /// ```rust
    /// use bytes::Buf;
    ///
    /// let buf = b"hello world".reader();
    ///
    /// assert_eq!(b"hello world", buf.get_ref());
    /// ```
    pub fn get_ref(&self) -> &B {
        &self.buf
    }

    /// Gets a mutable reference to the underlying `Buf`.
    ///
    /// It is inadvisable to directly read from the underlying `Buf`.
    pub fn get_mut(&mut self) -> &mut B {
        &mut self.buf
    }

    /// Consumes this `Reader`, returning the underlying value.
    ///
    /// # Examples
    ///
    /// ```rust
    /// use bytes::Buf;
    /// use std::io;
    ///
    /// let mut buf = b"hello world".reader();
    /// let mut dst = vec![];
    ///
    /// io::copy(&mut buf, &mut dst).unwrap();
    ///
    /// let buf = buf.into_inner();
    /// assert_eq!(0, buf.remaining());
    /// ```
    pub fn into_inner(self) -> B {
        self.buf
    }
}

impl<B: Buf + Sized> io::Read for Reader<B> {
    fn read(&mut self, dst: &mut [u8]) -> io::Result<usize> {
        let len = cmp::min(self.buf.remaining(), dst.len());

        Buf::copy_to_slice(&mut self.buf, &mut dst[0..len]);
        Ok(len)
    }
}

impl<B: Buf + Sized> io::BufRead for Reader<B> {
    fn fill_buf(&mut self) -> io::Result<&[u8]> {
        Ok(self.buf.chunk())
    }
    fn consume(&mut self, amt: usize) {
        self.buf.advance(amt)
    }
}
