use crate::Buf;

/// Iterator over the bytes contained by the buffer.
///
/// # Examples
///
/// Basic usage:
///
/// ```
/// use bytes::Bytes;
///
/// let buf = Bytes::from(&b"abc"[..]);
/// let mut iter = buf.into_iter();
///
/// assert_eq!(iter.next(), Some(b'a'));
/// assert_eq!(iter.next(), Some(b'b'));
/// assert_eq!(iter.next(), Some(b'c'));
/// assert_eq!(iter.next(), None);
/// ```
#[derive(Debug)]
pub struct IntoIter<T> {
    inner: T,
}

impl<T> IntoIter<T> {
    /// Creates an iterator over the bytes contained by the buffer.
    ///
    /// # Examples
    ///
    /// ```
    /// use bytes::Bytes;
    ///
    /// let buf = Bytes::from_static(b"abc");
    /// let mut iter = buf.into_iter();
    ///
    /// assert_eq!(iter.next(), Some(b'a'));
    /// assert_eq!(iter.next(), Some(b'b'));
    /// assert_eq!(iter.next(), Some(b'c'));
    /// assert_eq!(iter.next(), None);
    /// ```
    pub fn new(inner: T) -> IntoIter<T> {
        IntoIter { inner }
    }

    /// Consumes this `IntoIter`, returning the underlying value.
    ///
    /// # Examples
    ///
    /// ```rust
    /// use bytes::{Buf, Bytes};
    ///
    /// let buf = Bytes::from(&b"abc"[..]);
    /// let mut iter = buf.into_iter();
    ///
    /// assert_eq!(iter.next(), Some(b'a'));
    ///
    /// let buf = iter.into_inner();
    /// assert_eq!(2, buf.remaining());
    /// ```
    pub fn into_inner(self) -> T {
        self.inner
    }

    /// Gets a reference to the underlying `Buf`.
    ///
    /// It is inadvisable to directly read from the underlying `Buf`.
    ///
    /// # Examples
    ///
    /// ```rust
    /// use bytes::{Buf, Bytes};
    ///
    /// let buf = Bytes::from(&b"abc"[..]);
    /// let mut iter = buf.into_iter();
    ///
    /// assert_eq!(iter.next(), Some(b'a'));
    ///
    /// assert_eq!(2, iter.get_ref().remaining());
    /// ```
    pub fn get_ref(&self) -> &T {
        &self.inner
    }

    /// Gets a mutable reference to the underlying `Buf`.
    ///
    /// It is inadvisable to directly read from the underlying `Buf`.
    ///
    /// # Examples
    ///
    /// ```rust
    /// use bytes::{Buf, BytesMut};
    ///
    /// let buf = BytesMut::from(&b"abc"[..]);
    /// let mut iter = buf.into_iter();
    ///
    /// assert_eq!(iter.next(), Some(b'a'));
    ///
    /// iter.get_mut().advance(1);
    ///
    /// assert_eq!(iter.next(), Some(b'c'));
    /// ```
    pub fn get_mut(&mut self) -> &mut T {
        &mut self.inner
    }
}

impl<T: Buf> Iterator for IntoIter<T> {
    type Item = u8;

    fn next(&mut self) -> Option<u8> {
        if !self.inner.has_remaining() {
            return None;
        }

        let b = self.inner.chunk()[0];
        self.inner.advance(1);

        Some(b)
    }

    fn size_hint(&self) -> (usize, Option<usize>) {
        let rem = self.inner.remaining();
        (rem, Some(rem))
    }
}

impl<T: Buf> ExactSizeIterator for IntoIter<T> {}
