#[cfg(not(all(test, loom)))]
pub(crate) mod sync {
    pub(crate) mod atomic {
        #[cfg(not(feature = "extra-platforms"))]
        pub(crate) use core::sync::atomic::{AtomicPtr, AtomicUsize, Ordering};
        #[cfg(feature = "extra-platforms")]
        pub(crate) use extra_platforms::{AtomicPtr, AtomicUsize, Ordering};

        pub(crate) trait AtomicMut<T> {
            fn with_mut<F, R>(&mut self, f: F) -> R
            where
                F: FnOnce(&mut *mut T) -> R;
        }

        impl<T> AtomicMut<T> for AtomicPtr<T> {
            fn with_mut<F, R>(&mut self, f: F) -> R
            where
                F: FnOnce(&mut *mut T) -> R,
            {
                f(self.get_mut())
            }
        }
    }
}

#[cfg(all(test, loom))]
pub(crate) mod sync {
    pub(crate) mod atomic {
        pub(crate) use loom::sync::atomic::{AtomicPtr, AtomicUsize, Ordering};

        pub(crate) trait AtomicMut<T> {}
    }
}
