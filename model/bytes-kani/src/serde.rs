use super::{Bytes, BytesMut};
use alloc::string::String;
use alloc::vec::Vec;
use core::{cmp, fmt};
use serde::{de, Deserialize, Deserializer, Serialize, Serializer};

macro_rules! serde_impl {
    ($ty:ident, $visitor_ty:ident, $from_slice:ident, $from_vec:ident) => {
        impl Serialize for $ty {
            #[inline]
            fn serialize<S>(&self, serializer: S) -> Result<S::Ok, S::Error>
            where
                S: Serializer,
            {
                serializer.serialize_bytes(&self)
            }
        }

        struct $visitor_ty;

        impl<'de> de::Visitor<'de> for $visitor_ty {
            type Value = $ty;

            fn expecting(&self, formatter: &mut fmt::Formatter<'_>) -> fmt::Result {
                formatter.write_str("byte array")
            }

            #[inline]
            fn visit_seq<V>(self, mut seq: V) -> Result<Self::Value, V::Error>
            where
                V: de::SeqAccess<'de>,
            {
                let len = cmp::min(seq.size_hint().unwrap_or(0), 4096);
                let mut values: Vec<u8> = Vec::with_capacity(len);

                while let Some(value) = seq.next_element()? {
                    values.push(value);
                }

                Ok($ty::$from_vec(values))
            }

            #[inline]
            fn visit_bytes<E>(self, v: &[u8]) -> Result<Self::Value, E>
            where
                E: de::Error,
            {
                Ok($ty::$from_slice(v))
            }

            #[inline]
            fn visit_byte_buf<E>(self, v: Vec<u8>) -> Result<Self::Value, E>
            where
                E: de::Error,
            {
                Ok($ty::$from_vec(v))
            }

            #[inline]
            fn visit_str<E>(self, v: &str) -> Result<Self::Value, E>
            where
                E: de::Error,
            {
                Ok($ty::$from_slice(v.as_bytes()))
            }

            #[inline]
            fn visit_string<E>(self, v: String) -> Result<Self::Value, E>
            where
                E: de::Error,
            {
                Ok($ty::$from_vec(v.into_bytes()))
            }
        }

        impl<'de> Deserialize<'de> for $ty {
            #[inline]
            fn deserialize<D>(deserializer: D) -> Result<$ty, D::Error>
            where
                D: Deserializer<'de>,
            {
                deserializer.deserialize_byte_buf($visitor_ty)
            }
        }
    };
}

serde_impl!(Bytes, BytesVisitor, copy_from_slice, from);
serde_impl!(BytesMut, BytesMutVisitor, from, from_vec);
