use core::fmt::{Formatter, LowerHex, Result, UpperHex};

use super::BytesRef;
use crate::{Bytes, BytesMut};

impl LowerHex for BytesRef<'_> {
    fn fmt(&self, f: &mut Formatter<'_>) -> Result {
        for &b in self.0 {
            write!(f, "{:02x}", b)?;
        }
        Ok(())
    }
}

impl UpperHex for BytesRef<'_> {
    fn fmt(&self, f: &mut Formatter<'_>) -> Result {
        for &b in self.0 {
            write!(f, "{:02X}", b)?;
        }
        Ok(())
    }
}

fmt_impl!(LowerHex, Bytes);
fmt_impl!(LowerHex, BytesMut);
fmt_impl!(UpperHex, Bytes);
fmt_impl!(UpperHex, BytesMut);
