macro_rules! fmt_impl {
    ($tr:ident, $ty:ty) => {
        impl $tr for $ty {
            fn fmt(&self, f: &mut Formatter<'_>) -> Result {
                $tr::fmt(&BytesRef(self.as_ref()), f)
            }
        }
    };
}

mod debug;
mod hex;

/// `BytesRef` is not a part of public API of bytes crate.
struct BytesRef<'a>(&'a [u8]);
