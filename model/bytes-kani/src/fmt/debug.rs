use core::fmt::{Debug, Formatter, Result};

use super::BytesRef;
use crate::{Bytes, BytesMut};

/// Alternative implementation of `std::fmt::Debug` for byte slice.
///
/// Standard `Debug` implementation for `[u8]` is comma separated
/// list of numbers. Since large amount of byte strings are in fact
/// ASCII strings or contain a lot of ASCII strings (e. g. HTTP),
/// it is convenient to print strings as ASCII when possible.
impl Debug for BytesRef<'_> {
    fn fmt(&self, f: &mut Formatter<'_>) -> Result {
        write!(f, "b\"")?;
        for &b in self.0 {
            // https://doc.rust-lang.org/reference/tokens.html#byte-escapes
            if b == b'\n' {
                write!(f, "\\n")?;
            } else if b == b'\r' {
                write!(f, "\\r")?;
            } else if b == b'\t' {
                write!(f, "\\t")?;
            } else if b == b'\\' || b == b'"' {
                write!(f, "\\{}", b as char)?;
            } else if b == b'\0' {
                write!(f, "\\0")?;
            // ASCII printable
            } else if (0x20..0x7f).contains(&b) {
                write!(f, "{}", b as char)?;
            } else {
                write!(f, "\\x{:02x}", b)?;
            }
        }
        write!(f, "\"")?;
        Ok(())
    }
}

fmt_impl!(Debug, Bytes);
fmt_impl!(Debug, BytesMut);
