use core::mem::{self, ManuallyDrop, MaybeUninit};
use core::ops::{Deref, DerefMut};
use core::ptr::{self, NonNull};
use core::{cmp, fmt, hash, slice};

use alloc::{
    borrow::{Borrow, BorrowMut},
    boxed::Box,
    string::String,
    vec,
    vec::Vec,
};

use crate::buf::{IntoIter, UninitSlice};
use crate::bytes::Vtable;
#[allow(unused)]
use crate::loom::sync::atomic::AtomicMut;
use crate::loom::sync::atomic::{AtomicPtr, AtomicUsize, Ordering};
use crate::{Buf, BufMut, Bytes, TryGetError};

/// A unique reference to a contiguous slice of memory.
///
/// `BytesMut` represents a unique view into a potentially shared memory region.
/// Given the uniqueness guarantee, owners of `BytesMut` handles are able to
/// mutate the memory.
///
/// `BytesMut` can be thought of as containing a `buf: Arc<Vec<u8>>`, an offset
/// into `buf`, a slice length, and a guarantee that no other `BytesMut` for the
/// same `buf` overlaps with its slice. That guarantee means that a write lock
/// is not required.
///
/// # Growth
///
/// `BytesMut`'s `BufMut` implementation will implicitly grow its buffer as
/// necessary. However, explicitly reserving the required space up-front before
/// a series of inserts will be more efficient.
///
/// # Examples
///
/// ```
/// use bytes::{BytesMut, BufMut};
///
/// let mut buf = BytesMut::with_capacity(64);
///
/// buf.put_u8(b'h');
/// buf.put_u8(b'e');
/// buf.put(&b"llo"[..]);
///
/// assert_eq!(&buf[..], b"hello");
///
/// // Freeze the buffer so that it can be shared
/// let a = buf.freeze();
///
/// // This does not allocate, instead `b` points to the same memory.
/// let b = a.clone();
///
/// assert_eq!(&a[..], b"hello");
/// assert_eq!(&b[..], b"hello");
/// ```
pub struct BytesMut {
    ptr: NonNull<u8>,
    len: usize,
    cap: usize,
    data: *mut Shared,
}

// Thread-safe reference-counted container for the shared storage. This mostly
// the same as `core::sync::Arc` but without the weak counter. The ref counting
// fns are based on the ones found in `std`.
//
// The main reason to use `Shared` instead of `core::sync::Arc` is that it ends
// up making the overall code simpler and easier to reason about. This is due to
// some of the logic around setting `Inner::arc` and other ways the `arc` field
// is used. Using `Arc` ended up requiring a number of funky transmutes and
// other shenanigans to make it work.
struct Shared {
    vec: Vec<u8>,
    original_capacity_repr: usize,
    ref_count: AtomicUsize,
}

impl Shared {
    fn init_to_raw(b: Box<MaybeUninit<Self>>, v: Self) -> *mut Self {
        let shared = Box::into_raw(b).cast::<Self>();
        // SAFETY: The Box has the right layout.
        unsafe { shared.write(v) };
        shared
    }
}

// Assert that the alignment of `Shared` is divisible by 2.
// This is a necessary invariant since we depend on allocating `Shared` a
// shared object to implicitly carry the `KIND_ARC` flag in its pointer.
// This flag is set when the LSB is 0.
const _: [(); 0 - mem::align_of::<Shared>() % 2] = []; // Assert that the alignment of `Shared` is divisible by 2.

// Buffer storage strategy flags.
const KIND_ARC: usize = 0b0;
const KIND_VEC: usize = 0b1;
const KIND_MASK: usize = 0b1;

// The max original capacity value. Any `Bytes` allocated with a greater initial
// capacity will default to this.
const MAX_ORIGINAL_CAPACITY_WIDTH: usize = 17;
// The original capacity algorithm will not take effect unless the originally
// allocated capacity was at least 1kb in size.
const MIN_ORIGINAL_CAPACITY_WIDTH: usize = 10;
// The original capacity is stored in powers of 2 starting at 1kb to a max of
// 64kb. Representing it as such requires only 3 bits of storage.
const ORIGINAL_CAPACITY_MASK: usize = 0b11100;
const ORIGINAL_CAPACITY_OFFSET: usize = 2;

const VEC_POS_OFFSET: usize = 5;
// When the storage is in the `Vec` representation, the pointer can be advanced
// at most this value. This is due to the amount of storage available to track
// the offset is usize - number of KIND bits and number of ORIGINAL_CAPACITY
// bits.
const MAX_VEC_POS: usize = usize::MAX >> VEC_POS_OFFSET;
const NOT_VEC_POS_MASK: usize = 0b11111;

#[cfg(target_pointer_width = "64")]
const PTR_WIDTH: usize = 64;
#[cfg(target_pointer_width = "32")]
const PTR_WIDTH: usize = 32;

/*
 *
 * ===== BytesMut =====
 *
 */

impl BytesMut {
    /// Creates a new `BytesMut` with the specified capacity.
    ///
    /// The returned `BytesMut` will be able to hold at least `capacity` bytes
    /// without reallocating.
    ///
    /// It is important to note that this function does not specify the length
    /// of the returned `BytesMut`, but only the capacity.
    ///
    /// # Examples
    ///
    /// ```
    /// use bytes::{BytesMut, BufMut};
    ///
    /// let mut bytes = BytesMut::with_capacity(64);
    ///
    /// // `bytes` contains no data, even though there is capacity
    /// assert_eq!(bytes.len(), 0);
    ///
    /// bytes.put(&b"hello world"[..]);
    ///
    /// assert_eq!(&bytes[..], b"hello world");
    /// ```
    #[inline]
    pub fn with_capacity(capacity: usize) -> BytesMut {
        BytesMut::from_vec(Vec::with_capacity(capacity))
    }

    /// Creates a new `BytesMut` with default capacity.
    ///
    /// Resulting object has length 0 and unspecified capacity.
    /// This function does not allocate.
    ///
    /// # Examples
    ///
    /// ```
    /// use bytes::{BytesMut, BufMut};
    ///
    /// let mut bytes = BytesMut::new();
    ///
    /// assert_eq!(0, bytes.len());
    ///
    /// bytes.reserve(2);
    /// bytes.put_slice(b"xy");
    ///
    /// assert_eq!(&b"xy"[..], &bytes[..]);
    /// ```
    #[inline]
    pub fn new() -> BytesMut {
        BytesMut::with_capacity(0)
    }

    /// Returns the number of bytes contained in this `BytesMut`.
    ///
    /// # Examples
    ///
    /// ```
    /// use bytes::BytesMut;
    ///
    /// let b = BytesMut::from(&b"hello"[..]);
    /// assert_eq!(b.len(), 5);
    /// ```
    #[inline]
    pub fn len(&self) -> usize {
        self.len
    }

    /// Returns true if the `BytesMut` has a length of 0.
    ///
    /// # Examples
    ///
    /// ```
    /// use bytes::BytesMut;
    ///
    /// let b = BytesMut::with_capacity(64);
    /// assert!(b.is_empty());
    /// ```
    #[inline]
    pub fn is_empty(&self) -> bool {
        self.len == 0
    }

    /// Returns the number of bytes the `BytesMut` can hold without reallocating.
    ///
    /// # Examples
    ///
    /// ```
    /// use bytes::BytesMut;
    ///
    /// let b = BytesMut::with_capacity(64);
    /// assert_eq!(b.capacity(), 64);
    /// ```
    #[inline]
    pub fn capacity(&self) -> usize {
        self.cap
    }

    /// Converts `self` into an immutable `Bytes`.
    ///
    /// The conversion is zero cost and is used to indicate that the slice
    /// referenced by the handle will no longer be mutated. Once the conversion
    /// is done, the handle can be cloned and shared across threads.
    ///
    /// # Examples
    ///
    /// ```ignore-wasm
    /// use bytes::{BytesMut, BufMut};
    /// use std::thread;
    ///
    /// let mut b = BytesMut::with_capacity(64);
    /// b.put(&b"hello world"[..]);
    /// let b1 = b.freeze();
    /// let b2 = b1.clone();
    ///
    /// let th = thread::spawn(move || {
    ///     assert_eq!(&b1[..], b"hello world");
    /// });
    ///
    /// assert_eq!(&b2[..], b"hello world");
    /// th.join().unwrap();
    /// ```
    #[inline]
    #[cfg(kani)]
    pub fn freeze(self) -> Bytes {
        // verif (cfg(kani) only): copy into leaked 'static storage (see bytes.rs)
        let v: Vec<u8> = self.as_ref().to_vec();
        Bytes::from(v)
    }

    #[cfg(not(kani))]
    pub fn freeze(self) -> Bytes {
        let bytes = ManuallyDrop::new(self);
        if bytes.kind() == KIND_VEC {
            // Just re-use `Bytes` internal Vec vtable
            unsafe {
                let off = bytes.get_vec_pos();
                let vec = rebuild_vec(bytes.ptr.as_ptr(), bytes.len, bytes.cap, off);
                let mut b: Bytes = vec.into();
                b.advance(off);
                b
            }
        } else {
            debug_assert_eq!(bytes.kind(), KIND_ARC);

            let ptr = bytes.ptr.as_ptr();
            let len = bytes.len;
            let data = AtomicPtr::new(bytes.data.cast());
            unsafe { Bytes::with_vtable(ptr, len, data, &SHARED_VTABLE) }
        }
    }

    /// Creates a new `BytesMut` containing `len` zeros.
    ///
    /// The resulting object has a length of `len` and a capacity greater
    /// than or equal to `len`. The entire length of the object will be filled
    /// with zeros.
    ///
    /// On some platforms or allocators this function may be faster than
    /// a manual implementation.
    ///
    /// # Examples
    ///
    /// ```
    /// use bytes::BytesMut;
    ///
    /// let zeros = BytesMut::zeroed(42);
    ///
    /// assert!(zeros.capacity() >= 42);
    /// assert_eq!(zeros.len(), 42);
    /// zeros.into_iter().for_each(|x| assert_eq!(x, 0));
    /// ```
    pub fn zeroed(len: usize) -> BytesMut {
        BytesMut::from_vec(vec![0; len])
    }

    /// Splits the bytes into two at the given index.
    ///
    /// Afterwards `self` contains elements `[0, at)`, and the returned
    /// `BytesMut` contains elements `[at, capacity)`. It's guaranteed that the
    /// memory does not move, that is, the address of `self` does not change,
    /// and the address of the returned slice is `at` bytes after that.
    ///
    /// This is an `O(1)` operation that just increases the reference count
    /// and sets a few indices.
    ///
    /// # Examples
    ///
    /// ```
    /// use bytes::BytesMut;
    ///
    /// let mut a = BytesMut::from(&b"hello world"[..]);
    /// let mut b = a.split_off(5);
    ///
    /// a[0] = b'j';
    /// b[0] = b'!';
    ///
    /// assert_eq!(&a[..], b"jello");
    /// assert_eq!(&b[..], b"!world");
    /// ```
    ///
    /// # Panics
    ///
    /// Panics if `at > capacity`.
    #[must_use = "consider BytesMut::truncate if you don't need the other half"]
    pub fn split_off(&mut self, at: usize) -> BytesMut {
        assert!(
            at <= self.capacity(),
            "split_off out of bounds: {:?} <= {:?}",
            at,
            self.capacity(),
        );
        unsafe {
            // SAFETY: `shallow_clone` increments the reference count (or
            // promotes to shared) and returns a bitwise copy of the handle.
            // The caller immediately adjusts both handles so they represent
            // disjoint regions.
            let mut other = self.shallow_clone();
            // SAFETY: We've checked that `at` <= `self.capacity()` above.
            other.advance_unchecked(at);
            self.cap = at;
            self.len = cmp::min(self.len, at);
            other
        }
    }

    /// Removes the bytes from the current view, returning them in a new
    /// `BytesMut` handle.
    ///
    /// Afterwards, `self` will be empty, but will retain any additional
    /// capacity that it had before the operation. This is identical to
    /// `self.split_to(self.len())`.
    ///
    /// This is an `O(1)` operation that just increases the reference count and
    /// sets a few indices.
    ///
    /// # Examples
    ///
    /// ```
    /// use bytes::{BytesMut, BufMut};
    ///
    /// let mut buf = BytesMut::with_capacity(1024);
    /// buf.put(&b"hello world"[..]);
    ///
    /// let other = buf.split();
    ///
    /// assert!(buf.is_empty());
    /// assert_eq!(1013, buf.capacity());
    ///
    /// assert_eq!(other, b"hello world"[..]);
    /// ```
    #[must_use = "consider BytesMut::clear if you don't need the other half"]
    pub fn split(&mut self) -> BytesMut {
        let len = self.len();
        self.split_to(len)
    }

    /// Splits the buffer into two at the given index.
    ///
    /// Afterwards `self` contains elements `[at, len)`, and the returned `BytesMut`
    /// contains elements `[0, at)`.
    ///
    /// This is an `O(1)` operation that just increases the reference count and
    /// sets a few indices.
    ///
    /// # Examples
    ///
    /// ```
    /// use bytes::BytesMut;
    ///
    /// let mut a = BytesMut::from(&b"hello world"[..]);
    /// let mut b = a.split_to(5);
    ///
    /// a[0] = b'!';
    /// b[0] = b'j';
    ///
    /// assert_eq!(&a[..], b"!world");
    /// assert_eq!(&b[..], b"jello");
    /// ```
    ///
    /// # Panics
    ///
    /// Panics if `at > len`.
    #[must_use = "consider BytesMut::advance if you don't need the other half"]
    pub fn split_to(&mut self, at: usize) -> BytesMut {
        assert!(
            at <= self.len(),
            "split_to out of bounds: {:?} <= {:?}",
            at,
            self.len(),
        );

        unsafe {
            // SAFETY: `shallow_clone` increments the reference count (or
            // promotes to shared) and returns a bitwise copy of the handle.
            // The caller immediately adjusts both handles so they represent
            // disjoint regions.
            let mut other = self.shallow_clone();
            // SAFETY: We've checked that `at` <= `self.len()` and we know that `self.len()` <=
            // `self.capacity()`.
            self.advance_unchecked(at);
            other.cap = at;
            other.len = at;
            other
        }
    }

    /// Shortens the buffer, keeping the first `len` bytes and dropping the
    /// rest.
    ///
    /// If `len` is greater than the buffer's current length, this has no
    /// effect.
    ///
    /// Existing underlying capacity is preserved.
    ///
    /// The [split_off](`Self::split_off()`) method can emulate `truncate`, but this causes the
    /// excess bytes to be returned instead of dropped.
    ///
    /// # Examples
    ///
    /// ```
    /// use bytes::BytesMut;
    ///
    /// let mut buf = BytesMut::from(&b"hello world"[..]);
    /// buf.truncate(5);
    /// assert_eq!(buf, b"hello"[..]);
    /// ```
    pub fn truncate(&mut self, len: usize) {
        if len <= self.len() {
            // SAFETY: Shrinking the buffer cannot expose uninitialized bytes.
            unsafe { self.set_len(len) };
        }
    }

    /// Clears the buffer, removing all data. Existing capacity is preserved.
    ///
    /// # Examples
    ///
    /// ```
    /// use bytes::BytesMut;
    ///
    /// let mut buf = BytesMut::from(&b"hello world"[..]);
    /// buf.clear();
    /// assert!(buf.is_empty());
    /// ```
    pub fn clear(&mut self) {
        // SAFETY: Setting the length to zero cannot expose uninitialized bytes.
        unsafe { self.set_len(0) };
    }

    /// Resizes the buffer so that `len` is equal to `new_len`.
    ///
    /// If `new_len` is greater than `len`, the buffer is extended by the
    /// difference with each additional byte set to `value`. If `new_len` is
    /// less than `len`, the buffer is simply truncated.
    ///
    /// # Examples
    ///
    /// ```
    /// use bytes::BytesMut;
    ///
    /// let mut buf = BytesMut::new();
    ///
    /// buf.resize(3, 0x1);
    /// assert_eq!(&buf[..], &[0x1, 0x1, 0x1]);
    ///
    /// buf.resize(2, 0x2);
    /// assert_eq!(&buf[..], &[0x1, 0x1]);
    ///
    /// buf.resize(4, 0x3);
    /// assert_eq!(&buf[..], &[0x1, 0x1, 0x3, 0x3]);
    /// ```
    pub fn resize(&mut self, new_len: usize, value: u8) {
        let additional = if let Some(additional) = new_len.checked_sub(self.len()) {
            additional
        } else {
            self.truncate(new_len);
            return;
        };

        if additional == 0 {
            return;
        }

        self.reserve(additional);
        let dst = self.spare_capacity_mut().as_mut_ptr();
        // SAFETY: `spare_capacity_mut` returns a valid, properly aligned pointer and we've
        // reserved enough space to write `additional` bytes.
        unsafe { ptr::write_bytes(dst, value, additional) };

        // SAFETY: There are at least `new_len` initialized bytes in the buffer so no
        // uninitialized bytes are being exposed.
        unsafe { self.set_len(new_len) };
    }

    /// Sets the length of the buffer.
    ///
    /// This will explicitly set the size of the buffer without actually
    /// modifying the data, so it is up to the caller to ensure that the data
    /// has been initialized.
    ///
    /// # Examples
    ///
    /// ```
    /// use bytes::BytesMut;
    ///
    /// let mut b = BytesMut::from(&b"hello world"[..]);
    ///
    /// unsafe {
    ///     b.set_len(5);
    /// }
    ///
    /// assert_eq!(&b[..], b"hello");
    ///
    /// unsafe {
    ///     b.set_len(11);
    /// }
    ///
    /// assert_eq!(&b[..], b"hello world");
    /// ```
    #[inline]
    pub unsafe fn set_len(&mut self, len: usize) {
        debug_assert!(len <= self.cap, "set_len out of bounds");
        self.len = len;
    }

    /// Reserves capacity for at least `additional` more bytes to be inserted
    /// into the given `BytesMut`.
    ///
    /// More than `additional` bytes may be reserved in order to avoid frequent
    /// reallocations. A call to `reserve` may result in an allocation.
    ///
    /// Before allocating new buffer space, the function will attempt to reclaim
    /// space in the existing buffer. If the current handle references a view
    /// into a larger original buffer, and all other handles referencing part
    /// of the same original buffer have been dropped, then the current view
    /// can be copied/shifted to the front of the buffer and the handle can take
    /// ownership of the full buffer, provided that the full buffer is large
    /// enough to fit the requested additional capacity.
    ///
    /// This optimization will only happen if shifting the data from the current
    /// view to the front of the buffer is not too expensive in terms of the
    /// (amortized) time required. The precise condition is subject to change;
    /// as of now, the length of the data being shifted needs to be at least as
    /// large as the distance that it's shifted by. If the current view is empty
    /// and the original buffer is large enough to fit the requested additional
    /// capacity, then reallocations will never happen.
    ///
    /// This method does not preserve data stored in the unused capacity.
    ///
    /// # Examples
    ///
    /// In the following example, a new buffer is allocated.
    ///
    /// ```
    /// use bytes::BytesMut;
    ///
    /// let mut buf = BytesMut::from(&b"hello"[..]);
    /// buf.reserve(64);
    /// assert!(buf.capacity() >= 69);
    /// ```
    ///
    /// In the following example, the existing buffer is reclaimed.
    ///
    /// ```
    /// use bytes::{BytesMut, BufMut};
    ///
    /// let mut buf = BytesMut::with_capacity(128);
    /// buf.put(&[0; 64][..]);
    ///
    /// let ptr = buf.as_ptr();
    /// let other = buf.split();
    ///
    /// assert!(buf.is_empty());
    /// assert_eq!(buf.capacity(), 64);
    ///
    /// drop(other);
    /// buf.reserve(128);
    ///
    /// assert_eq!(buf.capacity(), 128);
    /// assert_eq!(buf.as_ptr(), ptr);
    /// ```
    ///
    /// # Panics
    ///
    /// Panics if the new capacity overflows `usize`.
    #[inline]
    pub fn reserve(&mut self, additional: usize) {
        let len = self.len();
        let rem = self.capacity() - len;

        if additional <= rem {
            // The handle can already store at least `additional` more bytes, so
            // there is no further work needed to be done.
            return;
        }

        // will always succeed
        let _ = self.reserve_inner(additional, true);
    }

    // In separate function to allow the short-circuits in `reserve` and `try_reclaim` to
    // be inline-able. Significantly helps performance. Returns false if it did not succeed.
    fn reserve_inner(&mut self, additional: usize, allocate: bool) -> bool {
        let len = self.len();
        let kind = self.kind();

        if kind == KIND_VEC {
            // If there's enough free space before the start of the buffer, then
            // just copy the data backwards and reuse the already-allocated
            // space.
            //
            // Otherwise, since backed by a vector, use `Vec::reserve`
            //
            // We need to make sure that this optimization does not kill the
            // amortized runtimes of BytesMut's operations.
            unsafe {
                let off = self.get_vec_pos();

                // Only reuse space if we can satisfy the requested additional space.
                //
                // Also check if the value of `off` suggests that enough bytes
                // have been read to account for the overhead of shifting all
                // the data (in an amortized analysis).
                // Hence the condition `off >= self.len()`.
                //
                // This condition also already implies that the buffer is going
                // to be (at least) half-empty in the end; so we do not break
                // the (amortized) runtime with future resizes of the underlying
                // `Vec`.
                //
                // [For more details check issue #524, and PR #525.]
                if self.capacity() - self.len() + off >= additional && off >= self.len() {
                    // There's enough space, and it's not too much overhead:
                    // reuse the space!
                    //
                    // Just move the pointer back to the start after copying
                    // data back.
                    let base_ptr = self.ptr.as_ptr().sub(off);
                    // Since `off >= self.len()`, the two regions don't overlap.
                    ptr::copy_nonoverlapping(self.ptr.as_ptr(), base_ptr, self.len);
                    self.ptr = vptr(base_ptr);
                    self.set_vec_pos(0);

                    // Length stays constant, but since we moved backwards we
                    // can gain capacity back.
                    self.cap += off;
                } else {
                    if !allocate {
                        return false;
                    }
                    // Not enough space, or reusing might be too much overhead:
                    // allocate more space!
                    let mut v =
                        ManuallyDrop::new(rebuild_vec(self.ptr.as_ptr(), self.len, self.cap, off));
                    v.reserve(additional);

                    // Update the info
                    self.ptr = vptr(v.as_mut_ptr().add(off));
                    self.cap = v.capacity() - off;
                    debug_assert_eq!(self.len, v.len() - off);
                }

                return true;
            }
        }

        debug_assert_eq!(kind, KIND_ARC);
        let shared: *mut Shared = self.data;

        // Reserving involves abandoning the currently shared buffer and
        // allocating a new vector with the requested capacity.
        //
        // Compute the new capacity
        let mut new_cap = match len.checked_add(additional) {
            Some(new_cap) => new_cap,
            None if !allocate => return false,
            None => panic!("overflow"),
        };

        unsafe {
            // First, try to reclaim the buffer. This is possible if the current
            // handle is the only outstanding handle pointing to the buffer.
            if (*shared).is_unique() {
                // This is the only handle to the buffer. It can be reclaimed.
                // However, before doing the work of copying data, check to make
                // sure that the vector has enough capacity.
                let v = &mut (*shared).vec;

                let v_capacity = v.capacity();
                let ptr = v.as_mut_ptr();

                let offset = self.ptr.as_ptr().offset_from(ptr) as usize;

                let new_cap_plus_offset = match new_cap.checked_add(offset) {
                    Some(new_cap_plus_offset) => new_cap_plus_offset,
                    None if !allocate => return false,
                    None => panic!("overflow"),
                };

                // Compare the condition in the `kind == KIND_VEC` case above
                // for more details.
                if v_capacity >= new_cap_plus_offset {
                    self.cap = new_cap;
                    // no copy is necessary
                } else if v_capacity >= new_cap && offset >= len {
                    // The capacity is sufficient, and copying is not too much
                    // overhead: reclaim the buffer!

                    // `offset >= len` means: no overlap
                    ptr::copy_nonoverlapping(self.ptr.as_ptr(), ptr, len);

                    self.ptr = vptr(ptr);
                    self.cap = v.capacity();
                } else {
                    if !allocate {
                        return false;
                    }

                    // new_cap is calculated in terms of `BytesMut`, not the underlying
                    // `Vec`, so it does not take the offset into account.
                    //
                    // Thus we have to manually add it here.
                    new_cap = new_cap_plus_offset;

                    // The vector capacity is not sufficient. The reserve request is
                    // asking for more than the initial buffer capacity. Allocate more
                    // than requested if `new_cap` is not much bigger than the current
                    // capacity.
                    //
                    // There are some situations, using `reserve_exact` that the
                    // buffer capacity could be below `original_capacity`, so do a
                    // check.
                    let double = v.capacity().checked_shl(1).unwrap_or(new_cap);

                    new_cap = cmp::max(double, new_cap);

                    // No space - allocate more
                    //
                    // The length field of `Shared::vec` is not used by the `BytesMut`;
                    // instead we use the `len` field in the `BytesMut` itself. However,
                    // when calling `reserve`, it doesn't guarantee that data stored in
                    // the unused capacity of the vector is copied over to the new
                    // allocation, so we need to ensure that we don't have any data we
                    // care about in the unused capacity before calling `reserve`.
                    debug_assert!(offset + len <= v.capacity());
                    v.set_len(offset + len);
                    v.reserve(new_cap - v.len());

                    // Update the info
                    self.ptr = vptr(v.as_mut_ptr().add(offset));
                    self.cap = v.capacity() - offset;
                }

                return true;
            }
        }
        if !allocate {
            return false;
        }

        let original_capacity_repr = unsafe { (*shared).original_capacity_repr };
        let original_capacity = original_capacity_from_repr(original_capacity_repr);

        new_cap = cmp::max(new_cap, original_capacity);

        // Create a new vector to store the data
        let mut v = ManuallyDrop::new(Vec::with_capacity(new_cap));

        // Copy the bytes
        v.extend_from_slice(self.as_ref());

        // Release the shared handle. This must be done *after* the bytes are
        // copied.
        unsafe { release_shared(shared) };

        // Update self
        let data = (original_capacity_repr << ORIGINAL_CAPACITY_OFFSET) | KIND_VEC;
        self.data = invalid_ptr(data);
        self.ptr = vptr(v.as_mut_ptr());
        self.cap = v.capacity();
        debug_assert_eq!(self.len, v.len());
        true
    }

    /// Attempts to cheaply reclaim already allocated capacity for at least `additional` more
    /// bytes to be inserted into the given `BytesMut` and returns `true` if it succeeded.
    ///
    /// `try_reclaim` behaves exactly like `reserve`, except that it never allocates new storage
    /// and returns a `bool` indicating whether it was successful in doing so:
    ///
    /// `try_reclaim` returns false under these conditions:
    ///  - The spare capacity left is less than `additional` bytes AND
    ///  - The existing allocation cannot be reclaimed cheaply or it was less than
    ///    `additional` bytes in size
    ///
    /// Reclaiming the allocation cheaply is possible if the `BytesMut` has no outstanding
    /// references through other `BytesMut`s or `Bytes` which point to the same underlying
    /// storage.
    ///
    /// This method does not preserve data stored in the unused capacity.
    ///
    /// # Examples
    ///
    /// ```
    /// use bytes::BytesMut;
    ///
    /// let mut buf = BytesMut::with_capacity(64);
    /// assert_eq!(true, buf.try_reclaim(64));
    /// assert_eq!(64, buf.capacity());
    ///
    /// buf.extend_from_slice(b"abcd");
    /// let mut split = buf.split();
    /// assert_eq!(60, buf.capacity());
    /// assert_eq!(4, split.capacity());
    /// assert_eq!(false, split.try_reclaim(64));
    /// assert_eq!(false, buf.try_reclaim(64));
    /// // The split buffer is filled with "abcd"
    /// assert_eq!(false, split.try_reclaim(4));
    /// // buf is empty and has capacity for 60 bytes
    /// assert_eq!(true, buf.try_reclaim(60));
    ///
    /// drop(buf);
    /// assert_eq!(false, split.try_reclaim(64));
    ///
    /// split.clear();
    /// assert_eq!(4, split.capacity());
    /// assert_eq!(true, split.try_reclaim(64));
    /// assert_eq!(64, split.capacity());
    /// ```
    // I tried splitting out try_reclaim_inner after the short circuits, but it was inlined
    // regardless with Rust 1.78.0 so probably not worth it
    #[inline]
    #[must_use = "consider BytesMut::reserve if you need an infallible reservation"]
    pub fn try_reclaim(&mut self, additional: usize) -> bool {
        let len = self.len();
        let rem = self.capacity() - len;

        if additional <= rem {
            // The handle can already store at least `additional` more bytes, so
            // there is no further work needed to be done.
            return true;
        }

        self.reserve_inner(additional, false)
    }

    /// Appends given bytes to this `BytesMut`.
    ///
    /// If this `BytesMut` object does not have enough capacity, it is resized
    /// first.
    ///
    /// # Examples
    ///
    /// ```
    /// use bytes::BytesMut;
    ///
    /// let mut buf = BytesMut::with_capacity(0);
    /// buf.extend_from_slice(b"aaabbb");
    /// buf.extend_from_slice(b"cccddd");
    ///
    /// assert_eq!(b"aaabbbcccddd", &buf[..]);
    /// ```
    #[inline]
    pub fn extend_from_slice(&mut self, extend: &[u8]) {
        let cnt = extend.len();
        self.reserve(cnt);

        unsafe {
            let dst = self.spare_capacity_mut();
            // Reserved above
            debug_assert!(dst.len() >= cnt);

            ptr::copy_nonoverlapping(extend.as_ptr(), dst.as_mut_ptr().cast(), cnt);
        }

        unsafe {
            self.advance_mut(cnt);
        }
    }

    /// Clones the elements in the given `range` within this `BytesMut` and
    /// appends them to the end.
    ///
    /// # Panics
    ///
    /// Panics if `range` is out of bounds for this `BytesMut`.
    ///
    /// # Examples
    ///
    /// ```
    /// use bytes::BytesMut;
    ///
    /// let mut buf = BytesMut::with_capacity(0);
    /// buf.extend_from_slice(b"aaabbb_");
    /// buf.extend_from_within(3..6);
    ///
    /// assert_eq!(b"aaabbb_bbb", &buf[..]);
    /// ```
    pub fn extend_from_within(&mut self, range: impl core::ops::RangeBounds<usize>) {
        let (begin, end) = crate::range(range, self.len());

        let cnt = end - begin;
        self.reserve(cnt);

        // SAFETY: range is already checked
        let src = unsafe { self.as_ptr().add(begin) };
        let dst = self.spare_capacity_mut();

        // SAFETY: range doesn't overlap with spare capacity
        unsafe { ptr::copy_nonoverlapping(src, dst.as_mut_ptr().cast(), cnt) }

        // SAFETY: capacity is already reserved and filled with data
        unsafe { self.advance_mut(cnt) }
    }

    /// Absorbs a `BytesMut` that was previously split off if they are
    /// contiguous, otherwise appends its bytes to this `BytesMut`.
    ///
    /// If the two `BytesMut` objects were previously contiguous and not mutated
    /// in a way that causes re-allocation i.e., if `other` was created by
    /// calling `split_off` on this `BytesMut`, then this is an `O(1)` operation
    /// that just decreases a reference count and sets a few indices.
    /// Otherwise this method degenerates to
    /// `self.extend_from_slice(other.as_ref())`.
    ///
    /// # Examples
    ///
    /// ```
    /// use bytes::BytesMut;
    ///
    /// let mut buf = BytesMut::with_capacity(64);
    /// buf.extend_from_slice(b"aaabbbcccddd");
    ///
    /// let split = buf.split_off(6);
    /// assert_eq!(b"aaabbb", &buf[..]);
    /// assert_eq!(b"cccddd", &split[..]);
    ///
    /// buf.unsplit(split);
    /// assert_eq!(b"aaabbbcccddd", &buf[..]);
    /// ```
    pub fn unsplit(&mut self, other: BytesMut) {
        if self.is_empty() {
            *self = other;
            return;
        }

        if let Err(other) = self.try_unsplit(other) {
            self.extend_from_slice(other.as_ref());
        }
    }

    // private

    // For now, use a `Vec` to manage the memory for us, but we may want to
    // change that in the future to some alternate allocator strategy.
    //
    // Thus, we don't expose an easy way to construct from a `Vec` since an
    // internal change could make a simple pattern (`BytesMut::from(vec)`)
    // suddenly a lot more expensive.
    #[inline]
    pub(crate) fn from_vec(vec: Vec<u8>) -> BytesMut {
        let mut vec = ManuallyDrop::new(vec);
        let ptr = vptr(vec.as_mut_ptr());
        let len = vec.len();
        let cap = vec.capacity();

        let original_capacity_repr = original_capacity_to_repr(cap);
        let data = (original_capacity_repr << ORIGINAL_CAPACITY_OFFSET) | KIND_VEC;

        BytesMut {
            ptr,
            len,
            cap,
            data: invalid_ptr(data),
        }
    }

    #[inline]
    fn as_slice(&self) -> &[u8] {
        unsafe { slice::from_raw_parts(self.ptr.as_ptr(), self.len) }
    }

    #[inline]
    fn as_slice_mut(&mut self) -> &mut [u8] {
        unsafe { slice::from_raw_parts_mut(self.ptr.as_ptr(), self.len) }
    }

    /// Advance the buffer without bounds checking.
    ///
    /// # SAFETY
    ///
    /// The caller must ensure that `count` <= `self.cap`.
    pub(crate) unsafe fn advance_unchecked(&mut self, count: usize) {
        // Setting the start to 0 is a no-op, so return early if this is the
        // case.
        if count == 0 {
            return;
        }

        debug_assert!(count <= self.cap, "internal: set_start out of bounds");

        let kind = self.kind();

        if kind == KIND_VEC {
            // Setting the start when in vec representation is a little more
            // complicated. First, we have to track how far ahead the
            // "start" of the byte buffer from the beginning of the vec. We
            // also have to ensure that we don't exceed the maximum shift.
            let pos = self.get_vec_pos() + count;

            if pos <= MAX_VEC_POS {
                self.set_vec_pos(pos);
            } else {
                // The repr must be upgraded to ARC. This will never happen
                // on 64 bit systems and will only happen on 32 bit systems
                // when shifting past 134,217,727 bytes. As such, we don't
                // worry too much about performance here.
                self.promote_to_shared(/*ref_count = */ 1);
            }
        }

        // Updating the start of the view is setting `ptr` to point to the
        // new start and updating the `len` field to reflect the new length
        // of the view.
        self.ptr = vptr(self.ptr.as_ptr().add(count));
        self.len = self.len.saturating_sub(count);
        self.cap -= count;
    }

    /// Absorbs a `BytesMut` that was previously split off.
    ///
    /// If the two `BytesMut` objects were previously contiguous, i.e., if
    /// `other` was created by calling `split_off` on this `BytesMut`, then
    /// this is an `O(1)` operation that just decreases a reference
    /// count and sets a few indices. Otherwise this method returns an error
    /// containing the original `other`.
    ///
    /// # Examples
    ///
    /// ```
    /// use bytes::BytesMut;
    ///
    /// let mut buf = BytesMut::with_capacity(64);
    /// buf.extend_from_slice(b"aaabbbcccddd");
    ///
    /// let mut split_1 = buf.split_off(3);
    /// let split_2 = split_1.split_off(3);
    /// assert_eq!(b"aaa", &buf[..]);
    /// assert_eq!(b"bbb", &split_1[..]);
    /// assert_eq!(b"cccddd", &split_2[..]);
    ///
    /// let split_2 = buf.try_unsplit(split_2).unwrap_err();
    ///
    /// buf.try_unsplit(split_1).unwrap();
    /// buf.try_unsplit(split_2).unwrap();
    /// assert_eq!(b"aaabbbcccddd", &buf[..]);
    /// ```
    pub fn try_unsplit(&mut self, other: BytesMut) -> Result<(), BytesMut> {
        if other.capacity() == 0 {
            return Ok(());
        }

        let ptr = unsafe { self.ptr.as_ptr().add(self.len) };
        if ptr == other.ptr.as_ptr()
            && self.kind() == KIND_ARC
            && other.kind() == KIND_ARC
            && self.data == other.data
        {
            // Contiguous blocks, just combine directly
            self.len += other.len;
            self.cap += other.cap;
            Ok(())
        } else {
            Err(other)
        }
    }

    #[inline]
    fn kind(&self) -> usize {
        self.data as usize & KIND_MASK
    }

    unsafe fn promote_to_shared(&mut self, ref_cnt: usize) {
        debug_assert_eq!(self.kind(), KIND_VEC);
        debug_assert!(ref_cnt == 1 || ref_cnt == 2);

        let original_capacity_repr =
            (self.data as usize & ORIGINAL_CAPACITY_MASK) >> ORIGINAL_CAPACITY_OFFSET;

        // The vec offset cannot be concurrently mutated, so there
        // should be no danger reading it.
        let off = (self.data as usize) >> VEC_POS_OFFSET;

        // First, allocate a new `Shared` instance containing the
        // `Vec` fields. It's important to note that `ptr`, `len`,
        // and `cap` cannot be mutated without having `&mut self`.
        // This means that these fields will not be concurrently
        // updated and since the buffer hasn't been promoted to an
        // `Arc`, those three fields still are the components of the
        // vector.
        //
        // Explicitly allocate before invoking rebuild_vec() so that
        // the vector is not dropped if Box::new() panics.
        let shared = Box::new(MaybeUninit::<Shared>::uninit());
        let shared = Shared::init_to_raw(
            shared,
            Shared {
                vec: rebuild_vec(self.ptr.as_ptr(), self.len, self.cap, off),
                original_capacity_repr,
                ref_count: AtomicUsize::new(ref_cnt),
            },
        );

        // The pointer should be aligned, so this assert should
        // always succeed.
        debug_assert_eq!(shared as usize & KIND_MASK, KIND_ARC);

        self.data = shared;
    }

    /// Makes an exact shallow clone of `self`.
    ///
    /// The kind of `self` doesn't matter, but this is unsafe
    /// because the clone will have the same offsets. You must
    /// be sure the returned value to the user doesn't allow
    /// two views into the same range.
    #[inline]
    unsafe fn shallow_clone(&mut self) -> BytesMut {
        if self.kind() == KIND_ARC {
            increment_shared(self.data);
            ptr::read(self)
        } else {
            self.promote_to_shared(/*ref_count = */ 2);
            ptr::read(self)
        }
    }

    #[inline]
    unsafe fn get_vec_pos(&self) -> usize {
        debug_assert_eq!(self.kind(), KIND_VEC);

        self.data as usize >> VEC_POS_OFFSET
    }

    #[inline]
    unsafe fn set_vec_pos(&mut self, pos: usize) {
        debug_assert_eq!(self.kind(), KIND_VEC);
        debug_assert!(pos <= MAX_VEC_POS);

        self.data = invalid_ptr((pos << VEC_POS_OFFSET) | (self.data as usize & NOT_VEC_POS_MASK));
    }

    /// Returns the remaining spare capacity of the buffer as a slice of `MaybeUninit<u8>`.
    ///
    /// The returned slice can be used to fill the buffer with data (e.g. by
    /// reading from a file) before marking the data as initialized using the
    /// [`set_len`] method.
    ///
    /// [`set_len`]: BytesMut::set_len
    ///
    /// # Examples
    ///
    /// ```
    /// use bytes::BytesMut;
    ///
    /// // Allocate buffer big enough for 10 bytes.
    /// let mut buf = BytesMut::with_capacity(10);
    ///
    /// // Fill in the first 3 elements.
    /// let uninit = buf.spare_capacity_mut();
    /// uninit[0].write(0);
    /// uninit[1].write(1);
    /// uninit[2].write(2);
    ///
    /// // Mark the first 3 bytes of the buffer as being initialized.
    /// unsafe {
    ///     buf.set_len(3);
    /// }
    ///
    /// assert_eq!(&buf[..], &[0, 1, 2]);
    /// ```
    #[inline]
    pub fn spare_capacity_mut(&mut self) -> &mut [MaybeUninit<u8>] {
        unsafe {
            let ptr = self.ptr.as_ptr().add(self.len);
            let len = self.cap - self.len;

            slice::from_raw_parts_mut(ptr.cast(), len)
        }
    }
}

impl Drop for BytesMut {
    fn drop(&mut self) {
        let kind = self.kind();

        if kind == KIND_VEC {
            unsafe {
                let off = self.get_vec_pos();

                // Vector storage, free the vector
                let _ = rebuild_vec(self.ptr.as_ptr(), self.len, self.cap, off);
            }
        } else if kind == KIND_ARC {
            unsafe { release_shared(self.data) };
        }
    }
}

impl Buf for BytesMut {
    #[inline]
    fn remaining(&self) -> usize {
        self.len()
    }

    #[inline]
    fn chunk(&self) -> &[u8] {
        self.as_slice()
    }

    #[inline]
    fn advance(&mut self, cnt: usize) {
        assert!(
            cnt <= self.remaining(),
            "cannot advance past `remaining`: {:?} <= {:?}",
            cnt,
            self.remaining(),
        );
        unsafe {
            // SAFETY: We've checked that `cnt` <= `self.remaining()` and we know that
            // `self.remaining()` <= `self.cap`.
            self.advance_unchecked(cnt);
        }
    }

    fn copy_to_bytes(&mut self, len: usize) -> Bytes {
        self.split_to(len).freeze()
    }
}

unsafe impl BufMut for BytesMut {
    #[inline]
    fn remaining_mut(&self) -> usize {
        // Max allocation size is isize::MAX.
        isize::MAX as usize - self.len()
    }

    #[inline]
    unsafe fn advance_mut(&mut self, cnt: usize) {
        let remaining = self.cap - self.len();
        if cnt > remaining {
            super::panic_advance(&TryGetError {
                requested: cnt,
                available: remaining,
            });
        }
        // Addition won't overflow since it is at most `self.cap`.
        self.len = self.len() + cnt;
    }

    #[inline]
    fn chunk_mut(&mut self) -> &mut UninitSlice {
        if self.capacity() == self.len() {
            self.reserve(64);
        }
        self.spare_capacity_mut().into()
    }

    // Specialize these methods so they can skip checking `remaining_mut`
    // and `advance_mut`.

    fn put<T: Buf>(&mut self, mut src: T)
    where
        Self: Sized,
    {
        if !src.has_remaining() {
            // prevent calling `copy_to_bytes`->`put`->`copy_to_bytes` infintely when src is empty
            return;
        } else if self.capacity() == 0 {
            // When capacity is zero, try reusing allocation of `src`.
            let src_copy = src.copy_to_bytes(src.remaining());
            drop(src);
            match src_copy.try_into_mut() {
                Ok(bytes_mut) => *self = bytes_mut,
                Err(bytes) => self.extend_from_slice(&bytes),
            }
        } else {
            // In case the src isn't contiguous, reserve upfront.
            self.reserve(src.remaining());

            while src.has_remaining() {
                let s = src.chunk();
                let l = s.len();
                self.extend_from_slice(s);
                src.advance(l);
            }
        }
    }

    fn put_slice(&mut self, src: &[u8]) {
        self.extend_from_slice(src);
    }

    fn put_bytes(&mut self, val: u8, cnt: usize) {
        self.reserve(cnt);
        unsafe {
            let dst = self.spare_capacity_mut();
            // Reserved above
            debug_assert!(dst.len() >= cnt);

            ptr::write_bytes(dst.as_mut_ptr(), val, cnt);

            self.advance_mut(cnt);
        }
    }
}

impl AsRef<[u8]> for BytesMut {
    #[inline]
    fn as_ref(&self) -> &[u8] {
        self.as_slice()
    }
}

impl Deref for BytesMut {
    type Target = [u8];

    #[inline]
    fn deref(&self) -> &[u8] {
        self.as_ref()
    }
}

impl AsMut<[u8]> for BytesMut {
    #[inline]
    fn as_mut(&mut self) -> &mut [u8] {
        self.as_slice_mut()
    }
}

impl DerefMut for BytesMut {
    #[inline]
    fn deref_mut(&mut self) -> &mut [u8] {
        self.as_mut()
    }
}

impl<'a> From<&'a [u8]> for BytesMut {
    fn from(src: &'a [u8]) -> BytesMut {
        BytesMut::from_vec(src.to_vec())
    }
}

impl<'a> From<&'a str> for BytesMut {
    fn from(src: &'a str) -> BytesMut {
        BytesMut::from(src.as_bytes())
    }
}

impl From<BytesMut> for Bytes {
    fn from(src: BytesMut) -> Bytes {
        src.freeze()
    }
}

impl PartialEq for BytesMut {
    fn eq(&self, other: &BytesMut) -> bool {
        self.as_slice() == other.as_slice()
    }
}

impl PartialOrd for BytesMut {
    fn partial_cmp(&self, other: &BytesMut) -> Option<cmp::Ordering> {
        Some(self.cmp(other))
    }
}

impl Ord for BytesMut {
    fn cmp(&self, other: &BytesMut) -> cmp::Ordering {
        self.as_slice().cmp(other.as_slice())
    }
}

impl Eq for BytesMut {}

impl Default for BytesMut {
    #[inline]
    fn default() -> BytesMut {
        BytesMut::new()
    }
}

impl hash::Hash for BytesMut {
    fn hash<H>(&self, state: &mut H)
    where
        H: hash::Hasher,
    {
        let s: &[u8] = self.as_ref();
        s.hash(state);
    }
}

impl Borrow<[u8]> for BytesMut {
    fn borrow(&self) -> &[u8] {
        self.as_ref()
    }
}

impl BorrowMut<[u8]> for BytesMut {
    fn borrow_mut(&mut self) -> &mut [u8] {
        self.as_mut()
    }
}

impl fmt::Write for BytesMut {
    #[inline]
    fn write_str(&mut self, s: &str) -> fmt::Result {
        if self.remaining_mut() >= s.len() {
            self.put_slice(s.as_bytes());
            Ok(())
        } else {
            Err(fmt::Error)
        }
    }

    #[inline]
    fn write_fmt(&mut self, args: fmt::Arguments<'_>) -> fmt::Result {
        fmt::write(self, args)
    }
}

impl Clone for BytesMut {
    fn clone(&self) -> BytesMut {
        BytesMut::from(&self[..])
    }
}

impl IntoIterator for BytesMut {
    type Item = u8;
    type IntoIter = IntoIter<BytesMut>;

    fn into_iter(self) -> Self::IntoIter {
        IntoIter::new(self)
    }
}

impl<'a> IntoIterator for &'a BytesMut {
    type Item = &'a u8;
    type IntoIter = core::slice::Iter<'a, u8>;

    fn into_iter(self) -> Self::IntoIter {
        self.as_ref().iter()
    }
}

impl Extend<u8> for BytesMut {
    fn extend<T>(&mut self, iter: T)
    where
        T: IntoIterator<Item = u8>,
    {
        let iter = iter.into_iter();

        let (lower, _) = iter.size_hint();
        self.reserve(lower);

        // TODO: optimize
        // 1. If self.kind() == KIND_VEC, use Vec::extend
        for b in iter {
            self.put_u8(b);
        }
    }
}

impl<'a> Extend<&'a u8> for BytesMut {
    fn extend<T>(&mut self, iter: T)
    where
        T: IntoIterator<Item = &'a u8>,
    {
        self.extend(iter.into_iter().copied())
    }
}

impl Extend<Bytes> for BytesMut {
    fn extend<T>(&mut self, iter: T)
    where
        T: IntoIterator<Item = Bytes>,
    {
        for bytes in iter {
            self.extend_from_slice(&bytes)
        }
    }
}

impl FromIterator<u8> for BytesMut {
    fn from_iter<T: IntoIterator<Item = u8>>(into_iter: T) -> Self {
        BytesMut::from_vec(Vec::from_iter(into_iter))
    }
}

impl<'a> FromIterator<&'a u8> for BytesMut {
    fn from_iter<T: IntoIterator<Item = &'a u8>>(into_iter: T) -> Self {
        BytesMut::from_iter(into_iter.into_iter().copied())
    }
}

/*
 *
 * ===== Inner =====
 *
 */

unsafe fn increment_shared(ptr: *mut Shared) {
    let old_size = (*ptr).ref_count.fetch_add(1, Ordering::Relaxed);

    if old_size > isize::MAX as usize {
        crate::abort();
    }
}

unsafe fn release_shared(ptr: *mut Shared) {
    // `Shared` storage... follow the drop steps from Arc.
    if (*ptr).ref_count.fetch_sub(1, Ordering::Release) != 1 {
        return;
    }

    // This fence is needed to prevent reordering of use of the data and
    // deletion of the data.  Because it is marked `Release`, the decreasing
    // of the reference count synchronizes with this `Acquire` fence. This
    // means that use of the data happens before decreasing the reference
    // count, which happens before this fence, which happens before the
    // deletion of the data.
    //
    // As explained in the [Boost documentation][1],
    //
    // > It is important to enforce any possible access to the object in one
    // > thread (through an existing reference) to *happen before* deleting
    // > the object in a different thread. This is achieved by a "release"
    // > operation after dropping a reference (any access to the object
    // > through this reference must obviously happened before), and an
    // > "acquire" operation before deleting the object.
    //
    // [1]: (www.boost.org/doc/libs/1_55_0/doc/html/atomic/usage_examples.html)
    //
    // Thread sanitizer does not support atomic fences. Use an atomic load
    // instead.
    (*ptr).ref_count.load(Ordering::Acquire);

    // Drop the data
    drop(Box::from_raw(ptr));
}

impl Shared {
    fn is_unique(&self) -> bool {
        // The goal is to check if the current handle is the only handle
        // that currently has access to the buffer. This is done by
        // checking if the `ref_count` is currently 1.
        //
        // The `Acquire` ordering synchronizes with the `Release` as
        // part of the `fetch_sub` in `release_shared`. The `fetch_sub`
        // operation guarantees that any mutations done in other threads
        // are ordered before the `ref_count` is decremented. As such,
        // this `Acquire` will guarantee that those mutations are
        // visible to the current thread.
        self.ref_count.load(Ordering::Acquire) == 1
    }
}

#[inline]
fn original_capacity_to_repr(cap: usize) -> usize {
    let width = PTR_WIDTH - ((cap >> MIN_ORIGINAL_CAPACITY_WIDTH).leading_zeros() as usize);
    cmp::min(
        width,
        MAX_ORIGINAL_CAPACITY_WIDTH - MIN_ORIGINAL_CAPACITY_WIDTH,
    )
}

fn original_capacity_from_repr(repr: usize) -> usize {
    if repr == 0 {
        return 0;
    }

    1 << (repr + (MIN_ORIGINAL_CAPACITY_WIDTH - 1))
}

#[cfg(test)]
mod tests {
    use super::*;

    #[test]
    fn test_original_capacity_to_repr() {
        assert_eq!(original_capacity_to_repr(0), 0);

        let max_width = 32;

        for width in 1..(max_width + 1) {
            let cap = 1 << width - 1;

            let expected = if width < MIN_ORIGINAL_CAPACITY_WIDTH {
                0
            } else if width < MAX_ORIGINAL_CAPACITY_WIDTH {
                width - MIN_ORIGINAL_CAPACITY_WIDTH
            } else {
                MAX_ORIGINAL_CAPACITY_WIDTH - MIN_ORIGINAL_CAPACITY_WIDTH
            };

            assert_eq!(original_capacity_to_repr(cap), expected);

            if width > 1 {
                assert_eq!(original_capacity_to_repr(cap + 1), expected);
            }

            //  MIN_ORIGINAL_CAPACITY_WIDTH must be bigger than 7 to pass tests below
            if width == MIN_ORIGINAL_CAPACITY_WIDTH + 1 {
                assert_eq!(original_capacity_to_repr(cap - 24), expected - 1);
                assert_eq!(original_capacity_to_repr(cap + 76), expected);
            } else if width == MIN_ORIGINAL_CAPACITY_WIDTH + 2 {
                assert_eq!(original_capacity_to_repr(cap - 1), expected - 1);
                assert_eq!(original_capacity_to_repr(cap - 48), expected - 1);
            }
        }
    }

    #[test]
    fn test_original_capacity_from_repr() {
        assert_eq!(0, original_capacity_from_repr(0));

        let min_cap = 1 << MIN_ORIGINAL_CAPACITY_WIDTH;

        assert_eq!(min_cap, original_capacity_from_repr(1));
        assert_eq!(min_cap * 2, original_capacity_from_repr(2));
        assert_eq!(min_cap * 4, original_capacity_from_repr(3));
        assert_eq!(min_cap * 8, original_capacity_from_repr(4));
        assert_eq!(min_cap * 16, original_capacity_from_repr(5));
        assert_eq!(min_cap * 32, original_capacity_from_repr(6));
        assert_eq!(min_cap * 64, original_capacity_from_repr(7));
    }
}

unsafe impl Send for BytesMut {}
unsafe impl Sync for BytesMut {}

/*
 *
 * ===== PartialEq / PartialOrd =====
 *
 */

impl PartialEq<[u8]> for BytesMut {
    fn eq(&self, other: &[u8]) -> bool {
        &**self == other
    }
}

impl PartialOrd<[u8]> for BytesMut {
    fn partial_cmp(&self, other: &[u8]) -> Option<cmp::Ordering> {
        (**self).partial_cmp(other)
    }
}

impl PartialEq<BytesMut> for [u8] {
    fn eq(&self, other: &BytesMut) -> bool {
        *other == *self
    }
}

impl PartialOrd<BytesMut> for [u8] {
    fn partial_cmp(&self, other: &BytesMut) -> Option<cmp::Ordering> {
        <[u8] as PartialOrd<[u8]>>::partial_cmp(self, other)
    }
}

impl PartialEq<str> for BytesMut {
    fn eq(&self, other: &str) -> bool {
        &**self == other.as_bytes()
    }
}

impl PartialOrd<str> for BytesMut {
    fn partial_cmp(&self, other: &str) -> Option<cmp::Ordering> {
        (**self).partial_cmp(other.as_bytes())
    }
}

impl PartialEq<BytesMut> for str {
    fn eq(&self, other: &BytesMut) -> bool {
        *other == *self
    }
}

impl PartialOrd<BytesMut> for str {
    fn partial_cmp(&self, other: &BytesMut) -> Option<cmp::Ordering> {
        <[u8] as PartialOrd<[u8]>>::partial_cmp(self.as_bytes(), other)
    }
}

impl PartialEq<Vec<u8>> for BytesMut {
    fn eq(&self, other: &Vec<u8>) -> bool {
        *self == other[..]
    }
}

impl PartialOrd<Vec<u8>> for BytesMut {
    fn partial_cmp(&self, other: &Vec<u8>) -> Option<cmp::Ordering> {
        (**self).partial_cmp(&other[..])
    }
}

impl PartialEq<BytesMut> for Vec<u8> {
    fn eq(&self, other: &BytesMut) -> bool {
        *other == *self
    }
}

impl PartialOrd<BytesMut> for Vec<u8> {
    fn partial_cmp(&self, other: &BytesMut) -> Option<cmp::Ordering> {
        other.partial_cmp(self)
    }
}

impl PartialEq<String> for BytesMut {
    fn eq(&self, other: &String) -> bool {
        *self == other[..]
    }
}

impl PartialOrd<String> for BytesMut {
    fn partial_cmp(&self, other: &String) -> Option<cmp::Ordering> {
        (**self).partial_cmp(other.as_bytes())
    }
}

impl PartialEq<BytesMut> for String {
    fn eq(&self, other: &BytesMut) -> bool {
        *other == *self
    }
}

impl PartialOrd<BytesMut> for String {
    fn partial_cmp(&self, other: &BytesMut) -> Option<cmp::Ordering> {
        <[u8] as PartialOrd<[u8]>>::partial_cmp(self.as_bytes(), other)
    }
}

impl<'a, T: ?Sized> PartialEq<&'a T> for BytesMut
where
    BytesMut: PartialEq<T>,
{
    fn eq(&self, other: &&'a T) -> bool {
        *self == **other
    }
}

impl<'a, T: ?Sized> PartialOrd<&'a T> for BytesMut
where
    BytesMut: PartialOrd<T>,
{
    fn partial_cmp(&self, other: &&'a T) -> Option<cmp::Ordering> {
        self.partial_cmp(*other)
    }
}

impl PartialEq<BytesMut> for &[u8] {
    fn eq(&self, other: &BytesMut) -> bool {
        *other == *self
    }
}

impl PartialOrd<BytesMut> for &[u8] {
    fn partial_cmp(&self, other: &BytesMut) -> Option<cmp::Ordering> {
        <[u8] as PartialOrd<[u8]>>::partial_cmp(self, other)
    }
}

impl PartialEq<BytesMut> for &str {
    fn eq(&self, other: &BytesMut) -> bool {
        *other == *self
    }
}

impl PartialOrd<BytesMut> for &str {
    fn partial_cmp(&self, other: &BytesMut) -> Option<cmp::Ordering> {
        other.partial_cmp(self)
    }
}

impl PartialEq<BytesMut> for Bytes {
    fn eq(&self, other: &BytesMut) -> bool {
        other[..] == self[..]
    }
}

impl PartialEq<Bytes> for BytesMut {
    fn eq(&self, other: &Bytes) -> bool {
        other[..] == self[..]
    }
}

impl From<BytesMut> for Vec<u8> {
    fn from(bytes: BytesMut) -> Self {
        let kind = bytes.kind();
        let bytes = ManuallyDrop::new(bytes);

        let mut vec = if kind == KIND_VEC {
            unsafe {
                let off = bytes.get_vec_pos();
                rebuild_vec(bytes.ptr.as_ptr(), bytes.len, bytes.cap, off)
            }
        } else {
            let shared = bytes.data;

            if unsafe { (*shared).is_unique() } {
                let vec = core::mem::take(unsafe { &mut (*shared).vec });

                unsafe { release_shared(shared) };

                vec
            } else {
                return ManuallyDrop::into_inner(bytes).deref().to_vec();
            }
        };

        let len = bytes.len;

        unsafe {
            ptr::copy(bytes.ptr.as_ptr(), vec.as_mut_ptr(), len);
            vec.set_len(len);
        }

        vec
    }
}

#[inline]
fn vptr(ptr: *mut u8) -> NonNull<u8> {
    if cfg!(debug_assertions) {
        NonNull::new(ptr).expect("Vec pointer should be non-null")
    } else {
        unsafe { NonNull::new_unchecked(ptr) }
    }
}

/// Returns a dangling pointer with the given address. This is used to store
/// integer data in pointer fields.
///
/// It is equivalent to `addr as *mut T`, but this fails on miri when strict
/// provenance checking is enabled.
#[inline]
fn invalid_ptr<T>(addr: usize) -> *mut T {
    let ptr = core::ptr::null_mut::<u8>().wrapping_add(addr);
    debug_assert_eq!(ptr as usize, addr);
    ptr.cast::<T>()
}

unsafe fn rebuild_vec(ptr: *mut u8, mut len: usize, mut cap: usize, off: usize) -> Vec<u8> {
    let ptr = ptr.sub(off);
    len += off;
    cap += off;

    Vec::from_raw_parts(ptr, len, cap)
}

// ===== impl SharedVtable =====

static SHARED_VTABLE: Vtable = Vtable {
    clone: shared_v_clone,
    into_vec: shared_v_to_vec,
    into_mut: shared_v_to_mut,
    is_unique: shared_v_is_unique,
    drop: shared_v_drop,
};

unsafe fn shared_v_clone(data: &AtomicPtr<()>, ptr: *const u8, len: usize) -> Bytes {
    let shared = data.load(Ordering::Relaxed) as *mut Shared;
    increment_shared(shared);

    let data = AtomicPtr::new(shared as *mut ());
    Bytes::with_vtable(ptr, len, data, &SHARED_VTABLE)
}

unsafe fn shared_v_to_vec(shared: *mut (), ptr: *const u8, len: usize) -> Vec<u8> {
    let shared: *mut Shared = shared.cast();

    if (*shared).is_unique() {
        let shared = &mut *shared;

        // Drop shared
        let mut vec = core::mem::take(&mut shared.vec);
        release_shared(shared);

        // Copy back buffer
        ptr::copy(ptr, vec.as_mut_ptr(), len);
        vec.set_len(len);

        vec
    } else {
        let v = slice::from_raw_parts(ptr, len).to_vec();
        release_shared(shared);
        v
    }
}

unsafe fn shared_v_to_mut(shared: *mut (), ptr: *const u8, len: usize) -> BytesMut {
    let shared: *mut Shared = shared.cast();

    if (*shared).is_unique() {
        let shared = &mut *shared;

        // The capacity is always the original capacity of the buffer
        // minus the offset from the start of the buffer
        let v = &mut shared.vec;
        let v_capacity = v.capacity();
        let v_ptr = v.as_mut_ptr();
        let offset = ptr.offset_from(v_ptr) as usize;
        let cap = v_capacity - offset;

        let ptr = vptr(ptr as *mut u8);

        BytesMut {
            ptr,
            len,
            cap,
            data: shared,
        }
    } else {
        let v = slice::from_raw_parts(ptr, len).to_vec();
        release_shared(shared);
        BytesMut::from_vec(v)
    }
}

unsafe fn shared_v_is_unique(data: &AtomicPtr<()>) -> bool {
    let shared = data.load(Ordering::Acquire);
    let ref_count = (*shared.cast::<Shared>()).ref_count.load(Ordering::Relaxed);
    ref_count == 1
}

unsafe fn shared_v_drop(shared: *mut (), _ptr: *const u8, _len: usize) {
    release_shared(shared.cast());
}

// compile-fails

/// ```compile_fail
/// use bytes::BytesMut;
/// #[deny(unused_must_use)]
/// {
///     let mut b1 = BytesMut::from("hello world");
///     b1.split_to(6);
/// }
/// ```
fn _split_to_must_use() {}

/// ```compile_fail
/// use bytes::BytesMut;
/// #[deny(unused_must_use)]
/// {
///     let mut b1 = BytesMut::from("hello world");
///     b1.split_off(6);
/// }
/// ```
fn _split_off_must_use() {}

/// ```compile_fail
/// use bytes::BytesMut;
/// #[deny(unused_must_use)]
/// {
///     let mut b1 = BytesMut::from("hello world");
///     b1.split();
/// }
/// ```
fn _split_must_use() {}

// fuzz tests
#[cfg(all(test, loom))]
mod fuzz {
    use loom::sync::Arc;
    use loom::thread;

    use super::BytesMut;
    use crate::Bytes;

    #[test]
    fn bytes_mut_cloning_frozen() {
        loom::model(|| {
            let a = BytesMut::from(&b"abcdefgh"[..]).split().freeze();
            let addr = a.as_ptr() as usize;

            // test the Bytes::clone is Sync by putting it in an Arc
            let a1 = Arc::new(a);
            let a2 = a1.clone();

            let t1 = thread::spawn(move || {
                let b: Bytes = (*a1).clone();
                assert_eq!(b.as_ptr() as usize, addr);
            });

            let t2 = thread::spawn(move || {
                let b: Bytes = (*a2).clone();
                assert_eq!(b.as_ptr() as usize, addr);
            });

            t1.join().unwrap();
            t2.join().unwrap();
        });
    }
}
