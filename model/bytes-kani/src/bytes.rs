use core::mem::{self, ManuallyDrop, MaybeUninit};
use core::ops::{Deref, RangeBounds};
use core::ptr::NonNull;
use core::{cmp, fmt, hash, ptr, slice};

use alloc::{
    alloc::{dealloc, Layout},
    borrow::Borrow,
    boxed::Box,
    string::String,
    vec::Vec,
};

use crate::buf::IntoIter;
#[allow(unused)]
use crate::loom::sync::atomic::AtomicMut;
use crate::loom::sync::atomic::{AtomicPtr, AtomicUsize, Ordering};
use crate::{Buf, BytesMut};

/// A cheaply cloneable and sliceable chunk of contiguous memory.
///
/// `Bytes` is an efficient container for storing and operating on contiguous
/// slices of memory. It is intended for use primarily in networking code, but
/// could have applications elsewhere as well.
///
/// `Bytes` values facilitate zero-copy network programming by allowing multiple
/// `Bytes` objects to point to the same underlying memory.
///
/// `Bytes` does not have a single implementation. It is an interface, whose
/// exact behavior is implemented through dynamic dispatch in several underlying
/// implementations of `Bytes`.
///
/// All `Bytes` implementations must fulfill the following requirements:
/// - They are cheaply cloneable and thereby shareable between an unlimited amount
///   of components, for example by modifying a reference count.
/// - Instances can be sliced to refer to a subset of the original buffer.
///
/// ```
/// use bytes::Bytes;
///
/// let mut mem = Bytes::from("Hello world");
/// let a = mem.slice(0..5);
///
/// assert_eq!(a, "Hello");
///
/// let b = mem.split_to(6);
///
/// assert_eq!(mem, "world");
/// assert_eq!(b, "Hello ");
/// ```
///
/// # Memory layout
///
/// The `Bytes` struct itself is fairly small, limited to 4 `usize` fields used
/// to track information about which segment of the underlying memory the
/// `Bytes` handle has access to.
///
/// `Bytes` keeps both a pointer to the shared state containing the full memory
/// slice and a pointer to the start of the region visible by the handle.
/// `Bytes` also tracks the length of its view into the memory.
///
/// # Sharing
///
/// `Bytes` contains a vtable, which allows implementations of `Bytes` to define
/// how sharing/cloning is implemented in detail.
/// When `Bytes::clone()` is called, `Bytes` will call the vtable function for
/// cloning the backing storage in order to share it behind multiple `Bytes`
/// instances.
///
/// For `Bytes` implementations which refer to constant memory (e.g. created
/// via `Bytes::from_static()`) the cloning implementation will be a no-op.
///
/// For `Bytes` implementations which point to a reference counted shared storage
/// (e.g. an `Arc<[u8]>`), sharing will be implemented by increasing the
/// reference count.
///
/// Due to this mechanism, multiple `Bytes` instances may point to the same
/// shared memory region.
/// Each `Bytes` instance can point to different sections within that
/// memory region, and `Bytes` instances may or may not have overlapping views
/// into the memory.
///
/// The following diagram visualizes a scenario where 2 `Bytes` instances make
/// use of an `Arc`-based backing storage, and provide access to different views:
///
/// ```text
///
///    Arc ptrs                   ┌─────────┐
///    ________________________ / │ Bytes 2 │
///   /                           └─────────┘
///  /          ┌───────────┐     |         |
/// |_________/ │  Bytes 1  │     |         |
/// |           └───────────┘     |         |
/// |           |           | ___/ data     | tail
/// |      data |      tail |/              |
/// v           v           v               v
/// ┌─────┬─────┬───────────┬───────────────┬─────┐
/// │ Arc │     │           │               │     │
/// └─────┴─────┴───────────┴───────────────┴─────┘
/// ```
pub struct Bytes {
    ptr: *const u8,
    len: usize,
    // inlined "trait object"
    data: AtomicPtr<()>,
    vtable: &'static Vtable,
}

// `data` is passed by value (`*mut ()` instead of `&mut AtomicPtr<()>`)
// when `&mut self` or `self` is consumed.
// This allows the optimizer to see that the address of the `Bytes` is not
// captured by the indirect call, enabling further optimizations.
pub(crate) struct Vtable {
    /// fn(data, ptr, len)
    pub clone: unsafe fn(&AtomicPtr<()>, *const u8, usize) -> Bytes,
    /// fn(data, ptr, len)
    ///
    /// `into_*` consumes the `Bytes`, returning the respective value.
    pub into_vec: unsafe fn(*mut (), *const u8, usize) -> Vec<u8>,
    pub into_mut: unsafe fn(*mut (), *const u8, usize) -> BytesMut,
    /// fn(data)
    pub is_unique: unsafe fn(&AtomicPtr<()>) -> bool,
    /// fn(data, ptr, len)
    pub drop: unsafe fn(*mut (), *const u8, usize),
}

impl Bytes {
    /// Creates a new empty `Bytes`.
    ///
    /// This will not allocate and the returned `Bytes` handle will be empty.
    ///
    /// # Examples
    ///
    /// ```
    /// use bytes::Bytes;
    ///
    /// let b = Bytes::new();
    /// assert_eq!(&b[..], b"");
    /// ```
    #[inline]
    #[cfg(not(all(loom, test)))]
    pub const fn new() -> Self {
        // Make it a named const to work around
        // "unsizing casts are not allowed in const fn"
        const EMPTY: &[u8] = &[];
        Bytes::from_static(EMPTY)
    }

    /// Creates a new empty `Bytes`.
    #[cfg(all(loom, test))]
    pub fn new() -> Self {
        const EMPTY: &[u8] = &[];
        Bytes::from_static(EMPTY)
    }

    /// Creates a new `Bytes` from a static slice.
    ///
    /// The returned `Bytes` will point directly to the static slice. There is
    /// no allocating or copying.
    ///
    /// # Examples
    ///
    /// ```
    /// use bytes::Bytes;
    ///
    /// let b = Bytes::from_static(b"hello");
    /// assert_eq!(&b[..], b"hello");
    /// ```
    #[inline]
    #[cfg(not(all(loom, test)))]
    pub const fn from_static(bytes: &'static [u8]) -> Self {
        Bytes {
            ptr: bytes.as_ptr(),
            len: bytes.len(),
            data: AtomicPtr::new(ptr::null_mut()),
            vtable: &STATIC_VTABLE,
        }
    }

    /// Creates a new `Bytes` from a static slice.
    #[cfg(all(loom, test))]
    pub fn from_static(bytes: &'static [u8]) -> Self {
        Bytes {
            ptr: bytes.as_ptr(),
            len: bytes.len(),
            data: AtomicPtr::new(ptr::null_mut()),
            vtable: &STATIC_VTABLE,
        }
    }

    /// Creates a new `Bytes` with length zero and the given pointer as the address.
    fn new_empty_with_ptr(ptr: *const u8) -> Self {
        debug_assert!(!ptr.is_null());

        // Detach this pointer's provenance from whichever allocation it came from, and reattach it
        // to the provenance of the fake ZST [u8;0] at the same address.
        // verif (cfg(kani) only): keep the provenance (an integer-to-pointer round trip is what
        // CBMC's pointer model cannot follow; an empty handle never dereferences `ptr`).
        #[cfg(not(kani))]
        let ptr = without_provenance(ptr as usize);

        Bytes {
            ptr,
            len: 0,
            data: AtomicPtr::new(ptr::null_mut()),
            vtable: &STATIC_VTABLE,
        }
    }

    /// Create [Bytes] with a buffer whose lifetime is controlled
    /// via an explicit owner.
    ///
    /// A common use case is to zero-copy construct from mapped memory.
    ///
    /// ```
    /// # struct File;
    /// #
    /// # impl File {
    /// #     pub fn open(_: &str) -> Result<Self, ()> {
    /// #         Ok(Self)
    /// #     }
    /// # }
    /// #
    /// # mod memmap2 {
    /// #     pub struct Mmap;
    /// #
    /// #     impl Mmap {
    /// #         pub unsafe fn map(_file: &super::File) -> Result<Self, ()> {
    /// #             Ok(Self)
    /// #         }
    /// #     }
    /// #
    /// #     impl AsRef<[u8]> for Mmap {
    /// #         fn as_ref(&self) -> &[u8] {
    /// #             b"buf"
    /// #         }
    /// #     }
    /// # }
    /// use bytes::Bytes;
    /// use memmap2::Mmap;
    ///
    /// # fn main() -> Result<(), ()> {
    /// let file = File::open("upload_bundle.tar.gz")?;
    /// let mmap = unsafe { Mmap::map(&file) }?;
    /// let b = Bytes::from_owner(mmap);
    /// # Ok(())
    /// # }
    /// ```
    ///
    /// The `owner` will be transferred to the constructed [Bytes] object, which
    /// will ensure it is dropped once all remaining clones of the constructed
    /// object are dropped. The owner will then be responsible for dropping the
    /// specified region of memory as part of its [Drop] implementation.
    ///
    /// Note that converting [Bytes] constructed from an owner into a [BytesMut]
    /// will always create a deep copy of the buffer into newly allocated memory.
    pub fn from_owner<T>(owner: T) -> Self
    where
        T: AsRef<[u8]> + Send + 'static,
    {
        // Safety & Miri:
        // The ownership of `owner` is first transferred to the `Owned` wrapper and `Bytes` object.
        // This ensures that the owner is pinned in memory, allowing us to call `.as_ref()` safely
        // since the lifetime of the owner is controlled by the lifetime of the new `Bytes` object,
        // and the lifetime of the resulting borrowed `&[u8]` matches that of the owner.
        // Note that this remains safe so long as we only call `.as_ref()` once.
        //
        // There are some additional special considerations here:
        //   * We rely on Bytes's Drop impl to clean up memory should `.as_ref()` panic.
        //   * Setting the `ptr` and `len` on the bytes object last (after moving the owner to
        //     Bytes) allows Miri checks to pass since it avoids obtaining the `&[u8]` slice
        //     from a stack-owned Box.
        // More details on this: https://github.com/tokio-rs/bytes/pull/742/#discussion_r1813375863
        //                  and: https://github.com/tokio-rs/bytes/pull/742/#discussion_r1813316032

        let owned = Box::into_raw(Box::new(Owned {
            ref_cnt: AtomicUsize::new(1),
            owner,
        }));

        let mut ret = Bytes {
            ptr: NonNull::dangling().as_ptr(),
            len: 0,
            data: AtomicPtr::new(owned.cast()),
            vtable: &Owned::<T>::VTABLE,
        };

        let buf = unsafe { &*owned }.owner.as_ref();
        ret.ptr = buf.as_ptr();
        ret.len = buf.len();

        ret
    }

    /// Returns the number of bytes contained in this `Bytes`.
    ///
    /// # Examples
    ///
    /// ```
    /// use bytes::Bytes;
    ///
    /// let b = Bytes::from(&b"hello"[..]);
    /// assert_eq!(b.len(), 5);
    /// ```
    #[inline]
    pub const fn len(&self) -> usize {
        self.len
    }

    /// Returns true if the `Bytes` has a length of 0.
    ///
    /// # Examples
    ///
    /// ```
    /// use bytes::Bytes;
    ///
    /// let b = Bytes::new();
    /// assert!(b.is_empty());
    /// ```
    #[inline]
    pub const fn is_empty(&self) -> bool {
        self.len == 0
    }

    /// Returns true if this is the only reference to the data and
    /// `Into<BytesMut>` would avoid cloning the underlying buffer.
    ///
    /// Always returns false if the data is backed by a [static slice](Bytes::from_static),
    /// or an [owner](Bytes::from_owner).
    ///
    /// The result of this method may be invalidated immediately if another
    /// thread clones this value while this is being called. Ensure you have
    /// unique access to this value (`&mut Bytes`) first if you need to be
    /// certain the result is valid (i.e. for safety reasons).
    /// # Examples
    ///
    /// ```
    /// use bytes::Bytes;
    ///
    /// let a = Bytes::from(vec![1, 2, 3]);
    /// assert!(a.is_unique());
    /// let b = a.clone();
    /// assert!(!a.is_unique());
    /// ```
    pub fn is_unique(&self) -> bool {
        #[cfg(kani)]
        {
            return false;
        }
        #[cfg(not(kani))]
        unsafe {
            (self.vtable.is_unique)(&self.data)
        }
    }

    /// Creates `Bytes` instance from slice, by copying it.
    pub fn copy_from_slice(data: &[u8]) -> Self {
        data.to_vec().into()
    }

    /// Returns a slice of self for the provided range.
    ///
    /// This will increment the reference count for the underlying memory and
    /// return a new `Bytes` handle set to the slice.
    ///
    /// This operation is `O(1)`.
    ///
    /// # Examples
    ///
    /// ```
    /// use bytes::Bytes;
    ///
    /// let a = Bytes::from(&b"hello world"[..]);
    /// let b = a.slice(2..5);
    ///
    /// assert_eq!(&b[..], b"llo");
    /// ```
    ///
    /// # Panics
    ///
    /// Requires that `begin <= end` and `end <= self.len()`, otherwise slicing
    /// will panic.
    pub fn slice(&self, range: impl RangeBounds<usize>) -> Self {
        let (begin, end) = crate::range(range, self.len());

        if end == begin {
            return Bytes::new_empty_with_ptr(self.ptr.wrapping_add(begin));
        }

        let mut ret = self.clone();

        ret.len = end - begin;
        ret.ptr = unsafe { ret.ptr.add(begin) };

        ret
    }

    /// Returns a slice of self that is equivalent to the given `subset`.
    ///
    /// When processing a `Bytes` buffer with other tools, one often gets a
    /// `&[u8]` which is in fact a slice of the `Bytes`, i.e. a subset of it.
    /// This function turns that `&[u8]` into another `Bytes`, as if one had
    /// called `self.slice()` with the offsets that correspond to `subset`.
    ///
    /// This operation is `O(1)`.
    ///
    /// # Examples
    ///
    /// ```
    /// use bytes::Bytes;
    ///
    /// let bytes = Bytes::from(&b"012345678"[..]);
    /// let as_slice = bytes.as_ref();
    /// let subset = &as_slice[2..6];
    /// let subslice = bytes.slice_ref(&subset);
    /// assert_eq!(&subslice[..], b"2345");
    /// ```
    ///
    /// # Panics
    ///
    /// Requires that the given `sub` slice is in fact contained within the
    /// `Bytes` buffer; otherwise this function will panic.
    pub fn slice_ref(&self, subset: &[u8]) -> Self {
        // Empty slice and empty Bytes may have their pointers reset
        // so explicitly allow empty slice to be a subslice of any slice.
        if subset.is_empty() {
            return Bytes::new();
        }

        let bytes_p = self.as_ptr() as usize;
        let bytes_len = self.len();

        let sub_p = subset.as_ptr() as usize;
        let sub_len = subset.len();

        assert!(
            sub_p >= bytes_p,
            "subset pointer ({:p}) is smaller than self pointer ({:p})",
            subset.as_ptr(),
            self.as_ptr(),
        );
        assert!(
            sub_p + sub_len <= bytes_p + bytes_len,
            "subset is out of bounds: self = ({:p}, {}), subset = ({:p}, {})",
            self.as_ptr(),
            bytes_len,
            subset.as_ptr(),
            sub_len,
        );

        let sub_offset = sub_p - bytes_p;

        self.slice(sub_offset..(sub_offset + sub_len))
    }

    /// Splits the bytes into two at the given index.
    ///
    /// Afterwards `self` contains elements `[0, at)`, and the returned `Bytes`
    /// contains elements `[at, len)`. It's guaranteed that the memory does not
    /// move, that is, the address of `self` does not change, and the address of
    /// the returned slice is `at` bytes after that.
    ///
    /// This is an `O(1)` operation that just increases the reference count and
    /// sets a few indices.
    ///
    /// # Examples
    ///
    /// ```
    /// use bytes::Bytes;
    ///
    /// let mut a = Bytes::from(&b"hello world"[..]);
    /// let b = a.split_off(5);
    ///
    /// assert_eq!(&a[..], b"hello");
    /// assert_eq!(&b[..], b" world");
    /// ```
    ///
    /// # Panics
    ///
    /// Panics if `at > len`.
    #[must_use = "consider Bytes::truncate if you don't need the other half"]
    pub fn split_off(&mut self, at: usize) -> Self {
        if at == self.len() {
            return Bytes::new_empty_with_ptr(self.ptr.wrapping_add(at));
        }

        if at == 0 {
            return mem::replace(self, Bytes::new_empty_with_ptr(self.ptr));
        }

        // verif: under cfg(kani) the message arguments are dropped (run-time fmt::Arguments
        // construction on a panic path dominates symbolic execution); the condition is unchanged.
        #[cfg(kani)]
        assert!(at <= self.len(), "split_off out of bounds");
        #[cfg(not(kani))]
        assert!(
            at <= self.len(),
            "split_off out of bounds: {:?} <= {:?}",
            at,
            self.len(),
        );

        let mut ret = self.clone();

        self.len = at;

        // SAFETY: `at` has been asserted to be <= `self.len()`, and the
        // `at == self.len()` and `at == 0` cases were handled above.
        unsafe { ret.inc_start(at) };

        ret
    }

    /// Splits the bytes into two at the given index.
    ///
    /// Afterwards `self` contains elements `[at, len)`, and the returned
    /// `Bytes` contains elements `[0, at)`.
    ///
    /// This is an `O(1)` operation that just increases the reference count and
    /// sets a few indices.
    ///
    /// # Examples
    ///
    /// ```
    /// use bytes::Bytes;
    ///
    /// let mut a = Bytes::from(&b"hello world"[..]);
    /// let b = a.split_to(5);
    ///
    /// assert_eq!(&a[..], b" world");
    /// assert_eq!(&b[..], b"hello");
    /// ```
    ///
    /// # Panics
    ///
    /// Panics if `at > len`.
    #[must_use = "consider Bytes::advance if you don't need the other half"]
    pub fn split_to(&mut self, at: usize) -> Self {
        if at == self.len() {
            let end_ptr = self.ptr.wrapping_add(at);
            return mem::replace(self, Bytes::new_empty_with_ptr(end_ptr));
        }

        if at == 0 {
            return Bytes::new_empty_with_ptr(self.ptr);
        }

        #[cfg(kani)]
        assert!(at <= self.len(), "split_to out of bounds");
        #[cfg(not(kani))]
        assert!(
            at <= self.len(),
            "split_to out of bounds: {:?} <= {:?}",
            at,
            self.len(),
        );

        let mut ret = self.clone();

        // SAFETY: `at` has been asserted to be <= `self.len()`, and the
        // `at == self.len()` and `at == 0` cases were handled above.
        unsafe { self.inc_start(at) };

        ret.len = at;
        ret
    }

    /// Shortens the buffer, keeping the first `len` bytes and dropping the
    /// rest.
    ///
    /// If `len` is greater than the buffer's current length, this has no
    /// effect.
    ///
    /// The [split_off](`Self::split_off()`) method can emulate `truncate`, but this causes the
    /// excess bytes to be returned instead of dropped.
    ///
    /// # Examples
    ///
    /// ```
    /// use bytes::Bytes;
    ///
    /// let mut buf = Bytes::from(&b"hello world"[..]);
    /// buf.truncate(5);
    /// assert_eq!(buf, b"hello"[..]);
    /// ```
    #[inline]
    pub fn truncate(&mut self, len: usize) {
        if len < self.len {
            // The Vec "promotable" vtables do not store the capacity,
            // so we cannot truncate while using this repr. We *have* to
            // promote using `split_off` so the capacity can be stored.
            if self.vtable as *const Vtable == &PROMOTABLE_EVEN_VTABLE
                || self.vtable as *const Vtable == &PROMOTABLE_ODD_VTABLE
            {
                drop(self.split_off(len));
            } else {
                self.len = len;
            }
        }
    }

    /// Clears the buffer, removing all data.
    ///
    /// # Examples
    ///
    /// ```
    /// use bytes::Bytes;
    ///
    /// let mut buf = Bytes::from(&b"hello world"[..]);
    /// buf.clear();
    /// assert!(buf.is_empty());
    /// ```
    #[inline]
    pub fn clear(&mut self) {
        self.truncate(0);
    }

    /// Try to convert self into `BytesMut`.
    ///
    /// If `self` is unique for the entire original buffer, this will succeed
    /// and return a `BytesMut` with the contents of `self` without copying.
    /// If `self` is not unique for the entire original buffer, this will fail
    /// and return self.
    ///
    /// This will also always fail if the buffer was constructed via either
    /// [from_owner](Bytes::from_owner) or [from_static](Bytes::from_static).
    ///
    /// # Examples
    ///
    /// ```
    /// use bytes::{Bytes, BytesMut};
    ///
    /// let bytes = Bytes::from(b"hello".to_vec());
    /// assert_eq!(bytes.try_into_mut(), Ok(BytesMut::from(&b"hello"[..])));
    /// ```
    pub fn try_into_mut(self) -> Result<BytesMut, Bytes> {
        if self.is_unique() {
            Ok(self.into())
        } else {
            Err(self)
        }
    }

    #[inline]
    pub(crate) unsafe fn with_vtable(
        ptr: *const u8,
        len: usize,
        data: AtomicPtr<()>,
        vtable: &'static Vtable,
    ) -> Bytes {
        Bytes {
            ptr,
            len,
            data,
            vtable,
        }
    }

    // private

    #[inline]
    fn as_slice(&self) -> &[u8] {
        unsafe { slice::from_raw_parts(self.ptr, self.len) }
    }

    #[inline]
    unsafe fn inc_start(&mut self, by: usize) {
        // should already be asserted, but debug assert for tests
        debug_assert!(self.len >= by, "internal: inc_start out of bounds");
        self.len -= by;
        self.ptr = self.ptr.add(by);
    }

    #[inline]
    fn data_mut(&mut self) -> *mut () {
        self.data.with_mut(|p| *p)
    }
}

// Vtable must enforce this behavior
unsafe impl Send for Bytes {}
unsafe impl Sync for Bytes {}

impl Drop for Bytes {
    #[inline]
    #[cfg(not(kani))]
    fn drop(&mut self) {
        let data = self.data_mut();
        unsafe { (self.vtable.drop)(data, self.ptr, self.len) }
    }
    // verif (cfg(kani) only): every Bytes is backed by 'static (or leaked) storage, so dropping a
    // handle releases nothing. Removes the indirect call through the hand-written vtable.
    #[cfg(kani)]
    fn drop(&mut self) {}
}

impl Clone for Bytes {
    #[inline]
    #[cfg(not(kani))]
    fn clone(&self) -> Bytes {
        unsafe { (self.vtable.clone)(&self.data, self.ptr, self.len) }
    }
    #[cfg(kani)]
    fn clone(&self) -> Bytes {
        unsafe { static_clone(&self.data, self.ptr, self.len) }
    }
}

impl Buf for Bytes {
    #[inline]
    fn remaining(&self) -> usize {
        self.len()
    }

    #[inline]
    fn chunk(&self) -> &[u8] {
        self.as_slice()
    }

    #[inline]
    fn advance(&mut self, cnt: usize) {
        #[cfg(kani)]
        assert!(cnt <= self.len(), "cannot advance past `remaining`");
        #[cfg(not(kani))]
        assert!(
            cnt <= self.len(),
            "cannot advance past `remaining`: {:?} <= {:?}",
            cnt,
            self.len(),
        );

        unsafe {
            self.inc_start(cnt);
        }
    }

    fn copy_to_bytes(&mut self, len: usize) -> Self {
        self.split_to(len)
    }
}

impl Deref for Bytes {
    type Target = [u8];

    #[inline]
    fn deref(&self) -> &[u8] {
        self.as_slice()
    }
}

impl AsRef<[u8]> for Bytes {
    #[inline]
    fn as_ref(&self) -> &[u8] {
        self.as_slice()
    }
}

impl hash::Hash for Bytes {
    fn hash<H>(&self, state: &mut H)
    where
        H: hash::Hasher,
    {
        self.as_slice().hash(state);
    }
}

impl Borrow<[u8]> for Bytes {
    fn borrow(&self) -> &[u8] {
        self.as_slice()
    }
}

impl IntoIterator for Bytes {
    type Item = u8;
    type IntoIter = IntoIter<Bytes>;

    fn into_iter(self) -> Self::IntoIter {
        IntoIter::new(self)
    }
}

impl<'a> IntoIterator for &'a Bytes {
    type Item = &'a u8;
    type IntoIter = core::slice::Iter<'a, u8>;

    fn into_iter(self) -> Self::IntoIter {
        self.as_slice().iter()
    }
}

impl FromIterator<u8> for Bytes {
    fn from_iter<T: IntoIterator<Item = u8>>(into_iter: T) -> Self {
        Vec::from_iter(into_iter).into()
    }
}

// impl Eq

impl PartialEq for Bytes {
    fn eq(&self, other: &Bytes) -> bool {
        self.as_slice() == other.as_slice()
    }
}

impl PartialOrd for Bytes {
    fn partial_cmp(&self, other: &Bytes) -> Option<cmp::Ordering> {
        Some(self.cmp(other))
    }
}

impl Ord for Bytes {
    fn cmp(&self, other: &Bytes) -> cmp::Ordering {
        self.as_slice().cmp(other.as_slice())
    }
}

impl Eq for Bytes {}

impl PartialEq<[u8]> for Bytes {
    fn eq(&self, other: &[u8]) -> bool {
        self.as_slice() == other
    }
}

impl PartialOrd<[u8]> for Bytes {
    fn partial_cmp(&self, other: &[u8]) -> Option<cmp::Ordering> {
        self.as_slice().partial_cmp(other)
    }
}

impl PartialEq<Bytes> for [u8] {
    fn eq(&self, other: &Bytes) -> bool {
        *other == *self
    }
}

impl PartialOrd<Bytes> for [u8] {
    fn partial_cmp(&self, other: &Bytes) -> Option<cmp::Ordering> {
        <[u8] as PartialOrd<[u8]>>::partial_cmp(self, other)
    }
}

impl PartialEq<str> for Bytes {
    fn eq(&self, other: &str) -> bool {
        self.as_slice() == other.as_bytes()
    }
}

impl PartialOrd<str> for Bytes {
    fn partial_cmp(&self, other: &str) -> Option<cmp::Ordering> {
        self.as_slice().partial_cmp(other.as_bytes())
    }
}

impl PartialEq<Bytes> for str {
    fn eq(&self, other: &Bytes) -> bool {
        *other == *self
    }
}

impl PartialOrd<Bytes> for str {
    fn partial_cmp(&self, other: &Bytes) -> Option<cmp::Ordering> {
        <[u8] as PartialOrd<[u8]>>::partial_cmp(self.as_bytes(), other)
    }
}

impl PartialEq<Vec<u8>> for Bytes {
    fn eq(&self, other: &Vec<u8>) -> bool {
        *self == other[..]
    }
}

impl PartialOrd<Vec<u8>> for Bytes {
    fn partial_cmp(&self, other: &Vec<u8>) -> Option<cmp::Ordering> {
        self.as_slice().partial_cmp(&other[..])
    }
}

impl PartialEq<Bytes> for Vec<u8> {
    fn eq(&self, other: &Bytes) -> bool {
        *other == *self
    }
}

impl PartialOrd<Bytes> for Vec<u8> {
    fn partial_cmp(&self, other: &Bytes) -> Option<cmp::Ordering> {
        <[u8] as PartialOrd<[u8]>>::partial_cmp(self, other)
    }
}

impl PartialEq<String> for Bytes {
    fn eq(&self, other: &String) -> bool {
        *self == other[..]
    }
}

impl PartialOrd<String> for Bytes {
    fn partial_cmp(&self, other: &String) -> Option<cmp::Ordering> {
        self.as_slice().partial_cmp(other.as_bytes())
    }
}

impl PartialEq<Bytes> for String {
    fn eq(&self, other: &Bytes) -> bool {
        *other == *self
    }
}

impl PartialOrd<Bytes> for String {
    fn partial_cmp(&self, other: &Bytes) -> Option<cmp::Ordering> {
        <[u8] as PartialOrd<[u8]>>::partial_cmp(self.as_bytes(), other)
    }
}

impl PartialEq<Bytes> for &[u8] {
    fn eq(&self, other: &Bytes) -> bool {
        *other == *self
    }
}

impl PartialOrd<Bytes> for &[u8] {
    fn partial_cmp(&self, other: &Bytes) -> Option<cmp::Ordering> {
        <[u8] as PartialOrd<[u8]>>::partial_cmp(self, other)
    }
}

impl PartialEq<Bytes> for &str {
    fn eq(&self, other: &Bytes) -> bool {
        *other == *self
    }
}

impl PartialOrd<Bytes> for &str {
    fn partial_cmp(&self, other: &Bytes) -> Option<cmp::Ordering> {
        <[u8] as PartialOrd<[u8]>>::partial_cmp(self.as_bytes(), other)
    }
}

impl<'a, T: ?Sized> PartialEq<&'a T> for Bytes
where
    Bytes: PartialEq<T>,
{
    fn eq(&self, other: &&'a T) -> bool {
        *self == **other
    }
}

impl<'a, T: ?Sized> PartialOrd<&'a T> for Bytes
where
    Bytes: PartialOrd<T>,
{
    fn partial_cmp(&self, other: &&'a T) -> Option<cmp::Ordering> {
        self.partial_cmp(&**other)
    }
}

// impl From

impl Default for Bytes {
    #[inline]
    fn default() -> Bytes {
        Bytes::new()
    }
}

impl From<&'static [u8]> for Bytes {
    fn from(slice: &'static [u8]) -> Bytes {
        Bytes::from_static(slice)
    }
}

impl From<&'static str> for Bytes {
    fn from(slice: &'static str) -> Bytes {
        Bytes::from_static(slice.as_bytes())
    }
}

impl From<Vec<u8>> for Bytes {
    #[cfg(kani)]
    fn from(vec: Vec<u8>) -> Bytes {
        // verif (cfg(kani) only): leak the storage and treat it as 'static.
        let s: &'static [u8] = Box::leak(vec.into_boxed_slice());
        Bytes::from_static(s)
    }

    #[cfg(not(kani))]
    fn from(vec: Vec<u8>) -> Bytes {
        // Avoid an extra allocation if possible.
        if vec.len() == vec.capacity() {
            return Bytes::from(vec.into_boxed_slice());
        }

        let shared = Box::new(MaybeUninit::<Shared>::uninit());
        let mut vec = ManuallyDrop::new(vec);
        let ptr = vec.as_mut_ptr();
        let len = vec.len();
        let cap = vec.capacity();

        let shared = Shared::init_to_raw(
            shared,
            Shared {
                buf: ptr,
                cap,
                ref_cnt: AtomicUsize::new(1),
            },
        );

        // The pointer should be aligned, so this assert should
        // always succeed.
        debug_assert!(
            0 == (shared as usize & KIND_MASK),
            "internal: Box<Shared> should have an aligned pointer",
        );
        Bytes {
            ptr,
            len,
            data: AtomicPtr::new(shared as _),
            vtable: &SHARED_VTABLE,
        }
    }
}

impl From<Box<[u8]>> for Bytes {
    #[cfg(kani)]
    fn from(slice: Box<[u8]>) -> Bytes {
        // verif (cfg(kani) only): leak the storage and treat it as 'static.
        let s: &'static [u8] = Box::leak(slice);
        Bytes::from_static(s)
    }

    #[cfg(not(kani))]
    fn from(slice: Box<[u8]>) -> Bytes {
        // Box<[u8]> doesn't contain a heap allocation for empty slices,
        // so the pointer isn't aligned enough for the KIND_VEC stashing to
        // work.
        if slice.is_empty() {
            return Bytes::new();
        }

        let len = slice.len();
        let ptr = Box::into_raw(slice) as *mut u8;

        if ptr as usize & 0x1 == 0 {
            let data = ptr_map(ptr, |addr| addr | KIND_VEC);
            Bytes {
                ptr,
                len,
                data: AtomicPtr::new(data.cast()),
                vtable: &PROMOTABLE_EVEN_VTABLE,
            }
        } else {
            Bytes {
                ptr,
                len,
                data: AtomicPtr::new(ptr.cast()),
                vtable: &PROMOTABLE_ODD_VTABLE,
            }
        }
    }
}

impl From<Bytes> for BytesMut {
    /// Convert self into `BytesMut`.
    ///
    /// If `bytes` is unique for the entire original buffer, this will return a
    /// `BytesMut` with the contents of `bytes` without copying.
    /// If `bytes` is not unique for the entire original buffer, this will make
    /// a copy of `bytes` subset of the original buffer in a new `BytesMut`.
    ///
    /// # Examples
    ///
    /// ```
    /// use bytes::{Bytes, BytesMut};
    ///
    /// let bytes = Bytes::from(b"hello".to_vec());
    /// assert_eq!(BytesMut::from(bytes), BytesMut::from(&b"hello"[..]));
    /// ```
    fn from(bytes: Bytes) -> Self {
        let mut bytes = ManuallyDrop::new(bytes);
        let data = bytes.data_mut();
        #[cfg(kani)]
        unsafe {
            return static_to_mut(data, bytes.ptr, bytes.len);
        }
        #[cfg(not(kani))]
        unsafe {
            (bytes.vtable.into_mut)(data, bytes.ptr, bytes.len)
        }
    }
}

impl From<String> for Bytes {
    fn from(s: String) -> Bytes {
        Bytes::from(s.into_bytes())
    }
}

impl From<Bytes> for Vec<u8> {
    fn from(bytes: Bytes) -> Vec<u8> {
        let mut bytes = ManuallyDrop::new(bytes);
        let data = bytes.data_mut();
        #[cfg(kani)]
        unsafe {
            return static_to_vec(data, bytes.ptr, bytes.len);
        }
        #[cfg(not(kani))]
        unsafe {
            (bytes.vtable.into_vec)(data, bytes.ptr, bytes.len)
        }
    }
}

// ===== impl Vtable =====

impl fmt::Debug for Vtable {
    fn fmt(&self, f: &mut fmt::Formatter<'_>) -> fmt::Result {
        f.debug_struct("Vtable")
            .field("clone", &(self.clone as *const ()))
            .field("drop", &(self.drop as *const ()))
            .finish()
    }
}

// ===== impl StaticVtable =====

const STATIC_VTABLE: Vtable = Vtable {
    clone: static_clone,
    into_vec: static_to_vec,
    into_mut: static_to_mut,
    is_unique: static_is_unique,
    drop: static_drop,
};

unsafe fn static_clone(_: &AtomicPtr<()>, ptr: *const u8, len: usize) -> Bytes {
    let slice = slice::from_raw_parts(ptr, len);
    Bytes::from_static(slice)
}

unsafe fn static_to_vec(_: *mut (), ptr: *const u8, len: usize) -> Vec<u8> {
    let slice = slice::from_raw_parts(ptr, len);
    slice.to_vec()
}

unsafe fn static_to_mut(_: *mut (), ptr: *const u8, len: usize) -> BytesMut {
    let slice = slice::from_raw_parts(ptr, len);
    BytesMut::from(slice)
}

fn static_is_unique(_: &AtomicPtr<()>) -> bool {
    false
}

unsafe fn static_drop(_: *mut (), _: *const u8, _: usize) {
    // nothing to drop for &'static [u8]
}

// ===== impl OwnedVtable =====

#[repr(C)]
struct Owned<T> {
    ref_cnt: AtomicUsize,
    owner: T,
}

impl<T> Owned<T> {
    const VTABLE: Vtable = Vtable {
        clone: owned_clone::<T>,
        into_vec: owned_to_vec::<T>,
        into_mut: owned_to_mut::<T>,
        is_unique: owned_is_unique,
        drop: owned_drop::<T>,
    };
}

unsafe fn owned_clone<T>(data: &AtomicPtr<()>, ptr: *const u8, len: usize) -> Bytes {
    let owned = data.load(Ordering::Relaxed);
    let old_cnt = (*owned.cast::<AtomicUsize>()).fetch_add(1, Ordering::Relaxed);
    if old_cnt > usize::MAX >> 1 {
        crate::abort();
    }

    Bytes {
        ptr,
        len,
        data: AtomicPtr::new(owned as _),
        vtable: &Owned::<T>::VTABLE,
    }
}

unsafe fn owned_to_vec<T>(owned: *mut (), ptr: *const u8, len: usize) -> Vec<u8> {
    let slice = slice::from_raw_parts(ptr, len);
    let vec = slice.to_vec();
    owned_drop_impl::<T>(owned);
    vec
}

unsafe fn owned_to_mut<T>(owned: *mut (), ptr: *const u8, len: usize) -> BytesMut {
    BytesMut::from_vec(owned_to_vec::<T>(owned, ptr, len))
}

unsafe fn owned_is_unique(_data: &AtomicPtr<()>) -> bool {
    false
}

unsafe fn owned_drop_impl<T>(owned: *mut ()) {
    {
        let ref_cnt = &*owned.cast::<AtomicUsize>();

        let old_cnt = ref_cnt.fetch_sub(1, Ordering::Release);
        debug_assert!(
            old_cnt > 0 && old_cnt <= usize::MAX >> 1,
            "expected non-zero refcount and no underflow"
        );
        if old_cnt != 1 {
            return;
        }
        ref_cnt.load(Ordering::Acquire);
    }

    drop(Box::<Owned<T>>::from_raw(owned.cast()));
}

unsafe fn owned_drop<T>(data: *mut (), _ptr: *const u8, _len: usize) {
    owned_drop_impl::<T>(data);
}

// ===== impl PromotableVtable =====

static PROMOTABLE_EVEN_VTABLE: Vtable = Vtable {
    clone: promotable_even_clone,
    into_vec: promotable_even_to_vec,
    into_mut: promotable_even_to_mut,
    is_unique: promotable_is_unique,
    drop: promotable_even_drop,
};

static PROMOTABLE_ODD_VTABLE: Vtable = Vtable {
    clone: promotable_odd_clone,
    into_vec: promotable_odd_to_vec,
    into_mut: promotable_odd_to_mut,
    is_unique: promotable_is_unique,
    drop: promotable_odd_drop,
};

unsafe fn promotable_even_clone(data: &AtomicPtr<()>, ptr: *const u8, len: usize) -> Bytes {
    let shared = data.load(Ordering::Acquire);
    let kind = shared as usize & KIND_MASK;

    if kind == KIND_ARC {
        shallow_clone_arc(shared.cast(), ptr, len)
    } else {
        debug_assert_eq!(kind, KIND_VEC);
        let buf = ptr_map(shared.cast(), |addr| addr & !KIND_MASK);
        shallow_clone_vec(data, shared, buf, ptr, len)
    }
}

unsafe fn promotable_to_vec(
    shared: *mut (),
    ptr: *const u8,
    len: usize,
    f: fn(*mut ()) -> *mut u8,
) -> Vec<u8> {
    let kind = shared as usize & KIND_MASK;

    if kind == KIND_ARC {
        shared_to_vec_impl(shared.cast(), ptr, len)
    } else {
        // If Bytes holds a Vec, then the offset must be 0.
        debug_assert_eq!(kind, KIND_VEC);

        let buf = f(shared);

        let cap = ptr.offset_from(buf) as usize + len;

        // Copy back buffer
        ptr::copy(ptr, buf, len);

        Vec::from_raw_parts(buf, len, cap)
    }
}

unsafe fn promotable_to_mut(
    shared: *mut (),
    ptr: *const u8,
    len: usize,
    f: fn(*mut ()) -> *mut u8,
) -> BytesMut {
    let kind = shared as usize & KIND_MASK;

    if kind == KIND_ARC {
        shared_to_mut_impl(shared.cast(), ptr, len)
    } else {
        // KIND_VEC is a view of an underlying buffer at a certain offset.
        // The ptr + len always represents the end of that buffer.
        // Before truncating it, it is first promoted to KIND_ARC.
        // Thus, we can safely reconstruct a Vec from it without leaking memory.
        debug_assert_eq!(kind, KIND_VEC);

        let buf = f(shared);
        let off = ptr.offset_from(buf) as usize;
        let cap = off + len;
        let v = Vec::from_raw_parts(buf, cap, cap);

        let mut b = BytesMut::from_vec(v);
        b.advance_unchecked(off);
        b
    }
}

unsafe fn promotable_even_to_vec(shared: *mut (), ptr: *const u8, len: usize) -> Vec<u8> {
    promotable_to_vec(shared, ptr, len, |shared| {
        ptr_map(shared.cast(), |addr| addr & !KIND_MASK)
    })
}

unsafe fn promotable_even_to_mut(shared: *mut (), ptr: *const u8, len: usize) -> BytesMut {
    promotable_to_mut(shared, ptr, len, |shared| {
        ptr_map(shared.cast(), |addr| addr & !KIND_MASK)
    })
}

unsafe fn promotable_even_drop(shared: *mut (), ptr: *const u8, len: usize) {
    let kind = shared as usize & KIND_MASK;

    if kind == KIND_ARC {
        release_shared(shared.cast());
    } else {
        debug_assert_eq!(kind, KIND_VEC);
        let buf = ptr_map(shared.cast(), |addr| addr & !KIND_MASK);
        free_boxed_slice(buf, ptr, len);
    }
}

unsafe fn promotable_odd_clone(data: &AtomicPtr<()>, ptr: *const u8, len: usize) -> Bytes {
    let shared = data.load(Ordering::Acquire);
    let kind = shared as usize & KIND_MASK;

    if kind == KIND_ARC {
        shallow_clone_arc(shared as _, ptr, len)
    } else {
        debug_assert_eq!(kind, KIND_VEC);
        shallow_clone_vec(data, shared, shared.cast(), ptr, len)
    }
}

unsafe fn promotable_odd_to_vec(shared: *mut (), ptr: *const u8, len: usize) -> Vec<u8> {
    promotable_to_vec(shared, ptr, len, |shared| shared.cast())
}

unsafe fn promotable_odd_to_mut(shared: *mut (), ptr: *const u8, len: usize) -> BytesMut {
    promotable_to_mut(shared, ptr, len, |shared| shared.cast())
}

unsafe fn promotable_odd_drop(shared: *mut (), ptr: *const u8, len: usize) {
    let kind = shared as usize & KIND_MASK;

    if kind == KIND_ARC {
        release_shared(shared.cast());
    } else {
        debug_assert_eq!(kind, KIND_VEC);

        free_boxed_slice(shared.cast(), ptr, len);
    }
}

unsafe fn promotable_is_unique(data: &AtomicPtr<()>) -> bool {
    let shared = data.load(Ordering::Acquire);
    let kind = shared as usize & KIND_MASK;

    if kind == KIND_ARC {
        let ref_cnt = (*shared.cast::<Shared>()).ref_cnt.load(Ordering::Relaxed);
        ref_cnt == 1
    } else {
        true
    }
}

unsafe fn free_boxed_slice(buf: *mut u8, offset: *const u8, len: usize) {
    let cap = offset.offset_from(buf) as usize + len;
    dealloc(buf, Layout::from_size_align(cap, 1).unwrap())
}

// ===== impl SharedVtable =====

struct Shared {
    // Holds arguments to dealloc upon Drop, but otherwise doesn't use them
    buf: *mut u8,
    cap: usize,
    ref_cnt: AtomicUsize,
}

impl Shared {
    fn init_to_raw(b: Box<MaybeUninit<Self>>, v: Self) -> *mut Self {
        let shared = Box::into_raw(b).cast::<Self>();
        // SAFETY: The Box has the right layout.
        unsafe { shared.write(v) };
        shared
    }
}

impl Drop for Shared {
    fn drop(&mut self) {
        unsafe { dealloc(self.buf, Layout::from_size_align(self.cap, 1).unwrap()) }
    }
}

// Assert that the alignment of `Shared` is divisible by 2.
// This is a necessary invariant since we depend on allocating `Shared` a
// shared object to implicitly carry the `KIND_ARC` flag in its pointer.
// This flag is set when the LSB is 0.
const _: [(); 0 - mem::align_of::<Shared>() % 2] = []; // Assert that the alignment of `Shared` is divisible by 2.

static SHARED_VTABLE: Vtable = Vtable {
    clone: shared_clone,
    into_vec: shared_to_vec,
    into_mut: shared_to_mut,
    is_unique: shared_is_unique,
    drop: shared_drop,
};

const KIND_ARC: usize = 0b0;
const KIND_VEC: usize = 0b1;
const KIND_MASK: usize = 0b1;

unsafe fn shared_clone(data: &AtomicPtr<()>, ptr: *const u8, len: usize) -> Bytes {
    let shared = data.load(Ordering::Relaxed);
    shallow_clone_arc(shared as _, ptr, len)
}

unsafe fn shared_to_vec_impl(shared: *mut Shared, ptr: *const u8, len: usize) -> Vec<u8> {
    // Check that the ref_cnt is 1 (unique).
    //
    // If it is unique, then it is set to 0 with AcqRel fence for the same
    // reason in release_shared.
    //
    // Otherwise, we take the other branch and call release_shared.
    if (*shared)
        .ref_cnt
        .compare_exchange(1, 0, Ordering::AcqRel, Ordering::Relaxed)
        .is_ok()
    {
        // Deallocate the `Shared` instance without running its destructor.
        let shared = *Box::from_raw(shared);
        let shared = ManuallyDrop::new(shared);
        let buf = shared.buf;
        let cap = shared.cap;

        // Copy back buffer
        ptr::copy(ptr, buf, len);

        Vec::from_raw_parts(buf, len, cap)
    } else {
        let v = slice::from_raw_parts(ptr, len).to_vec();
        release_shared(shared);
        v
    }
}

unsafe fn shared_to_vec(shared: *mut (), ptr: *const u8, len: usize) -> Vec<u8> {
    shared_to_vec_impl(shared.cast(), ptr, len)
}

unsafe fn shared_to_mut_impl(shared: *mut Shared, ptr: *const u8, len: usize) -> BytesMut {
    // The goal is to check if the current handle is the only handle
    // that currently has access to the buffer. This is done by
    // checking if the `ref_cnt` is currently 1.
    //
    // The `Acquire` ordering synchronizes with the `Release` as
    // part of the `fetch_sub` in `release_shared`. The `fetch_sub`
    // operation guarantees that any mutations done in other threads
    // are ordered before the `ref_cnt` is decremented. As such,
    // this `Acquire` will guarantee that those mutations are
    // visible to the current thread.
    //
    // Otherwise, we take the other branch, copy the data and call `release_shared`.
    if (*shared).ref_cnt.load(Ordering::Acquire) == 1 {
        // Deallocate the `Shared` instance without running its destructor.
        let shared = *Box::from_raw(shared);
        let shared = ManuallyDrop::new(shared);
        let buf = shared.buf;
        let cap = shared.cap;

        // Rebuild Vec
        let off = ptr.offset_from(buf) as usize;
        let v = Vec::from_raw_parts(buf, len + off, cap);

        let mut b = BytesMut::from_vec(v);
        b.advance_unchecked(off);
        b
    } else {
        // Copy the data from Shared in a new Vec, then release it
        let v = slice::from_raw_parts(ptr, len).to_vec();
        release_shared(shared);
        BytesMut::from_vec(v)
    }
}

unsafe fn shared_to_mut(shared: *mut (), ptr: *const u8, len: usize) -> BytesMut {
    shared_to_mut_impl(shared.cast(), ptr, len)
}

pub(crate) unsafe fn shared_is_unique(data: &AtomicPtr<()>) -> bool {
    let shared = data.load(Ordering::Acquire);
    let ref_cnt = (*shared.cast::<Shared>()).ref_cnt.load(Ordering::Relaxed);
    ref_cnt == 1
}

unsafe fn shared_drop(shared: *mut (), _ptr: *const u8, _len: usize) {
    release_shared(shared.cast());
}

unsafe fn shallow_clone_arc(shared: *mut Shared, ptr: *const u8, len: usize) -> Bytes {
    let old_size = (*shared).ref_cnt.fetch_add(1, Ordering::Relaxed);

    if old_size > usize::MAX >> 1 {
        crate::abort();
    }

    Bytes {
        ptr,
        len,
        data: AtomicPtr::new(shared as _),
        vtable: &SHARED_VTABLE,
    }
}

#[cold]
unsafe fn shallow_clone_vec(
    atom: &AtomicPtr<()>,
    ptr: *const (),
    buf: *mut u8,
    offset: *const u8,
    len: usize,
) -> Bytes {
    // If the buffer is still tracked in a `Vec<u8>`. It is time to
    // promote the vec to an `Arc`. This could potentially be called
    // concurrently, so some care must be taken.

    // First, allocate a new `Shared` instance containing the
    // `Vec` fields. It's important to note that `ptr`, `len`,
    // and `cap` cannot be mutated without having `&mut self`.
    // This means that these fields will not be concurrently
    // updated and since the buffer hasn't been promoted to an
    // `Arc`, those three fields still are the components of the
    // vector.
    let shared = Box::new(MaybeUninit::<Shared>::uninit());
    let shared = Shared::init_to_raw(
        shared,
        Shared {
            buf,
            cap: offset.offset_from(buf) as usize + len,
            // Initialize refcount to 2. One for this reference, and one
            // for the new clone that will be returned from
            // `shallow_clone`.
            ref_cnt: AtomicUsize::new(2),
        },
    );

    // The pointer should be aligned, so this assert should
    // always succeed.
    debug_assert!(
        0 == (shared as usize & KIND_MASK),
        "internal: Box<Shared> should have an aligned pointer",
    );

    // Try compare & swapping the pointer into the `arc` field.
    // `Release` is used synchronize with other threads that
    // will load the `arc` field.
    //
    // If the `compare_exchange` fails, then the thread lost the
    // race to promote the buffer to shared. The `Acquire`
    // ordering will synchronize with the `compare_exchange`
    // that happened in the other thread and the `Shared`
    // pointed to by `actual` will be visible.
    match atom.compare_exchange(ptr as _, shared as _, Ordering::AcqRel, Ordering::Acquire) {
        Ok(actual) => {
            debug_assert!(core::ptr::eq(actual, ptr));
            // The upgrade was successful, the new handle can be
            // returned.
            Bytes {
                ptr: offset,
                len,
                data: AtomicPtr::new(shared as _),
                vtable: &SHARED_VTABLE,
            }
        }
        Err(actual) => {
            // The upgrade failed, a concurrent clone happened. Release
            // the allocation that was made in this thread, it will not
            // be needed.
            let shared = Box::from_raw(shared);
            mem::forget(*shared);

            // Buffer already promoted to shared storage, so increment ref
            // count.
            shallow_clone_arc(actual as _, offset, len)
        }
    }
}

unsafe fn release_shared(ptr: *mut Shared) {
    // `Shared` storage... follow the drop steps from Arc.
    if (*ptr).ref_cnt.fetch_sub(1, Ordering::Release) != 1 {
        return;
    }

    // This fence is needed to prevent reordering of use of the data and
    // deletion of the data.  Because it is marked `Release`, the decreasing
    // of the reference count synchronizes with this `Acquire` fence. This
    // means that use of the data happens before decreasing the reference
    // count, which happens before this fence, which happens before the
    // deletion of the data.
    //
    // As explained in the [Boost documentation][1],
    //
    // > It is important to enforce any possible access to the object in one
    // > thread (through an existing reference) to *happen before* deleting
    // > the object in a different thread. This is achieved by a "release"
    // > operation after dropping a reference (any access to the object
    // > through this reference must obviously happened before), and an
    // > "acquire" operation before deleting the object.
    //
    // [1]: (www.boost.org/doc/libs/1_55_0/doc/html/atomic/usage_examples.html)
    //
    // Thread sanitizer does not support atomic fences. Use an atomic load
    // instead.
    (*ptr).ref_cnt.load(Ordering::Acquire);

    // Drop the data
    drop(Box::from_raw(ptr));
}

// Ideally we would always use this version of `ptr_map` since it is strict
// provenance compatible, but it results in worse codegen. We will however still
// use it on miri because it gives better diagnostics for people who test bytes
// code with miri.
//
// See https://github.com/tokio-rs/bytes/pull/545 for more info.
#[cfg(miri)]
fn ptr_map<F>(ptr: *mut u8, f: F) -> *mut u8
where
    F: FnOnce(usize) -> usize,
{
    let old_addr = ptr as usize;
    let new_addr = f(old_addr);
    let diff = new_addr.wrapping_sub(old_addr);
    ptr.wrapping_add(diff)
}

#[cfg(not(miri))]
fn ptr_map<F>(ptr: *mut u8, f: F) -> *mut u8
where
    F: FnOnce(usize) -> usize,
{
    let old_addr = ptr as usize;
    let new_addr = f(old_addr);
    new_addr as *mut u8
}

fn without_provenance(ptr: usize) -> *const u8 {
    core::ptr::null::<u8>().wrapping_add(ptr)
}

// compile-fails

/// ```compile_fail
/// use bytes::Bytes;
/// #[deny(unused_must_use)]
/// {
///     let mut b1 = Bytes::from("hello world");
///     b1.split_to(6);
/// }
/// ```
fn _split_to_must_use() {}

/// ```compile_fail
/// use bytes::Bytes;
/// #[deny(unused_must_use)]
/// {
///     let mut b1 = Bytes::from("hello world");
///     b1.split_off(6);
/// }
/// ```
fn _split_off_must_use() {}

// fuzz tests
#[cfg(all(test, loom))]
mod fuzz {
    use loom::sync::Arc;
    use loom::thread;

    use super::Bytes;
    #[test]
    fn bytes_cloning_vec() {
        loom::model(|| {
            let a = Bytes::from(b"abcdefgh".to_vec());
            let addr = a.as_ptr() as usize;

            // test the Bytes::clone is Sync by putting it in an Arc
            let a1 = Arc::new(a);
            let a2 = a1.clone();

            let t1 = thread::spawn(move || {
                let b: Bytes = (*a1).clone();
                assert_eq!(b.as_ptr() as usize, addr);
            });

            let t2 = thread::spawn(move || {
                let b: Bytes = (*a2).clone();
                assert_eq!(b.as_ptr() as usize, addr);
            });

            t1.join().unwrap();
            t2.join().unwrap();
        });
    }
}
