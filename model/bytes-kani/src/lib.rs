#![warn(missing_docs, missing_debug_implementations, rust_2018_idioms)]
#![doc(test(
    no_crate_inject,
    attr(deny(warnings, rust_2018_idioms), allow(dead_code, unused_variables))
))]
#![no_std]
#![cfg_attr(docsrs, feature(doc_cfg))]

//! Provides abstractions for working with bytes.
//!
//! The `bytes` crate provides an efficient byte buffer structure
//! ([`Bytes`]) and traits for working with buffer
//! implementations ([`Buf`], [`BufMut`]).
//!
//! # `Bytes`
//!
//! `Bytes` is an efficient container for storing and operating on contiguous
//! slices of memory. It is intended for use primarily in networking code, but
//! could have applications elsewhere as well.
//!
//! `Bytes` values facilitate zero-copy network programming by allowing multiple
//! `Bytes` objects to point to the same underlying memory. This is managed by
//! using a reference count to track when the memory is no longer needed and can
//! be freed.
//!
//! A `Bytes` handle can be created directly from an existing byte store (such as `&[u8]`
//! or `Vec<u8>`), but usually a `BytesMut` is used first and written to. For
//! example:
//!
//! ```rust
//! use bytes::{BytesMut, BufMut};
//!
//! let mut buf = BytesMut::with_capacity(1024);
//! buf.put(&b"hello world"[..]);
//! buf.put_u16(1234);
//!
//! let a = buf.split();
//! assert_eq!(a, b"hello world\x04\xD2"[..]);
//!
//! buf.put(&b"goodbye world"[..]);
//!
//! let b = buf.split();
//! assert_eq!(b, b"goodbye world"[..]);
//!
//! assert_eq!(buf.capacity(), 998);
//! ```
//!
//! In the above example, only a single buffer of 1024 is allocated. The handles
//! `a` and `b` will share the underlying buffer and maintain indices tracking
//! the view into the buffer represented by the handle.
//!
//! See the [struct docs](`Bytes`) for more details.
//!
//! # `Buf`, `BufMut`
//!
//! These two traits provide read and write access to buffers. The underlying
//! storage may or may not be in contiguous memory. For example, `Bytes` is a
//! buffer that guarantees contiguous memory, but a [rope] stores the bytes in
//! disjoint chunks. `Buf` and `BufMut` maintain cursors tracking the current
//! position in the underlying byte storage. When bytes are read or written, the
//! cursor is advanced.
//!
//! [rope]: https://en.wikipedia.org/wiki/Rope_(data_structure)
//!
//! ## Relation with `Read` and `Write`
//!
//! At first glance, it may seem that `Buf` and `BufMut` overlap in
//! functionality with [`std::io::Read`] and [`std::io::Write`]. However, they
//! serve different purposes. A buffer is the value that is provided as an
//! argument to `Read::read` and `Write::write`. `Read` and `Write` may then
//! perform a syscall, which has the potential of failing. Operations on `Buf`
//! and `BufMut` are infallible.

extern crate alloc;

#[cfg(feature = "std")]
extern crate std;

pub mod buf;
pub use crate::buf::{Buf, BufMut};

mod bytes;
mod bytes_mut;
mod fmt;
mod loom;
pub use crate::bytes::Bytes;
pub use crate::bytes_mut::BytesMut;

// Optional Serde support
#[cfg(feature = "serde")]
mod serde;

#[inline(never)]
#[cold]
fn abort() -> ! {
    #[cfg(feature = "std")]
    {
        std::process::abort();
    }

    #[cfg(not(feature = "std"))]
    {
        struct Abort;
        impl Drop for Abort {
            fn drop(&mut self) {
                panic!();
            }
        }
        let _a = Abort;
        panic!("abort");
    }
}

#[inline(always)]
#[cfg(feature = "std")]
fn saturating_sub_usize_u64(a: usize, b: u64) -> usize {
    match usize::try_from(b) {
        Ok(b) => a.saturating_sub(b),
        Err(_) => 0,
    }
}

#[inline(always)]
#[cfg(feature = "std")]
fn min_u64_usize(a: u64, b: usize) -> usize {
    match usize::try_from(a) {
        Ok(a) => usize::min(a, b),
        Err(_) => b,
    }
}

/// Performs bounds checking of a range.
///
/// This is a spiritual copy of [core::slice::index::range] because that
/// function is currently unstable.
#[inline(always)]
#[track_caller]
fn range(range: impl core::ops::RangeBounds<usize>, len: usize) -> (usize, usize) {
    use core::ops::Bound;

    let begin = match range.start_bound() {
        Bound::Included(&n) => n,
        Bound::Excluded(&n) => n.checked_add(1).expect("out of range"),
        Bound::Unbounded => 0,
    };

    let end = match range.end_bound() {
        Bound::Included(&n) => n.checked_add(1).expect("out of range"),
        Bound::Excluded(&n) => n,
        Bound::Unbounded => len,
    };

    #[cfg(kani)]
    {
        assert!(begin <= end, "range start must not be greater than end");
        assert!(end <= len, "range end out of bounds");
    }
    #[cfg(not(kani))]
    {
        assert!(
            begin <= end,
            "range start must not be greater than end: {:?} <= {:?}",
            begin,
            end,
        );
        assert!(
            end <= len,
            "range end out of bounds: {:?} <= {:?}",
            end,
            len,
        );
    }

    (begin, end)
}

/// Error type for the `try_get_` methods of [`Buf`].
/// Indicates that there were not enough remaining
/// bytes in the buffer while attempting
/// to get a value from a [`Buf`] with one
/// of the `try_get_` methods.
#[derive(Debug, PartialEq, Eq)]
pub struct TryGetError {
    /// The number of bytes necessary to get the value
    pub requested: usize,

    /// The number of bytes available in the buffer
    pub available: usize,
}

impl core::fmt::Display for TryGetError {
    fn fmt(&self, f: &mut core::fmt::Formatter<'_>) -> Result<(), core::fmt::Error> {
        write!(
            f,
            "Not enough bytes remaining in buffer to read value (requested {} but only {} available)",
            self.requested,
            self.available
        )
    }
}

#[cfg(feature = "std")]
impl std::error::Error for TryGetError {}

#[cfg(feature = "std")]
impl From<TryGetError> for std::io::Error {
    fn from(error: TryGetError) -> Self {
        std::io::Error::new(std::io::ErrorKind::Other, error)
    }
}

/// Panic with a nice error message.
#[cold]
#[cfg(kani)]
fn panic_advance(_error_info: &TryGetError) -> ! {
    panic!("advance out of bounds");
}

#[cold]
#[cfg(not(kani))]
fn panic_advance(error_info: &TryGetError) -> ! {
    panic!(
        "advance out of bounds: the len is {} but advancing by {}",
        error_info.available, error_info.requested
    );
}

#[cold]
#[cfg(kani)]
fn panic_does_not_fit(_size: usize, _nbytes: usize) -> ! {
    panic!("size too large");
}

#[cold]
#[cfg(not(kani))]
fn panic_does_not_fit(size: usize, nbytes: usize) -> ! {
    panic!(
        "size too large: the integer type can fit {} bytes, but nbytes is {}",
        size, nbytes
    );
}
