//! Native differential sanity test of the sequence model against std (not a verification artefact;
//! the solver-checked version is the `model_vs_std_*` Kani harnesses).
use std::collections::VecDeque as Std;
use verif_model::VecDeque as M;

struct Rng(u64);
impl Rng {
    fn next(&mut self) -> u64 {
        self.0 ^= self.0 << 13;
        self.0 ^= self.0 >> 7;
        self.0 ^= self.0 << 17;
        self.0
    }
}

fn same(a: &Std<u32>, b: &M<u32>) {
    assert_eq!(a.len(), b.len());
    assert_eq!(a.iter().copied().collect::<Vec<_>>(), b.iter().copied().collect::<Vec<_>>());
    assert_eq!(a.front(), b.front());
    assert_eq!(a.back(), b.back());
}

#[test]
fn random_ops() {
    let mut r = Rng(0x9e3779b97f4a7c15);
    for _ in 0..20000 {
        let mut a: Std<u32> = Std::new();
        let mut b: M<u32> = M::new();
        for _ in 0..12 {
            let op = r.next() % 14;
            let v = (r.next() % 100) as u32;
            let len = a.len();
            match op {
                0 if len < 8 => { a.push_back(v); b.push_back(v); }
                1 if len < 8 => { a.push_front(v); b.push_front(v); }
                2 => assert_eq!(a.pop_back(), b.pop_back()),
                3 => assert_eq!(a.pop_front(), b.pop_front()),
                4 if len < 8 => { let i = (r.next() as usize) % (len + 1); a.insert(i, v); b.insert(i, v); }
                5 => { let i = (r.next() as usize) % 9; assert_eq!(a.remove(i), b.remove(i)); }
                6 => { let s = (r.next() as usize) % (len + 1); let e = s + (r.next() as usize) % (len - s + 1);
                       let x: Vec<u32> = a.drain(s..e).collect(); let y: Vec<u32> = b.drain(s..e).collect(); assert_eq!(x, y); }
                7 => { let i = (r.next() as usize) % 9; assert_eq!(a.get(i), b.get(i)); assert_eq!(a.get_mut(i), b.get_mut(i)); }
                8 => { let n = (r.next() as usize) % 9; a.truncate(n); b.truncate(n); }
                9 => { let n = (r.next() as usize) % 9; a.resize(n, v); b.resize(n, v); }
                10 => { a.retain(|x| x % 3 != 0); b.retain(|x| x % 3 != 0); }
                11 => { for x in a.iter_mut() { *x += 1; } for x in b.iter_mut() { *x += 1; } }
                12 => { let s = (r.next() as usize) % (len + 1); let e = s + (r.next() as usize) % (len - s + 1);
                        assert_eq!(a.range(s..e).copied().collect::<Vec<_>>(), b.range(s..e).copied().collect::<Vec<_>>());
                        for x in a.range_mut(s..e) { *x += 2; } for x in b.range_mut(s..e) { *x += 2; } }
                _ => {
                    // sorted search
                    let mut sa: Vec<u32> = a.iter().copied().collect(); sa.sort(); sa.dedup();
                    let ssa: Std<u32> = sa.iter().copied().collect(); let ssb: M<u32> = sa.iter().copied().collect();
                    assert_eq!(ssa.binary_search_by(|x| x.cmp(&v)), ssb.binary_search_by(|x| x.cmp(&v)));
                    assert_eq!(ssa.partition_point(|x| *x < v), ssb.partition_point(|x| *x < v));
                }
            }
            same(&a, &b);
        }
    }
}

#[test]
fn iter_mut_double_ended_and_hashset_additions() {
    let mut r = Rng(0x1234_5678_9abc_def1);
    for _ in 0..5000 {
        let n = (r.next() % 9) as usize;
        let mut a: Std<u32> = Std::new();
        let mut b: M<u32> = M::new();
        for _ in 0..n { let v = (r.next() % 100) as u32; a.push_back(v); b.push_back(v); }
        // rev(), enumerate().rev(), mixed front/back consumption, range_mut().rev()
        assert_eq!(a.iter_mut().rev().map(|x| *x).collect::<Vec<_>>(), b.iter_mut().rev().map(|x| *x).collect::<Vec<_>>());
        assert_eq!(a.iter_mut().enumerate().rev().map(|(i, x)| (i, *x)).collect::<Vec<_>>(),
                   b.iter_mut().enumerate().rev().map(|(i, x)| (i, *x)).collect::<Vec<_>>());
        let s = (r.next() as usize) % (n + 1); let e = s + (r.next() as usize) % (n - s + 1);
        assert_eq!(a.range_mut(s..e).len(), b.range_mut(s..e).len());
        assert_eq!(a.range_mut(s..e).enumerate().rev().map(|(i, x)| (i, *x)).collect::<Vec<_>>(),
                   b.range_mut(s..e).enumerate().rev().map(|(i, x)| (i, *x)).collect::<Vec<_>>());
        {
            let mut ia = a.iter_mut(); let mut ib = b.iter_mut();
            for _ in 0..n + 2 {
                assert_eq!(ia.len(), ib.len());
                if r.next() % 2 == 0 { assert_eq!(ia.next(), ib.next()); } else { assert_eq!(ia.next_back(), ib.next_back()); }
            }
        }
        // HashSet::retain / From<[T; N]>
        let mut ha: std::collections::HashSet<u32> = a.iter().copied().collect();
        let mut hb: verif_model::HashSet<u32> = b.iter().copied().collect();
        ha.retain(|x| x % 2 == 0); hb.retain(|x| x % 2 == 0);
        assert_eq!(ha.len(), hb.len());
        for x in ha.iter() { assert!(hb.contains(x)); }
        let fa: std::collections::HashSet<u32> = [7u32].into();
        let fb: verif_model::HashSet<u32> = [7u32].into();
        assert_eq!(fa.contains(&7), fb.contains(&7));
        assert_eq!(fa.len(), fb.len());
    }
}

#[test]
fn vecdeque_idx_range_mut_matches_std() {
    // VecDequeIdx (index-walking range_mut, used for qrecovery::journal::sent) against std
    let mut r = Rng(0x0bad_cafe_1234_5678);
    for _ in 0..5000 {
        let n = (r.next() % 9) as usize;
        let mut a: Std<u32> = Std::new();
        let mut b: verif_model::VecDequeIdx<u32> = verif_model::VecDequeIdx::new();
        for _ in 0..n { let v = (r.next() % 100) as u32; a.push_back(v); b.push_back(v); }
        let s = (r.next() as usize) % (n + 1); let e = s + (r.next() as usize) % (n - s + 1);
        assert_eq!(a.range_mut(s..e).len(), b.range_mut(s..e).len());
        assert_eq!(a.range_mut(s..e).map(|x| *x).collect::<Vec<_>>(), b.range_mut(s..e).map(|x| *x).collect::<Vec<_>>());
        for x in a.range_mut(s..e) { *x += 3; }
        for x in b.range_mut(s..e) { *x += 3; }
        assert_eq!(a.range(..).copied().collect::<Vec<_>>(), b.range(..).copied().collect::<Vec<_>>());
        let f = (r.next() as usize) % (n + 1);
        assert_eq!(a.drain(..f).collect::<Vec<_>>(), b.drain(..f).collect::<Vec<_>>());
        assert_eq!(a.len(), b.len());
        assert_eq!(a.iter().copied().collect::<Vec<_>>(), b.iter().copied().collect::<Vec<_>>());
        assert_eq!(a.iter_mut().map(|x| *x).collect::<Vec<_>>(), b.iter_mut().map(|x| *x).collect::<Vec<_>>());
    }
}
