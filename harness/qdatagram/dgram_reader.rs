// C19 (receive side), C16 (DatagramReader::poll_recv vs recv_datagram / on_conn_error) and
// C17 (DatagramIncoming poison) — compiled inside qdatagram::reader.
use core::task::{Context, Poll};

use qbase::{error::ErrorKind, varint::VarInt};

use super::*;

include!("../qbase/wake_common.rs");
use vwk::{waker, wakes};

const W: usize = 72;
static SEQ: [u8; W] = [7u8; W];

fn stub_fmt(_a: core::fmt::Arguments<'_>) -> String {
    String::new()
}
/// Panic-message formatting of slice-index failures dominates symbolic execution; the panic itself stays.
fn stub_slice_index_fail(_s: usize, _e: usize, _l: usize) -> ! {
    panic!("slice index out of range")
}
// tracing macros make kani-compiler 0.68 panic (intrinsics.rs:243); logging is irrelevant here.
fn stub_interest(_c: &tracing::callsite::DefaultCallsite) -> tracing::subscriber::Interest {
    tracing::subscriber::Interest::never()
}
fn stub_is_enabled(_m: &tracing::Metadata<'static>, _i: tracing::subscriber::Interest) -> bool {
    false
}
fn stub_dispatch<'a>(_m: &'static tracing::Metadata<'static>, _f: &'a tracing::field::ValueSet<'_>)
where
    'a: 'a,
{
}
/// Stub for `std::sync::Mutex::lock`: one CAS (`try_lock`) instead of the futex spin/wait loop.
/// A lock that is already held would be a self-deadlock in the real code: reported, not hidden.
fn stub_mutex_lock<T: ?Sized>(m: &std::sync::Mutex<T>) -> std::sync::LockResult<std::sync::MutexGuard<'_, T>> {
    match m.try_lock() {
        Ok(g) => Ok(g),
        Err(std::sync::TryLockError::Poisoned(p)) => Err(p),
        Err(std::sync::TryLockError::WouldBlock) => panic!("self-deadlock: mutex already held"),
    }
}

/// Stub for `std::io::Error::new` where the identity of the wrapped error is irrelevant (C19 FIFO,
/// C16 schedules): keeps the io::ErrorKind, drops the boxed payload. The bit-packed repr of a
/// boxed custom error (pointer tagging) multiplies the size of the query by 4 per call site.
fn stub_io_from_qerr(e: Error) -> io::Error {
    core::mem::forget(e);
    io::Error::from(io::ErrorKind::BrokenPipe)
}

/// A datagram = SEQ[a..b]; identified by address and length (no byte copies needed).
fn dgram(a: usize, b: usize) -> Bytes {
    Bytes::from_static(&SEQ).slice(a..b)
}
fn is_dgram(x: &Bytes, a: usize, b: usize) -> bool {
    x.len() == b - a && (b == a || core::ptr::eq(x.as_ptr(), SEQ.as_ptr().wrapping_add(a)))
}

fn queue_len(incoming: &DatagramIncoming) -> usize {
    match incoming.0.lock().unwrap().as_ref() {
        Ok(r) => r.rcvd_datagrams.len(),
        Err(_) => usize::MAX,
    }
}

fn varint_size(x: usize) -> usize {
    if x < 64 { 1 } else if x < 16384 { 2 } else { 4 }
}

/// C19: a received datagram larger than the local maximum ends the connection with
/// PROTOCOL_VIOLATION; otherwise it is queued whole.
#[kani::proof]
#[kani::unwind(6)]
#[kani::stub(alloc::fmt::format, stub_fmt)]
#[kani::stub(core::slice::index::slice_index_fail, stub_slice_index_fail)]
#[kani::stub(std::sync::Mutex::lock, stub_mutex_lock)]
#[kani::stub(tracing::callsite::DefaultCallsite::interest, stub_interest)]
#[kani::stub(tracing::__macro_support::__is_enabled, stub_is_enabled)]
#[kani::stub(tracing::Event::dispatch, stub_dispatch)]
fn c19_recv_limit() {
    let local_max: usize = kani::any();
    let len: usize = kani::any();
    let with_len: bool = kani::any();
    kani::assume(len <= 70);
    let incoming = DatagramIncoming::new(local_max);
    let frame = DatagramFrame::new(with_len, VarInt::from_u32(len as u32));
    let r = incoming.recv_datagram(frame, dgram(0, len));
    // size of the frame on the wire: type byte + optional length varint + payload
    let wire = 1 + if with_len { varint_size(len) } else { 0 } + len;
    match r {
        Ok(()) => {
            assert!(wire <= local_max, "accepted only within the local max_datagram_frame_size");
            assert!(queue_len(&incoming) == 1);
        }
        Err(e) => {
            assert!(wire > local_max, "refused only beyond the local max_datagram_frame_size");
            assert!(e.kind() == ErrorKind::ProtocolViolation, "oversized datagram => PROTOCOL_VIOLATION");
            assert!(queue_len(&incoming) == 0, "nothing delivered");
            core::mem::forget(e);
        }
    }
    kani::cover!(wire == local_max, "largest acceptable frame");
    kani::cover!(wire - 1 == local_max && with_len && len >= 64, "one byte too large (2-byte length)");
    kani::cover!(local_max == 0, "extension disabled locally: every DATAGRAM frame is a violation");
    core::mem::forget(incoming);
}

/// Pre-state built directly (private fields): a live reader whose queue holds the `n` datagrams
/// SEQ[20*i .. 20*i + lens[i]], i < n (distinct addresses, symbolic lengths incl. 0), n <= 3.
/// This is exactly the set of states `recv_datagram` can produce from `DatagramIncoming::new`
/// (push_back of accepted slices), with `n` bounded by the model capacity.
fn fifo_prestate(local_max: usize, n: usize, lens: &[usize; 3], w: Option<Waker>) -> DatagramIncoming {
    let mut q: VecDeque<Bytes> = VecDeque::new();
    let mut i = 0;
    while i < 3 {
        if i < n {
            q.push_back(dgram(20 * i, 20 * i + lens[i]));
        }
        i += 1;
    }
    DatagramIncoming(Arc::new(Mutex::new(Ok(RawDatagarmReader {
        local_max_size: local_max,
        rcvd_datagrams: q,
        read_waker: w,
    }))))
}

/// i-th queued element is SEQ[a..b] (by address and length).
fn queued_is(incoming: &DatagramIncoming, i: usize, a: usize, b: usize) -> bool {
    match incoming.0.lock().unwrap().as_ref() {
        Ok(r) => match r.rcvd_datagrams.get(i) {
            Some(x) => is_dgram(x, a, b),
            None => false,
        },
        Err(_) => false,
    }
}

/// C19 (FIFO, inductive step 1): an accepted datagram is appended behind the N already queued
/// ones, which stay untouched (unchanged, unmerged, arrival order kept).
fn fifo_push<const N: usize>() {
    let lens: [usize; 3] = kani::any();
    kani::assume(lens[0] <= 10 && lens[1] <= 10 && lens[2] <= 10);
    let incoming = fifo_prestate(100, N, &lens, None);
    let len: usize = kani::any();
    kani::assume(len <= 10);
    let r = incoming.recv_datagram(DatagramFrame::new(kani::any(), VarInt::from_u32(len as u32)), dgram(60, 60 + len));
    assert!(r.is_ok());
    core::mem::forget(r);
    assert!(queue_len(&incoming) == N + 1, "exactly one more datagram queued");
    assert!(queued_is(&incoming, N, 60, 60 + len), "the new datagram is the last one, whole");
    let mut j = 0;
    while j < N {
        assert!(queued_is(&incoming, j, 20 * j, 20 * j + lens[j]), "earlier datagrams keep their place and content");
        j += 1;
    }
    kani::cover!(len == 0 && lens[1] == 0, "empty datagrams");
    kani::cover!(len == 10, "non-empty datagram");
    core::mem::forget(incoming);
}

#[kani::proof]
#[kani::unwind(6)]
#[kani::stub(alloc::fmt::format, stub_fmt)]
#[kani::stub(core::slice::index::slice_index_fail, stub_slice_index_fail)]
#[kani::stub(std::sync::Mutex::lock, stub_mutex_lock)]
#[kani::stub(tracing::callsite::DefaultCallsite::interest, stub_interest)]
#[kani::stub(tracing::__macro_support::__is_enabled, stub_is_enabled)]
#[kani::stub(tracing::Event::dispatch, stub_dispatch)]
fn c19_recv_fifo_push_n0() {
    fifo_push::<0>();
}

#[kani::proof]
#[kani::unwind(6)]
#[kani::stub(alloc::fmt::format, stub_fmt)]
#[kani::stub(core::slice::index::slice_index_fail, stub_slice_index_fail)]
#[kani::stub(std::sync::Mutex::lock, stub_mutex_lock)]
#[kani::stub(tracing::callsite::DefaultCallsite::interest, stub_interest)]
#[kani::stub(tracing::__macro_support::__is_enabled, stub_is_enabled)]
#[kani::stub(tracing::Event::dispatch, stub_dispatch)]
fn c19_recv_fifo_push_n2() {
    fifo_push::<2>();
}

/// C19 (FIFO, inductive step 2): poll_recv returns the OLDEST queued datagram unchanged and leaves
/// the others in order; on an empty queue it is Pending and registers the reader.
#[kani::proof]
#[kani::unwind(6)]
#[kani::stub(alloc::fmt::format, stub_fmt)]
#[kani::stub(core::slice::index::slice_index_fail, stub_slice_index_fail)]
#[kani::stub(std::sync::Mutex::lock, stub_mutex_lock)]
#[kani::stub(tracing::callsite::DefaultCallsite::interest, stub_interest)]
#[kani::stub(tracing::__macro_support::__is_enabled, stub_is_enabled)]
#[kani::stub(tracing::Event::dispatch, stub_dispatch)]
#[kani::stub(<std::io::Error as core::convert::From<qbase::error::Error>>::from, stub_io_from_qerr)]
fn c19_recv_fifo_pop() {
    let lens: [usize; 3] = kani::any();
    let n: usize = kani::any();
    kani::assume(n <= 3);
    kani::assume(lens[0] <= 10 && lens[1] <= 10 && lens[2] <= 10);
    let incoming = fifo_prestate(100, n, &lens, None);
    let reader = DatagramReader(incoming.0.clone());
    let w = waker(0);
    let mut cx = Context::from_waker(&w);
    let r = reader.poll_recv(&mut cx);
    match &r {
        Poll::Ready(Ok(x)) => {
            assert!(n > 0);
            assert!(is_dgram(x, 0, lens[0]), "the oldest datagram is delivered, unchanged and unmerged");
            assert!(queue_len(&incoming) == n - 1);
            let j: usize = kani::any();
            kani::assume(j < 2 && j + 1 < n);
            assert!(queued_is(&incoming, j, 20 * (j + 1), 20 * (j + 1) + lens[j + 1]), "the rest keeps its order");
        }
        Poll::Pending => {
            assert!(n == 0, "Pending only on an empty queue");
            let registered = match incoming.0.lock().unwrap().as_ref() {
                Ok(r) => r.read_waker.is_some(),
                Err(_) => false,
            };
            assert!(registered, "the sleeping reader is registered");
        }
        Poll::Ready(Err(_)) => assert!(false, "no error on a live connection"),
    }
    kani::cover!(n == 3 && lens[0] == 0 && lens[1] > 0, "three queued, first empty");
    kani::cover!(n == 0, "nothing received");
    core::mem::forget(r);
    core::mem::forget(incoming);
    core::mem::forget(reader);
}

fn conn_error(kind: ErrorKind) -> Error {
    Error::Quic(QuicError::with_default_fty(kind, ""))
}

/// C16 (datagram reader), inductive formulation. Ghost `asleep` = "the reader task's last
/// poll_recv returned Pending and its waker has not been invoked since".
/// Invariant INV:  asleep  =>  connection alive  &&  queue empty  &&  read_waker is the task's waker.
/// INV holds in the initial state (asleep = false) and every atomic step (one lock-protected method:
/// poll_recv / recv_datagram / on_conn_error) from ANY state satisfying INV re-establishes it, so in
/// every schedule of any length the reader never sleeps unwoken on a queued datagram or a failed
/// connection. The pre-state is built directly from the private fields:
///   failed          -> Err(e)
///   !failed, asleep -> Ok{queue = [], read_waker = Some(task waker)}
///   !failed, awake  -> Ok{queue = n <= 2 datagrams, read_waker = None | Some(stale task waker)}
struct Pre {
    incoming: DatagramIncoming,
    n: usize,
    failed: bool,
    asleep: bool,
}

fn step_prestate(n: usize, failed: bool, asleep: bool, stale: bool) -> Pre {
    let lens = [2usize, 2, 2];
    let incoming = if failed {
        DatagramIncoming(Arc::new(Mutex::new(Err(conn_error(ErrorKind::Internal)))))
    } else {
        fifo_prestate(100, n, &lens, if asleep || stale { Some(waker(0)) } else { None })
    };
    Pre { incoming, n, failed, asleep }
}

/// INV on the post-state.
fn inv_holds(incoming: &DatagramIncoming, asleep: bool) -> bool {
    if !asleep {
        return true;
    }
    match incoming.0.lock().unwrap().as_ref() {
        Ok(r) => {
            r.rcvd_datagrams.len() == 0
                && match r.read_waker.as_ref() {
                    Some(w) => w.will_wake(&waker(0)),
                    None => false,
                }
        }
        Err(_) => false,
    }
}

fn any_pre(max_n: usize) -> Pre {
    let n: usize = kani::any();
    let failed: bool = kani::any();
    let asleep: bool = kani::any();
    let stale: bool = kani::any();
    kani::assume(n <= max_n);
    kani::assume(!(asleep && (failed || n > 0))); // INV
    step_prestate(n, failed, asleep, stale)
}

#[kani::proof]
#[kani::unwind(6)]
#[kani::stub(alloc::fmt::format, stub_fmt)]
#[kani::stub(core::slice::index::slice_index_fail, stub_slice_index_fail)]
#[kani::stub(std::sync::Mutex::lock, stub_mutex_lock)]
#[kani::stub(tracing::callsite::DefaultCallsite::interest, stub_interest)]
#[kani::stub(tracing::__macro_support::__is_enabled, stub_is_enabled)]
#[kani::stub(tracing::Event::dispatch, stub_dispatch)]
#[kani::stub(<std::io::Error as core::convert::From<qbase::error::Error>>::from, stub_io_from_qerr)]
fn c16_datagram_reader_step_poll() {
    let pre = any_pre(2);
    let reader = DatagramReader(pre.incoming.0.clone());
    let w = waker(0);
    let mut cx = Context::from_waker(&w);
    let before = wakes(0);
    let r = reader.poll_recv(&mut cx);
    let asleep_after = match &r {
        Poll::Pending => {
            assert!(pre.n == 0 && !pre.failed, "Pending only when nothing is queued and the connection is alive");
            true
        }
        Poll::Ready(Ok(x)) => {
            assert!(pre.n > 0 && !pre.failed);
            assert!(is_dgram(x, 0, 2));
            assert!(queue_len(&pre.incoming) == pre.n - 1);
            false
        }
        Poll::Ready(Err(e)) => {
            assert!(pre.failed);
            assert!(e.kind() == io::ErrorKind::BrokenPipe);
            false
        }
    };
    assert!(wakes(0) == before, "polling wakes nobody");
    assert!(inv_holds(&pre.incoming, asleep_after), "a Pending poll leaves the task registered on a live, empty queue");
    kani::cover!(asleep_after && pre.asleep, "spurious re-poll while asleep");
    kani::cover!(asleep_after && !pre.asleep, "goes to sleep");
    kani::cover!(pre.failed, "poll after connection error");
    kani::cover!(pre.n == 2, "poll with two queued");
    core::mem::forget(r);
    core::mem::forget(pre);
    core::mem::forget(reader);
}

#[kani::proof]
#[kani::unwind(6)]
#[kani::stub(alloc::fmt::format, stub_fmt)]
#[kani::stub(core::slice::index::slice_index_fail, stub_slice_index_fail)]
#[kani::stub(std::sync::Mutex::lock, stub_mutex_lock)]
#[kani::stub(tracing::callsite::DefaultCallsite::interest, stub_interest)]
#[kani::stub(tracing::__macro_support::__is_enabled, stub_is_enabled)]
#[kani::stub(tracing::Event::dispatch, stub_dispatch)]
fn c16_datagram_reader_step_recv() {
    let pre = any_pre(1); // recv_datagram's wake-up logic does not depend on the queue length
    let before = wakes(0);
    let r = pre.incoming.recv_datagram(DatagramFrame::new(true, VarInt::from_u32(2)), dgram(60, 62));
    assert!(r.is_ok() == !pre.failed);
    core::mem::forget(r);
    if !pre.failed {
        assert!(queue_len(&pre.incoming) == pre.n + 1);
    }
    if pre.asleep {
        assert!(wakes(0) == before + 1, "a datagram arriving while the reader sleeps wakes it (once)");
    }
    let asleep_after = pre.asleep && wakes(0) == before;
    assert!(inv_holds(&pre.incoming, asleep_after));
    kani::cover!(pre.asleep, "sleeping reader woken by a datagram");
    kani::cover!(!pre.asleep && !pre.failed && pre.n == 1, "nobody asleep");
    kani::cover!(pre.failed, "datagram after connection error");
    core::mem::forget(pre);
}

#[kani::proof]
#[kani::unwind(6)]
#[kani::stub(alloc::fmt::format, stub_fmt)]
#[kani::stub(core::slice::index::slice_index_fail, stub_slice_index_fail)]
#[kani::stub(std::sync::Mutex::lock, stub_mutex_lock)]
#[kani::stub(tracing::callsite::DefaultCallsite::interest, stub_interest)]
#[kani::stub(tracing::__macro_support::__is_enabled, stub_is_enabled)]
#[kani::stub(tracing::Event::dispatch, stub_dispatch)]
fn c16_datagram_reader_step_error() {
    let pre = any_pre(2);
    let before = wakes(0);
    pre.incoming.on_conn_error(&conn_error(ErrorKind::FlowControl));
    if pre.asleep {
        assert!(wakes(0) == before + 1, "the connection error wakes the sleeping reader (once)");
    }
    let now_failed = match pre.incoming.0.lock().unwrap().as_ref() {
        Ok(_) => false,
        Err(e) => e.kind() == if pre.failed { ErrorKind::Internal } else { ErrorKind::FlowControl },
    };
    assert!(now_failed, "the connection is failed afterwards, first error kept");
    let asleep_after = pre.asleep && wakes(0) == before;
    assert!(inv_holds(&pre.incoming, asleep_after));
    kani::cover!(pre.asleep, "sleeping reader woken by the connection error");
    kani::cover!(!pre.asleep && !pre.failed && pre.n == 2, "queued datagrams discarded");
    kani::cover!(pre.failed, "second error");
    core::mem::forget(pre);
}

fn any_kind() -> ErrorKind {
    let k: u8 = kani::any();
    kani::assume(k < 4);
    match k {
        0 => ErrorKind::Internal,
        1 => ErrorKind::FlowControl,
        2 => ErrorKind::ProtocolViolation,
        _ => ErrorKind::Application,
    }
}

/// The connection error carried by an io::Error produced from it.
fn io_kind(e: &io::Error) -> Option<ErrorKind> {
    e.get_ref().and_then(|inner| inner.downcast_ref::<Error>()).map(|q| q.kind())
}

/// C17: DatagramIncoming::on_conn_error from a symbolic state (0..2 queued datagrams, reader
/// registered or not): the registered reader is woken, the first error is fixed, every later
/// operation completes immediately with that error, nothing more is delivered.
#[kani::proof]
#[kani::unwind(6)]
#[kani::stub(alloc::fmt::format, stub_fmt)]
#[kani::stub(core::slice::index::slice_index_fail, stub_slice_index_fail)]
#[kani::stub(std::sync::Mutex::lock, stub_mutex_lock)]
#[kani::stub(tracing::callsite::DefaultCallsite::interest, stub_interest)]
#[kani::stub(tracing::__macro_support::__is_enabled, stub_is_enabled)]
#[kani::stub(tracing::Event::dispatch, stub_dispatch)]
fn c17_datagram_incoming_poison() {
    let incoming = DatagramIncoming::new(100);
    let reader = incoming.new_reader().unwrap();
    let w = waker(0);
    let mut cx = Context::from_waker(&w);
    let registered: bool = kani::any();
    let nq: usize = kani::any();
    kani::assume(nq <= 2);
    if registered {
        // a reader can only be asleep on an empty queue
        kani::assume(nq == 0);
        let r = reader.poll_recv(&mut cx);
        assert!(r.is_pending());
        core::mem::forget(r);
    } else {
        let mut i = 0;
        while i < 2 {
            if i < nq {
                let r = incoming.recv_datagram(DatagramFrame::new(true, VarInt::from_u32(2)), dgram(0, 2));
                core::mem::forget(r);
            }
            i += 1;
        }
    }
    let k1 = any_kind();
    let k2 = any_kind();
    kani::assume(k1 != k2);
    let before = wakes(0);
    incoming.on_conn_error(&conn_error(k1));
    assert!(wakes(0) == before + if registered { 1 } else { 0 }, "the sleeping reader is woken by the connection error");
    incoming.on_conn_error(&conn_error(k2)); // a later error does not replace the first
    assert!(wakes(0) == before + if registered { 1 } else { 0 });

    match reader.poll_recv(&mut cx) {
        Poll::Ready(Err(e)) => {
            assert!(e.kind() == io::ErrorKind::BrokenPipe);
            assert!(io_kind(&e) == Some(k1), "read completes with the connection's (first) error");
            core::mem::forget(e);
        }
        _ => assert!(false, "a read after the connection error completes immediately with the error"),
    }
    match incoming.recv_datagram(DatagramFrame::new(true, VarInt::from_u32(2)), dgram(0, 2)) {
        Err(e) => {
            assert!(e.kind() == k1);
            core::mem::forget(e);
        }
        Ok(()) => assert!(false, "nothing is accepted after the connection error"),
    }
    match incoming.new_reader() {
        Err(e) => {
            assert!(io_kind(&e) == Some(k1));
            core::mem::forget(e);
        }
        Ok(_) => assert!(false, "no reader after the connection error"),
    }
    kani::cover!(registered, "reader was asleep");
    kani::cover!(!registered && nq == 2, "two undelivered datagrams discarded");
    core::mem::forget(incoming);
    core::mem::forget(reader);
}
