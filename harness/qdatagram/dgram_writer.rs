// C19 (send side) + C17 (DatagramOutgoing poison) — compiled inside qdatagram::writer.
//
// DatagramWriter::send_bytes ∘ DatagramOutgoing::try_load_data_into into a recording BufMut with a
// symbolic amount of remaining packet space, datagram = identity sequence of symbolic length,
// peer's max_datagram_frame_size symbolic (0 = extension disabled).
use bytes::buf::UninitSlice;
use qbase::{
    error::{ErrorKind, QuicError},
    frame::{Frame, FrameType, GetFrameType},
    packet::io::RecordFrame,
};

use super::*;

const W: usize = 72; // datagram content window
static SEQ: [u8; W] = {
    let mut a = [0u8; W];
    let mut i = 0;
    while i < W {
        a[i] = (i as u8) ^ 0xA5; // never 0x00 in the first bytes: distinguishable from padding
        i += 1;
    }
    a
};

fn stub_fmt(_a: core::fmt::Arguments<'_>) -> String {
    String::new()
}
/// Panic-message formatting of slice-index failures dominates symbolic execution; the panic itself stays.
fn stub_slice_index_fail(_s: usize, _e: usize, _l: usize) -> ! {
    panic!("slice index out of range")
}

// tracing macros make kani-compiler 0.68 panic (intrinsics.rs:243); logging is irrelevant here.
fn stub_interest(_c: &tracing::callsite::DefaultCallsite) -> tracing::subscriber::Interest {
    tracing::subscriber::Interest::never()
}
fn stub_is_enabled(_m: &tracing::Metadata<'static>, _i: tracing::subscriber::Interest) -> bool {
    false
}
fn stub_dispatch<'a>(_m: &'static tracing::Metadata<'static>, _f: &'a tracing::field::ValueSet<'_>)
where
    'a: 'a,
{
}

/// Stub for `std::sync::Mutex::lock`: one CAS (`try_lock`) instead of the futex spin/wait loop
/// that CBMC unrolls to the bound at every lock site. Kani is sequential: a lock that is already
/// held here would be a self-deadlock in the real code, reported as a failed check (not hidden).
fn stub_mutex_lock<T: ?Sized>(m: &std::sync::Mutex<T>) -> std::sync::LockResult<std::sync::MutexGuard<'_, T>> {
    match m.try_lock() {
        Ok(g) => Ok(g),
        Err(std::sync::TryLockError::Poisoned(p)) => Err(p),
        Err(std::sync::TryLockError::WouldBlock) => panic!("self-deadlock: mutex already held"),
    }
}

static mut TRANSPORT_RAISED: u32 = 0;
/// Stub for `ArcSendWakers::wake_all_by` (connection-level fan-out over BTreeMap<Pathway, _>).
fn stub_wake_all_by(_this: &ArcSendWakers, signals: Signals) {
    assert!(signals == Signals::TRANSPORT);
    unsafe { TRANSPORT_RAISED += 1 };
}

/// Recording packet buffer with `cap` bytes of space. It does not copy bytes; it records WHAT is
/// written in which order (loop-free, no arrays at symbolic offsets):
///   * put_bytes(0, n)            -> `pad` PADDING bytes, only before anything else,
///   * put_slice of header bytes  -> stored in `hdr` (frame type, optional length varint),
///   * put_slice of the payload   -> recognised by ADDRESS: it must be the very slice the
///                                   application submitted (SEQ[0..len]), in one piece, after the header.
/// bytes::BufMut's provided put_u8/put_u16/... all funnel into put_slice.
struct Sink {
    cap: usize,
    pos: usize,
    phase: u8, // 0 nothing, 1 padding, 2 header, 3 payload
    pad: usize,
    hdr: [u8; 4],
    hdr_len: usize,
    payload_len: usize,
    payload_puts: u32,
    frames: u32,
    last_is_datagram: bool,
    dummy: [u8; 1],
}

impl Sink {
    fn new(cap: usize) -> Self {
        Sink { cap, pos: 0, phase: 0, pad: 0, hdr: [0; 4], hdr_len: 0, payload_len: 0, payload_puts: 0, frames: 0, last_is_datagram: false, dummy: [0] }
    }
}

unsafe impl BufMut for Sink {
    fn remaining_mut(&self) -> usize {
        self.cap - self.pos
    }
    unsafe fn advance_mut(&mut self, _cnt: usize) {
        panic!("raw chunk access is not used by the frame writers");
    }
    fn chunk_mut(&mut self) -> &mut UninitSlice {
        panic!("raw chunk access is not used by the frame writers");
        #[allow(unreachable_code)]
        UninitSlice::new(&mut self.dummy[..])
    }
    fn put_slice(&mut self, src: &[u8]) {
        let n = src.len();
        assert!(n <= self.cap - self.pos, "advance out of bounds"); // same as the provided method
        if n == 0 {
            return;
        }
        if core::ptr::eq(src.as_ptr(), SEQ.as_ptr()) {
            assert!(self.phase == 2, "payload directly after the frame header");
            self.payload_len = n;
            self.payload_puts += 1;
            self.phase = 3;
        } else {
            assert!(self.phase <= 2, "nothing after the payload");
            assert!(n <= 2 && self.hdr_len + n <= 4);
            self.hdr[self.hdr_len] = src[0];
            if n == 2 {
                self.hdr[self.hdr_len + 1] = src[1];
            }
            self.hdr_len += n;
            self.phase = 2;
        }
        self.pos += n;
    }
    fn put_bytes(&mut self, val: u8, cnt: usize) {
        assert!(cnt <= self.cap - self.pos, "advance out of bounds");
        assert!(val == 0 && self.phase == 0, "only PADDING, only in front of the frame");
        self.pad += cnt;
        self.pos += cnt;
        if cnt > 0 {
            self.phase = 1;
        }
    }
}

impl RecordFrame<Frame<Bytes>, Bytes> for Sink {
    fn record_frame(&mut self, frame: &Frame<Bytes>) {
        self.frames += 1;
        self.last_is_datagram = matches!(frame.frame_type(), FrameType::Datagram(_));
    }
}

fn varint_size(x: usize) -> usize {
    if x < 64 { 1 } else if x < 16384 { 2 } else { 4 }
}

fn queue_len(outgoing: &DatagramOutgoing) -> usize {
    match outgoing.0.lock().unwrap().as_ref() {
        Ok(w) => w.datagrams.len(),
        Err(_) => usize::MAX,
    }
}

/// Admission, part 1: a writer exists iff the peer enabled the extension.
#[kani::proof]
#[kani::unwind(6)]
#[kani::stub(alloc::fmt::format, stub_fmt)]
#[kani::stub(core::slice::index::slice_index_fail, stub_slice_index_fail)]
#[kani::stub(std::sync::Mutex::lock, stub_mutex_lock)]
#[kani::stub(tracing::callsite::DefaultCallsite::interest, stub_interest)]
#[kani::stub(tracing::__macro_support::__is_enabled, stub_is_enabled)]
#[kani::stub(tracing::Event::dispatch, stub_dispatch)]
fn c19_new_writer() {
    let max: u64 = kani::any();
    let outgoing = DatagramOutgoing::new(ArcSendWakers::new());
    match outgoing.new_writer(max) {
        Ok(w) => {
            assert!(max != 0);
            assert!(w.max_datagram_frame_size == max as usize, "the writer enforces the peer's limit");
            core::mem::forget(w);
        }
        Err(e) => {
            assert!(max == 0, "a writer is refused only if the peer disabled the extension (max_datagram_frame_size = 0)");
            assert!(e.kind() == io::ErrorKind::Unsupported);
            core::mem::forget(e);
        }
    }
    kani::cover!(max == 0, "extension disabled by the peer");
    kani::cover!(max == 1, "smallest limit");
    core::mem::forget(outgoing);
}

/// Admission, part 2: DatagramWriter::send_bytes against the peer's limit.
#[kani::proof]
#[kani::unwind(6)]
#[kani::stub(alloc::fmt::format, stub_fmt)]
#[kani::stub(core::slice::index::slice_index_fail, stub_slice_index_fail)]
#[kani::stub(std::sync::Mutex::lock, stub_mutex_lock)]
#[kani::stub(tracing::callsite::DefaultCallsite::interest, stub_interest)]
#[kani::stub(tracing::__macro_support::__is_enabled, stub_is_enabled)]
#[kani::stub(tracing::Event::dispatch, stub_dispatch)]
#[kani::stub(qbase::net::tx::ArcSendWakers::wake_all_by, stub_wake_all_by)]
fn c19_admission() {
    let max: usize = kani::any();
    let len: usize = kani::any();
    kani::assume(max >= 1 && len <= W);
    let outgoing = DatagramOutgoing::new(ArcSendWakers::new());
    // what new_writer(max) returns for max != 0 (c19_new_writer)
    let writer = DatagramWriter { writer: outgoing.0.clone(), max_datagram_frame_size: max };
    let data = Bytes::from_static(&SEQ).slice(0..len);
    let raised = unsafe { TRANSPORT_RAISED };
    let accepted = match writer.send_bytes(data) {
        Ok(()) => true,
        Err(e) => {
            assert!(e.kind() == io::ErrorKind::InvalidInput);
            core::mem::forget(e);
            false
        }
    };
    // refused <=> even the smallest encoding (type byte + payload) exceeds the peer's limit
    assert!(accepted == (1 + len <= max), "refused iff it cannot fit the peer's max_datagram_frame_size");
    assert!(unsafe { TRANSPORT_RAISED } == raised + if accepted { 1 } else { 0 }, "sending tasks notified iff queued");
    assert!(queue_len(&outgoing) == if accepted { 1 } else { 0 }, "queued whole iff accepted");
    if accepted {
        let g = outgoing.0.lock().unwrap();
        let q = &g.as_ref().unwrap().datagrams;
        let d = q.front().unwrap();
        assert!(d.len() == len && (len == 0 || core::ptr::eq(d.as_ptr(), SEQ.as_ptr())), "the queued datagram is the submitted one");
        core::mem::forget(g);
    }
    kani::cover!(accepted && len == 0, "empty datagram accepted");
    kani::cover!(accepted && 1 + len == max, "largest admissible datagram");
    kani::cover!(!accepted, "refused: too large for the peer");
    core::mem::forget(outgoing);
    core::mem::forget(writer);
}

#[derive(Clone, Copy)]
struct Out {
    loaded: bool,
    ty: u8,
    pad: usize,
    len: usize,
}

/// Loading one accepted datagram into a packet with `space` bytes left.
/// Instance bounds: datagram length 0..=LEN_HI, packet space 0..=SP_HI, peer limit 1..=MAX_HI,
/// all symbolic; the datagram was admitted by send_bytes.
/// `exclude_defect`: assume away the trigger of suspected defect #15
///   (with-length form chosen although type + length + payload exceeds the peer's limit).
fn load_one<const LEN_HI: usize, const SP_HI: usize, const MAX_HI: u64>(exclude_defect: bool) -> Out {
    let mut out = Out { loaded: false, ty: 0, pad: 0, len: 0 };
    let max: u64 = kani::any();
    let len: usize = kani::any();
    let space: usize = kani::any();
    kani::assume(max >= 1 && max <= MAX_HI && len <= LEN_HI && LEN_HI <= W && space <= SP_HI);
    kani::assume(1 + len as u64 <= max); // admitted (c19_admission)
    if exclude_defect {
        // trigger of #15: the loader picks the with-length form whenever space allows
        kani::assume(1 + varint_size(len) as u64 + len as u64 <= max);
    }

    // pre-state: the queue holds exactly this admitted datagram (what c19_admission establishes
    // for an accepted send_bytes); built directly so that no io::Error path is in the query
    let outgoing = DatagramOutgoing::new(ArcSendWakers::new());
    outgoing.0.lock().unwrap().as_mut().unwrap().datagrams.push_back(Bytes::from_static(&SEQ).slice(0..len));

    let mut sink = Sink::new(space);
    let r = outgoing.try_load_data_into(&mut sink);
    match r {
        Err(sig) => {
            assert!(sink.pos == 0 && sink.frames == 0, "nothing emitted on failure");
            assert!(sig == Signals::CONGESTION);
            assert!(space < 1 + len, "an accepted datagram is loaded whenever type byte + payload fit");
            assert!(queue_len(&outgoing) == 1, "it stays queued, whole, for the next packet");
        }
        Ok(()) => {
            assert!(space >= 1 + len);
            assert!(sink.frames == 1 && sink.last_is_datagram, "exactly one DATAGRAM frame");
            assert!(sink.pos <= space, "never more than the remaining packet space");
            assert!(queue_len(&outgoing) == 0);
            // what a receiver parses front to back: `pad` PADDING bytes, then the frame header
            // (0x31 = DATAGRAM with length, 0x30 = DATAGRAM extending to the end of the packet),
            // then the payload.
            let ty = sink.hdr[0];
            let pad = sink.pad;
            let hdr = sink.hdr_len;
            assert!(ty == 0x30 || ty == 0x31, "DATAGRAM frame type");
            if ty == 0x31 {
                assert!(pad == 0, "no padding in front of a length-prefixed frame");
                let b0 = sink.hdr[1];
                let l = if b0 >> 6 == 0 {
                    assert!(hdr == 2);
                    b0 as usize
                } else {
                    assert!(b0 >> 6 == 1 && hdr == 3);
                    (((b0 & 0x3f) as usize) << 8) | sink.hdr[2] as usize
                };
                assert!(l == len, "length field == payload length");
                assert!(hdr == 1 + varint_size(len), "minimal varint");
            } else {
                assert!(hdr == 1);
                assert!(sink.pos == space, "a frame without length is the last thing in the packet (padding goes in front)");
            }
            assert!(sink.payload_len == len && sink.payload_puts == if len > 0 { 1 } else { 0 },
                "payload is exactly the submitted datagram, in one piece: not truncated, not merged, not copied from elsewhere");
            assert!(sink.pos == pad + hdr + len);
            // the frame (type + optional length + payload) respects the peer's limit:
            // this is what the peer's receiver checks (DatagramIncoming::recv_datagram)
            assert!((hdr + len) as u64 <= max, "emitted DATAGRAM frame exceeds the peer's max_datagram_frame_size");
            out.loaded = true;
            out.ty = ty;
            out.pad = pad;
        }
    }
    out.len = len;
    core::mem::forget(outgoing);
    out
}

/// EXPOSES suspected defect #15 (tier pending).
#[kani::proof]
#[kani::unwind(6)]
#[kani::stub(alloc::fmt::format, stub_fmt)]
#[kani::stub(core::slice::index::slice_index_fail, stub_slice_index_fail)]
#[kani::stub(std::sync::Mutex::lock, stub_mutex_lock)]
#[kani::stub(tracing::callsite::DefaultCallsite::interest, stub_interest)]
#[kani::stub(tracing::__macro_support::__is_enabled, stub_is_enabled)]
#[kani::stub(tracing::Event::dispatch, stub_dispatch)]
#[kani::stub(qbase::net::tx::ArcSendWakers::wake_all_by, stub_wake_all_by)]
fn c19_load_one() {
    let o = load_one::<70, 96, 100>(false);
    kani::cover!(o.loaded && o.ty == 0x31 && o.len >= 64, "with length, 2-byte varint");
    kani::cover!(o.loaded && o.ty == 0x31 && o.len < 64, "with length, 1-byte varint");
    kani::cover!(o.loaded && o.ty == 0x30 && o.pad > 0, "without length, padded in front");
    kani::cover!(o.loaded && o.ty == 0x30 && o.pad == 0, "without length, exact fit");
    kani::cover!(o.loaded && o.len == 0, "empty datagram");
    kani::cover!(!o.loaded, "no room in this packet");
}

/// Concrete witness of suspected defect #15 through the public API (tier pending; no symbolic
/// input, so the checker replays it natively as is): peer max_datagram_frame_size = 10, the
/// application sends a 9-byte datagram (admitted: 1 + 9 <= 10), 32 bytes of packet space are left.
/// The loader prefers the length-prefixed form and emits `31 09 <9 bytes>` = 11 bytes > 10, which a
/// peer running this very implementation answers with PROTOCOL_VIOLATION
/// (DatagramIncoming::recv_datagram: encoding_size 2 + 9 > 10).
#[kani::proof]
#[kani::unwind(6)]
#[kani::stub(alloc::fmt::format, stub_fmt)]
#[kani::stub(core::slice::index::slice_index_fail, stub_slice_index_fail)]
#[kani::stub(std::sync::Mutex::lock, stub_mutex_lock)]
#[kani::stub(tracing::callsite::DefaultCallsite::interest, stub_interest)]
#[kani::stub(tracing::__macro_support::__is_enabled, stub_is_enabled)]
#[kani::stub(tracing::Event::dispatch, stub_dispatch)]
#[kani::stub(qbase::net::tx::ArcSendWakers::wake_all_by, stub_wake_all_by)]
fn c19_len_max_minus_1_witness() {
    const PEER_MAX: u64 = 10;
    const LEN: usize = 9;
    let outgoing = DatagramOutgoing::new(ArcSendWakers::new());
    let writer = match outgoing.new_writer(PEER_MAX) {
        Ok(w) => w,
        Err(_) => panic!("extension enabled"),
    };
    let r = writer.send_bytes(Bytes::from_static(&SEQ).slice(0..LEN));
    assert!(r.is_ok(), "1 + 9 <= 10: admitted");
    core::mem::forget(r);
    let mut sink = Sink::new(32);
    let r = outgoing.try_load_data_into(&mut sink);
    assert!(r.is_ok());
    kani::cover!(true, "datagram loaded");
    assert!(sink.payload_len == LEN);
    assert!(
        (sink.hdr_len + sink.payload_len) as u64 <= PEER_MAX,
        "emitted DATAGRAM frame exceeds the peer's max_datagram_frame_size"
    );
    core::mem::forget(outgoing);
    core::mem::forget(writer);
}

/// Twin with the trigger assumed away.
#[kani::proof]
#[kani::unwind(6)]
#[kani::stub(alloc::fmt::format, stub_fmt)]
#[kani::stub(core::slice::index::slice_index_fail, stub_slice_index_fail)]
#[kani::stub(std::sync::Mutex::lock, stub_mutex_lock)]
#[kani::stub(tracing::callsite::DefaultCallsite::interest, stub_interest)]
#[kani::stub(tracing::__macro_support::__is_enabled, stub_is_enabled)]
#[kani::stub(tracing::Event::dispatch, stub_dispatch)]
#[kani::stub(qbase::net::tx::ArcSendWakers::wake_all_by, stub_wake_all_by)]
fn c19_load_one_twin() {
    let o = load_one::<70, 96, 100>(true);
    kani::cover!(o.loaded && o.ty == 0x31 && o.len >= 64, "with length, 2-byte varint");
    kani::cover!(o.loaded && o.ty == 0x31 && o.len < 64, "with length, 1-byte varint");
    kani::cover!(o.loaded && o.ty == 0x30 && o.pad > 0, "without length, padded in front");
    kani::cover!(o.loaded && o.ty == 0x30 && o.pad == 0, "without length, exact fit");
    kani::cover!(o.loaded && o.len == 0, "empty datagram");
    kani::cover!(!o.loaded, "no room in this packet");
}

/// Nothing queued / connection failed: nothing is emitted.
#[kani::proof]
#[kani::unwind(6)]
#[kani::stub(alloc::fmt::format, stub_fmt)]
#[kani::stub(core::slice::index::slice_index_fail, stub_slice_index_fail)]
#[kani::stub(std::sync::Mutex::lock, stub_mutex_lock)]
#[kani::stub(tracing::callsite::DefaultCallsite::interest, stub_interest)]
#[kani::stub(tracing::__macro_support::__is_enabled, stub_is_enabled)]
#[kani::stub(tracing::Event::dispatch, stub_dispatch)]
#[kani::stub(qbase::net::tx::ArcSendWakers::wake_all_by, stub_wake_all_by)]
fn c19_load_nothing() {
    let outgoing = DatagramOutgoing::new(ArcSendWakers::new());
    let space: usize = kani::any();
    kani::assume(space <= 16);
    let mut sink = Sink::new(space);
    assert!(outgoing.try_load_data_into(&mut sink) == Err(Signals::TRANSPORT));
    assert!(sink.pos == 0 && sink.frames == 0);
    kani::cover!(space == 16, "room available, nothing to send");
    core::mem::forget(outgoing);
}

fn conn_error(kind: ErrorKind) -> Error {
    Error::Quic(QuicError::with_default_fty(kind, ""))
}

fn any_kind() -> ErrorKind {
    let k: u8 = kani::any();
    kani::assume(k < 4);
    match k {
        0 => ErrorKind::Internal,
        1 => ErrorKind::FlowControl,
        2 => ErrorKind::ProtocolViolation,
        _ => ErrorKind::Application,
    }
}

/// The connection error carried by an io::Error produced from it.
fn io_kind(e: &io::Error) -> Option<ErrorKind> {
    e.get_ref().and_then(|inner| inner.downcast_ref::<Error>()).map(|q| q.kind())
}

/// C17: DatagramOutgoing::on_conn_error from a symbolic state (0..2 queued datagrams): the first
/// error is fixed; afterwards nothing is accepted and nothing is emitted.
#[kani::proof]
#[kani::unwind(6)]
#[kani::stub(alloc::fmt::format, stub_fmt)]
#[kani::stub(core::slice::index::slice_index_fail, stub_slice_index_fail)]
#[kani::stub(std::sync::Mutex::lock, stub_mutex_lock)]
#[kani::stub(tracing::callsite::DefaultCallsite::interest, stub_interest)]
#[kani::stub(tracing::__macro_support::__is_enabled, stub_is_enabled)]
#[kani::stub(tracing::Event::dispatch, stub_dispatch)]
#[kani::stub(qbase::net::tx::ArcSendWakers::wake_all_by, stub_wake_all_by)]
fn c17_datagram_outgoing_poison() {
    let outgoing = DatagramOutgoing::new(ArcSendWakers::new());
    let writer = DatagramWriter { writer: outgoing.0.clone(), max_datagram_frame_size: 50 };
    let nq: usize = kani::any();
    kani::assume(nq <= 2);
    let mut i = 0;
    while i < 2 {
        if i < nq {
            outgoing.0.lock().unwrap().as_mut().unwrap().datagrams.push_back(Bytes::from_static(&SEQ).slice(0..3));
        }
        i += 1;
    }
    let k1 = any_kind();
    let k2 = any_kind();
    kani::assume(k1 != k2);
    outgoing.on_conn_error(&conn_error(k1));
    outgoing.on_conn_error(&conn_error(k2)); // a later error does not replace the first

    let raised = unsafe { TRANSPORT_RAISED };
    match writer.send_bytes(Bytes::from_static(&SEQ).slice(0..3)) {
        Err(e) => {
            assert!(e.kind() == io::ErrorKind::BrokenPipe);
            assert!(io_kind(&e) == Some(k1), "send completes with the connection's (first) error");
            core::mem::forget(e);
        }
        Ok(()) => assert!(false, "no datagram is accepted after the connection error"),
    }
    assert!(unsafe { TRANSPORT_RAISED } == raised);
    let mut sink = Sink::new(64);
    assert!(outgoing.try_load_data_into(&mut sink) == Err(Signals::empty()), "connection closed: no signal to wait for");
    assert!(sink.pos == 0 && sink.frames == 0, "nothing is emitted after the connection error, queued datagrams are dropped");
    match writer.max_datagram_frame_size() {
        Err(e) => {
            assert!(io_kind(&e) == Some(k1));
            core::mem::forget(e);
        }
        Ok(_) => assert!(false),
    }
    match outgoing.new_writer(50) {
        Err(e) => {
            assert!(io_kind(&e) == Some(k1));
            core::mem::forget(e);
        }
        Ok(_) => assert!(false, "no writer after the connection error"),
    }
    kani::cover!(nq == 2, "two unsent datagrams dropped");
    kani::cover!(nq == 0, "idle");
    core::mem::forget(outgoing);
    core::mem::forget(writer);
}
