// Kani harness compiled at the crate root of qdatagram (overlay, cfg(kani) only).
// Property C17, datagram extension as a whole (`DatagramFlow`, public API only): from a state with
// 0..2 received-but-unread datagrams / 0..2 queued-but-unsent datagrams and a reader task parked
// or not, after `DatagramFlow::on_conn_error(e1)` (and a second one with e2):
//   * the parked reader is woken exactly once,
//   * recv / send / reader() / writer() / max_datagram_frame_size() complete immediately with e1
//     (BrokenPipe carrying the connection error; first error wins),
//   * nothing is accepted from the peer, nothing is emitted (queued datagrams are dropped).
// (Per-half harnesses with private-state inspection: dgram_reader.rs / dgram_writer.rs, C19's owner.)
use core::task::{Context, Poll};

use bytes::BufMut;
use qbase::{
    error::{ErrorKind, QuicError},
    frame::Frame,
    packet::io::RecordFrame,
    varint::VarInt,
};

use super::*;

include!("../qbase/wake_common.rs");
use vwk::{waker, wakes};

static SEQ: [u8; 8] = [7u8; 8];

fn stub_fmt(_a: core::fmt::Arguments<'_>) -> String {
    String::new()
}
fn stub_slice_index_fail(_s: usize, _e: usize, _l: usize) -> ! {
    panic!("slice index out of range")
}
fn stub_interest(_c: &tracing::callsite::DefaultCallsite) -> tracing::subscriber::Interest {
    tracing::subscriber::Interest::never()
}
fn stub_is_enabled(_m: &tracing::Metadata<'static>, _i: tracing::subscriber::Interest) -> bool {
    false
}
fn stub_dispatch<'a: 'a>(_m: &'static tracing::Metadata<'static>, _f: &'a tracing::field::ValueSet<'_>) {}
fn stub_mutex_lock<T: ?Sized>(m: &std::sync::Mutex<T>) -> std::sync::LockResult<std::sync::MutexGuard<'_, T>> {
    match m.try_lock() {
        Ok(g) => Ok(g),
        Err(std::sync::TryLockError::Poisoned(p)) => Err(p),
        Err(std::sync::TryLockError::WouldBlock) => panic!("self-deadlock: mutex already held"),
    }
}
static mut RAISED: u32 = 0;
fn stub_wake_all_by(_t: &ArcSendWakers, _s: Signals) {
    unsafe { RAISED += 1 };
}

fn any_kind() -> ErrorKind {
    let k: u8 = kani::any();
    match k % 4 {
        0 => ErrorKind::Internal,
        1 => ErrorKind::FlowControl,
        2 => ErrorKind::ProtocolViolation,
        _ => ErrorKind::None,
    }
}
fn conn_error(kind: ErrorKind) -> Error {
    Error::Quic(QuicError::with_default_fty(kind, ""))
}
/// The connection error carried by an io::Error produced from it.
fn io_kind(e: &io::Error) -> Option<ErrorKind> {
    e.get_ref().and_then(|inner| inner.downcast_ref::<Error>()).map(|q| q.kind())
}

struct Packet {
    cap: usize,
    pos: usize,
    frames: u32,
    dummy: [u8; 1],
}
unsafe impl BufMut for Packet {
    fn remaining_mut(&self) -> usize {
        self.cap - self.pos
    }
    unsafe fn advance_mut(&mut self, cnt: usize) {
        self.pos += cnt;
    }
    fn chunk_mut(&mut self) -> &mut bytes::buf::UninitSlice {
        panic!("raw chunk access is not used by the frame writers");
        #[allow(unreachable_code)]
        bytes::buf::UninitSlice::new(&mut self.dummy[..])
    }
    fn put_slice(&mut self, src: &[u8]) {
        assert!(src.len() <= self.cap - self.pos, "advance out of bounds");
        self.pos += src.len();
    }
    fn put_bytes(&mut self, _val: u8, cnt: usize) {
        assert!(cnt <= self.cap - self.pos, "advance out of bounds");
        self.pos += cnt;
    }
}
impl RecordFrame<Frame<Bytes>, Bytes> for Packet {
    fn record_frame(&mut self, _frame: &Frame<Bytes>) {
        self.frames += 1;
    }
}

fn dgram() -> Bytes {
    Bytes::from_static(&SEQ).slice(0..3)
}

#[kani::proof]
#[kani::unwind(6)]
#[kani::stub(alloc::fmt::format, stub_fmt)]
#[kani::stub(core::slice::index::slice_index_fail, stub_slice_index_fail)]
#[kani::stub(std::sync::Mutex::lock, stub_mutex_lock)]
#[kani::stub(tracing::callsite::DefaultCallsite::interest, stub_interest)]
#[kani::stub(tracing::__macro_support::__is_enabled, stub_is_enabled)]
#[kani::stub(tracing::Event::dispatch, stub_dispatch)]
#[kani::stub(qbase::net::tx::ArcSendWakers::wake_all_by, stub_wake_all_by)]
fn c17_dgram_flow_poison() {
    let flow = DatagramFlow::new(100, ArcSendWakers::new());
    let reader = flow.reader().unwrap();
    let writer = flow.writer(50).unwrap();
    let w = waker(0);
    let mut cx = Context::from_waker(&w);
    let parked: bool = kani::any();
    let n_in: usize = kani::any();
    let n_out: usize = kani::any();
    kani::assume(n_in <= 2 && n_out <= 2);
    if parked {
        kani::assume(n_in == 0); // a reader only sleeps on an empty queue
        let r = reader.poll_recv(&mut cx);
        assert!(r.is_pending());
        core::mem::forget(r);
    }
    let mut i = 0;
    while i < 2 {
        if i < n_in {
            let r = flow.recv_frame((DatagramFrame::new(true, VarInt::from_u32(3)), dgram()));
            assert!(r.is_ok());
            core::mem::forget(r);
        }
        if i < n_out {
            let r = writer.send_bytes(dgram());
            assert!(r.is_ok());
            core::mem::forget(r);
        }
        i += 1;
    }
    let raised = unsafe { RAISED };
    let k1 = any_kind();
    let k2 = any_kind();
    kani::assume(k1 != k2);

    flow.on_conn_error(&conn_error(k1));
    assert!(wakes(0) == if parked { 1 } else { 0 }, "the sleeping reader is woken by the connection error, exactly once");
    flow.on_conn_error(&conn_error(k2));
    assert!(wakes(0) == if parked { 1 } else { 0 }, "a second connection error wakes nobody");

    match reader.poll_recv(&mut cx) {
        Poll::Ready(Err(e)) => {
            assert!(e.kind() == io::ErrorKind::BrokenPipe && io_kind(&e) == Some(k1), "recv completes with the connection's (first) error; unread datagrams are discarded");
            core::mem::forget(e);
        }
        _ => panic!("a read after the connection error completes immediately with the error"),
    }
    match writer.send_bytes(dgram()) {
        Err(e) => {
            assert!(e.kind() == io::ErrorKind::BrokenPipe && io_kind(&e) == Some(k1), "send completes with the connection's (first) error");
            core::mem::forget(e);
        }
        Ok(()) => panic!("no datagram is accepted from the application after the connection error"),
    }
    match writer.max_datagram_frame_size() {
        Err(e) => {
            assert!(io_kind(&e) == Some(k1));
            core::mem::forget(e);
        }
        Ok(_) => panic!("limit query after the connection error"),
    }
    match flow.reader() {
        Err(e) => {
            assert!(io_kind(&e) == Some(k1));
            core::mem::forget(e);
        }
        Ok(_) => panic!("no reader after the connection error"),
    }
    match flow.writer(50) {
        Err(e) => {
            assert!(io_kind(&e) == Some(k1));
            core::mem::forget(e);
        }
        Ok(_) => panic!("no writer after the connection error"),
    }
    match flow.recv_frame((DatagramFrame::new(true, VarInt::from_u32(3)), dgram())) {
        Err(e) => {
            assert!(e.kind() == k1, "a late DATAGRAM frame is refused with the connection's error");
            core::mem::forget(e);
        }
        Ok(()) => panic!("nothing is accepted from the peer after the connection error"),
    }
    let mut packet = Packet { cap: 64, pos: 0, frames: 0, dummy: [0] };
    assert!(flow.try_load_data_into(&mut packet) == Err(Signals::empty()), "connection closed: no signal to wait for");
    assert!(packet.pos == 0 && packet.frames == 0, "no datagram is emitted after the connection error (queued ones are dropped)");
    assert!(unsafe { RAISED } == raised, "the transport is not poked after the error");
    kani::cover!(parked, "reader was asleep");
    kani::cover!(n_in == 2 && n_out == 2, "two unread and two unsent datagrams discarded");
    core::mem::forget(flow);
    core::mem::forget(reader);
    core::mem::forget(writer);
}
