// Kani harnesses compiled inside qconnection::path::util (overlay, cfg(kani) only).
// Property C15, kernel part: Constraints::{new, is_available, available, constrain, commit} with
// exact oracles over the full usize range (buffer length <= 65535).
use super::*;

const MAX_SZ: usize = 65535;
static mut BUF: [u8; MAX_SZ] = [0; MAX_SZ];

fn buf() -> &'static mut [u8] {
    // single-threaded harness; the bytes are never read, only sliced
    unsafe { &mut *core::ptr::addr_of_mut!(BUF) }
}

fn min3(a: usize, b: usize, c: usize) -> usize {
    let m = if a < b { a } else { b };
    if m < c { m } else { c }
}

#[kani::proof]
fn c15_constraints_step() {
    let credit: usize = kani::any();
    let quota: usize = kani::any();
    let mut c = Constraints::new(credit, quota);
    assert!(c.credit_limit == credit && c.send_quota == quota);
    assert!(c.is_available() == (credit > 0), "more can be sent iff some credit is left");
    assert!(c.available() == if credit < quota { credit } else { quota });

    let len: usize = kani::any();
    kani::assume(len <= MAX_SZ);
    let buf = &mut buf()[..len];
    let start = buf.as_ptr();
    let out = c.constrain(buf);
    assert!(out.len() == min3(len, credit, quota), "constrain yields exactly min(buffer, credit, quota) bytes");
    assert!(out.as_ptr() == start, "... and they are a prefix of the buffer");
    let out_len = out.len();

    // the packet writer reports how much of the constrained buffer it used
    let sent: usize = kani::any();
    let in_flight: bool = kani::any();
    let within: bool = kani::any();
    if within {
        kani::assume(sent <= out_len);
    }
    c.commit(sent, in_flight);
    let exp_credit = if sent <= credit { credit - sent } else { 0 };
    let exp_quota = if !in_flight { quota } else if sent <= quota { quota - sent } else { 0 };
    assert!(c.credit_limit == exp_credit, "commit consumes credit, saturating at 0 (never wraps to a huge allowance)");
    assert!(c.send_quota == exp_quota, "commit consumes quota only for in-flight packets, saturating at 0");
    if within {
        assert!(c.credit_limit == credit - sent, "within the constrained buffer the subtraction is exact");
    }
    kani::cover!(within && sent > 0 && c.credit_limit == 0, "credit used up exactly");
    kani::cover!(!within && sent > credit, "over-commit saturates");
    kani::cover!(out_len == quota && quota < credit && quota < len, "quota is the binding limit");
    kani::cover!(out_len == credit && credit < quota && credit < len, "credit is the binding limit");
}

// Several packets packed into one segment under one Constraints (the pattern of
// PacketsAssembler::assemble in burst.rs): their total never exceeds the credit the
// Constraints was created with.
#[kani::proof]
#[kani::unwind(6)]
fn c15_constraints_segment_total() {
    let credit: usize = kani::any();
    let quota: usize = kani::any();
    let mut c = Constraints::new(credit, quota);
    let origin: usize = kani::any();
    kani::assume(origin <= MAX_SZ);
    let mut remaining = origin;
    let mut p = 0;
    while p < 4 {
        let buf = &mut buf()[..remaining];
        let out_len = c.constrain(buf).len();
        let sent: usize = kani::any();
        kani::assume(sent <= out_len);
        let in_flight: bool = kani::any();
        c.commit(sent, in_flight);
        remaining -= sent;
        p += 1;
    }
    let total = origin - remaining;
    assert!(total <= credit, "packets of one segment stay within the credit");
    assert!(c.credit_limit == credit - total);
    assert!(c.is_available() == (total < credit));
    kani::cover!(total == credit && credit > 3, "segment used the credit up");
    kani::cover!(total > 0 && total < credit && remaining == 0, "segment full before the credit is used up");
}
