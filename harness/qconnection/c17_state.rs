// Kani harnesses compiled inside qconnection::state (overlay, cfg(kani) only).
// Property C17, life-cycle code: `ArcConnState::update` on the atomic state code never moves the
// connection backwards, for every sequence of <= 4 updates with arbitrary target states; and the
// terminating error is fixed once (`enter_closing` / `enter_draining` in every order).
use qbase::error::{ErrorKind, QuicError};

use super::*;

fn any_state() -> QlogConnectionState {
    let code: u8 = kani::any();
    kani::assume(code >= 1 && code <= 9);
    decode(code).unwrap()
}

fn stub_fmt(_a: core::fmt::Arguments<'_>) -> String {
    String::new()
}
fn stub_tr_interest(_c: &'static tracing::callsite::DefaultCallsite) -> tracing::subscriber::Interest {
    tracing::subscriber::Interest::never()
}
fn stub_tr_enabled(_m: &tracing::Metadata<'static>, _i: tracing::subscriber::Interest) -> bool {
    false
}
fn stub_tr_dispatch<'a: 'a>(_m: &'static tracing::Metadata<'static>, _f: &'a tracing::field::ValueSet<'_>) {}

#[kani::proof]
#[kani::unwind(3)]
fn c17_state_codec() {
    let code: u8 = kani::any();
    match decode(code) {
        Some(s) => {
            assert!(code >= 1 && code <= 9);
            assert!(encode(s) == code, "decode / encode are inverse on the nine life-cycle codes");
        }
        None => assert!(code == 0 || code > 9),
    }
    // the order of the codes is the order of the life cycle
    assert!(encode(BaseConnectionStates::Attempted.into()) < encode(HANDSHAKE_CONFIRMED));
    assert!(encode(HANDSHAKE_CONFIRMED) < encode(CLOSING));
    assert!(encode(CLOSING) < encode(DRAINING));
    assert!(encode(DRAINING) < encode(BaseConnectionStates::Closed.into()));
    kani::cover!(code == 9, "closed");
}

/// Every sequence of <= 4 updates: the code is non-decreasing; an update succeeds (returns the
/// previous state) iff it moves strictly forward; otherwise it changes nothing.
#[kani::proof]
#[kani::unwind(6)]
#[kani::stub(alloc::fmt::format, stub_fmt)]
#[kani::stub(tracing::callsite::DefaultCallsite::interest, stub_tr_interest)]
#[kani::stub(tracing::__macro_support::__is_enabled, stub_tr_enabled)]
#[kani::stub(tracing::Event::dispatch, stub_tr_dispatch)]
fn c17_state_update_monotone() {
    let state = Arc::new(AtomicU8::new(0));
    // (the two SetOnce cells are not touched by `update`)
    let cs = ArcConnState { state: state.clone(), handshaked: Arc::new(SetOnce::new()), terminated: Arc::new(SetOnce::new()) };
    assert!(cs.current().is_none());
    let mut code: u8 = 0;
    let mut moved: u8 = 0;
    let mut i = 0;
    while i < 4 {
        let target = any_state();
        let t = encode(target);
        let r = cs.update(target);
        let now = state.load(Ordering::Acquire);
        assert!(now >= code, "the life-cycle code never moves backwards");
        if t > code {
            assert!(now == t, "a forward update takes effect");
            let expect_old = if code == 0 { BaseConnectionStates::Attempted.into() } else { decode(code).unwrap() };
            assert!(r == Some(expect_old), "and reports the state it left");
            moved += 1;
        } else {
            assert!(now == code && r.is_none(), "an update that is not forward changes nothing");
        }
        assert!(cs.current() == decode(now));
        code = now;
        i += 1;
    }
    kani::cover!(moved == 4, "four forward steps");
    kani::cover!(code == 9 && moved == 1, "straight to closed");
    core::mem::forget(cs);
}
