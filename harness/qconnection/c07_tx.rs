// Kani harnesses compiled inside qconnection::tx (overlay, cfg(kani) only).
//
// C07, sender half (writer level): "every packet that leaves the endpoint carries a strictly larger
// packet number than any earlier one ... so no two packets are ever protected with the same nonce."
//
// The REAL tx::PacketWriter / tx::TrivialPacketWriter are built over a small stack buffer with
// harness-supplied keys and a real ArcSentJournal<GuaranteedFrame> (the data space's journal type):
//   * the packet key records the packet number it is asked to seal with (= the AEAD nonce input) in
//     SEALED[..]; both keys return Ok unconditionally;
//   * frames go through the writers' own RecordFrame / BufMut impls, driven by the repo's Package impls
//     (`assemble_packet(&mut Packages((sources, PadTo20)))` — the statement of
//     PacketsAssembler::assemble / assemble_closing_packet);
//   * `encrypt_and_protect_packet()` is the real one (clerk.build_* + qevent logger + qbase writer).
// Oracle: a packet is sealed iff assemble returned Ok; it is sealed with the number the journal handed
// out; the next writer opened on the same journal gets a strictly larger number (old + 1); when
// assemble fails nothing is sealed and no number is consumed.
//
// Stubs (logging / clock / lock only): qevent::telemetry::Span::current (thread-local qlog span ->
// the default no-op span), qevent::telemetry::macro_support::build_and_emit_event (returns at once,
// == its behaviour without the `telemetry` feature), std::hash::RandomState::new (constant keys, for
// the span's empty field map), std::sync::Mutex::lock (single CAS), tokio::time::Instant::now.
use std::sync::Arc;

use qbase::{
    cid::ConnectionId,
    frame::{ConnectionCloseFrame, HandshakeDoneFrame, MaxDataFrame, PingFrame},
    packet::{
        io::{Packages, PadTo20},
        signal::SpinBit,
    },
    varint::VarInt,
};

use super::*;
use crate::GuaranteedFrame;

// ---- stubs -------------------------------------------------------------------------------------
#[repr(C)]
struct RawTs {
    s: i64,
    n: u32,
}

/// Stub for tokio::time::Instant::now (build_with_time): a fixed instant.
fn stub_now() -> tokio::time::Instant {
    let std_i: std::time::Instant = unsafe { core::mem::transmute(RawTs { s: 100, n: 0 }) };
    tokio::time::Instant::from_std(std_i)
}

fn stub_mutex_lock<T: ?Sized>(m: &std::sync::Mutex<T>) -> std::sync::LockResult<std::sync::MutexGuard<'_, T>> {
    match m.try_lock() {
        Ok(g) => Ok(g),
        Err(std::sync::TryLockError::Poisoned(p)) => Err(p),
        Err(std::sync::TryLockError::WouldBlock) => panic!("self-deadlock: mutex already held"),
    }
}

/// Stub for std::hash::RandomState::new (DESIGN.md §2.3 fixed_random_state).
fn fixed_random_state() -> std::hash::RandomState {
    unsafe { core::mem::transmute::<[u64; 2], std::hash::RandomState>([0, 0]) }
}

/// Stub for qevent::telemetry::Span::current: the value the thread-local holds when no qlog span was
/// entered (Span::default(): NoopExporter, no fields).
fn stub_span_current() -> qevent::telemetry::Span {
    // a fresh value per call (MEASURED: a shared span cloned per call makes the Arc reference counts
    // symbolic for CBMC's symbolic execution and every drop explores the map's drop glue: no verdict
    // in 1500 s, against 250 s for the fresh value)
    qevent::telemetry::macro_support::new_span(
        Arc::new(qevent::telemetry::handy::NoopExporter),
        std::collections::HashMap::new(),
    )
}

/// Stub for core::slice::index::slice_index_fail (NOTES-perf.md #2): still a failed check, without
/// the panic-message formatting.
fn stub_slice_index_fail(_s: usize, _e: usize, _l: usize) -> ! {
    panic!("slice index out of range")
}

/// Stub for qevent::telemetry::macro_support::build_and_emit_event (see harness/qcongestion/c13_common.rs).
fn no_emit<D: qevent::BeSpecificEventData, A: FnOnce() -> D, B: FnOnce(D) -> qevent::Event>(_a: A, _b: B) {}

// ---- keys ----------------------------------------------------------------------------------------
const TAG: usize = 16;
/// packet numbers the packet key was asked to seal with, in call order
static mut SEALED: [u64; 6] = [u64::MAX; 6];
static mut NSEALED: usize = 0;

struct IdKeys;

impl rustls::quic::PacketKey for IdKeys {
    fn encrypt_in_place(&self, pn: u64, _header: &[u8], _payload: &mut [u8]) -> Result<rustls::quic::Tag, rustls::Error> {
        unsafe {
            assert!(NSEALED < 6);
            SEALED[NSEALED] = pn;
            NSEALED += 1;
        }
        Ok(rustls::quic::Tag::from(&[0u8; TAG][..]))
    }
    fn decrypt_in_place<'a>(&self, _pn: u64, _header: &[u8], payload: &'a mut [u8]) -> Result<&'a [u8], rustls::Error> {
        Ok(&payload[..0])
    }
    fn tag_len(&self) -> usize {
        TAG
    }
    fn confidentiality_limit(&self) -> u64 {
        u64::MAX
    }
    fn integrity_limit(&self) -> u64 {
        u64::MAX
    }
}

impl rustls::quic::HeaderProtectionKey for IdKeys {
    fn encrypt_in_place(&self, _sample: &[u8], _first: &mut u8, _pn: &mut [u8]) -> Result<(), rustls::Error> {
        Ok(())
    }
    fn decrypt_in_place(&self, _sample: &[u8], _first: &mut u8, _pn: &mut [u8]) -> Result<(), rustls::Error> {
        Ok(())
    }
    fn sample_len(&self) -> usize {
        16
    }
}

fn keys() -> DirectionalKeys {
    DirectionalKeys { header: Arc::new(IdKeys), packet: Arc::new(IdKeys) }
}

fn header() -> OneRttHeader {
    OneRttHeader::new(SpinBit::default(), ConnectionId::default())
}

const BUF: usize = 48;

/// next unused number of the journal, observed through the public API (a guard that records nothing
/// and is dropped: an abandoned assembly)
fn peek_next(journal: &ArcSentJournal<GuaranteedFrame>) -> u64 {
    let g = journal.new_packet();
    let pn = g.pn().0;
    drop(g);
    pn
}

fn nsealed() -> usize {
    unsafe { NSEALED }
}

fn sealed(i: usize) -> u64 {
    unsafe { SEALED[i] }
}

// ---- PacketWriter: the three statements of PacketsAssembler::assemble ---------------------------
/// Which of the (small, fixed-size) data sources have something to send. Ping is not a journal frame
/// (record_trivial), MaxData and HandshakeDone are (record_frame).
#[derive(Clone, Copy)]
struct Sources {
    ping: bool,
    max_data: bool,
    handshake_done: bool,
}

impl Sources {
    fn any(&self) -> bool {
        self.ping || self.max_data || self.handshake_done
    }
}

/// burst.rs PacketsAssembler::assemble (anchored in props/C07.journal.toml), minus constraints/commit:
///     let mut packet = space.new_packet(self.new_header()?, self.cc, buffer)?;       // DataSpace: PacketWriter::new_short
///     *packet_content += packet.assemble_packet(&mut Packages((data_sources, PadTo20)))?;
///     let (sent_bytes, props) = packet.encrypt_and_protect_packet();
fn tr_assemble(journal: &ArcSentJournal<GuaranteedFrame>, buffer: &mut [u8], s: Sources, pn_seen: &mut Option<u64>) -> Result<(usize, PacketInfo), Signals> {
    let mut packet = PacketWriter::new_short(
        header(),
        buffer,
        keys(),
        KeyPhaseBit::default(),
        journal,
        Duration::from_secs(1),
        Duration::from_secs(3),
    )?;
    // the number the writer put into the header / will seal with == the number the journal handed out
    let pn = packet.clerk.pn().0;
    assert!(packet.packet_number() == pn, "writer's packet number == clerk.pn()");
    *pn_seen = Some(pn);
    let data_sources = Packages((
        s.ping.then_some(PingFrame),
        s.max_data.then_some(MaxDataFrame::new(VarInt::from_u32(70000))),
        s.handshake_done.then_some(HandshakeDoneFrame),
    ));
    packet.assemble_packet(&mut Packages((data_sources, PadTo20)))?;
    let (sent_bytes, props) = packet.encrypt_and_protect_packet();
    Ok((sent_bytes, props))
}

/// One assemble step + its oracle. `expect_pn`: the harness's bookkeeping of the next unused number.
/// Returns the number the NEXT writer must get and whether a packet left.
fn assemble_step(journal: &ArcSentJournal<GuaranteedFrame>, s: Sources, expect_pn: u64) -> (u64, bool) {
    let sealed_before = nsealed();
    let mut buffer = [0u8; BUF];
    let mut pn_seen = None;
    let r = tr_assemble(journal, &mut buffer[..], s, &mut pn_seen);
    assert!(pn_seen == Some(expect_pn), "the writer got the next unused number: larger than every number that left, equal to an abandoned one");
    match r {
        Ok((sent_bytes, props)) => {
            assert!(s.any(), "a packet leaves only if some source wrote a frame");
            assert!(props.packet_number() == expect_pn);
            assert!(nsealed() == sealed_before + 1, "exactly one packet sealed");
            assert!(sealed(sealed_before) == expect_pn, "sealed with the number handed out (nonce)");
            assert!(sent_bytes >= 1 + 20 && sent_bytes <= BUF);
            (expect_pn + 1, true)
        }
        Err(_signals) => {
            assert!(!s.any(), "assemble fails only if no source had anything to send");
            assert!(nsealed() == sealed_before, "nothing sealed");
            (expect_pn, false)
        }
    }
}

/// The same oracle over a fixed scenario (every buffer offset concrete: cheap): trivial packet,
/// abandoned assembly, two journal frames, mixed packet.
#[kani::proof]
#[kani::unwind(10)]
#[kani::stub(std::sync::Mutex::lock, stub_mutex_lock)]
#[kani::stub(tokio::time::Instant::now, stub_now)]
#[kani::stub(std::hash::RandomState::new, fixed_random_state)]
#[kani::stub(qevent::telemetry::Span::current, stub_span_current)]
#[kani::stub(qevent::telemetry::macro_support::build_and_emit_event, no_emit)]
#[kani::stub(core::slice::index::slice_index_fail, stub_slice_index_fail)]
fn c07_j_tx_packet_writer_scenario() {
    let journal = ArcSentJournal::<GuaranteedFrame>::with_capacity(2);
    let (n1, l1) = assemble_step(&journal, Sources { ping: true, max_data: false, handshake_done: false }, 0);
    let (n2, l2) = assemble_step(&journal, Sources { ping: false, max_data: false, handshake_done: false }, n1);
    let (n3, l3) = assemble_step(&journal, Sources { ping: false, max_data: true, handshake_done: true }, n2);
    assert!(l1 && !l2 && l3 && n1 == 1 && n2 == 1 && n3 == 2);
    assert!(nsealed() == 2 && sealed(0) == 0 && sealed(1) == 1, "nonces 0, 1: never the same twice");
    assert!(peek_next(&journal) == 2, "two numbers consumed by two packets, none by the abandoned assembly");
    kani::cover!(nsealed() == 2, "two packets sealed");
    core::mem::forget(journal);
}

// ---- TrivialPacketWriter: the statements of space.rs assemble_closing_packet --------------------
///     let mut packet = S::new_packet(space, header, buffer).ok()?;                  // DataSpace: TrivialPacketWriter::new_short
///     packet.assemble_packet(&mut Packages((ccf.as_ref(), PadTo20))).ok()?;
///     Some(packet.encrypt_and_protect_packet().0)
fn tr_closing(journal: &ArcSentJournal<GuaranteedFrame>, buffer: &mut [u8], ccf: &ConnectionCloseFrame) -> Option<(usize, u64)> {
    let mut packet = TrivialPacketWriter::new_short(header(), buffer, keys(), KeyPhaseBit::default(), journal).ok()?;
    let pn = packet.clerk.pn().0;
    assert!(packet.packet_number() == pn, "writer's packet number == clerk.pn()");
    packet.assemble_packet(&mut Packages((ccf, PadTo20))).ok()?;
    Some((packet.encrypt_and_protect_packet().0, pn))
}

#[kani::proof]
#[kani::unwind(10)]
#[kani::stub(std::sync::Mutex::lock, stub_mutex_lock)]
#[kani::stub(tokio::time::Instant::now, stub_now)]
#[kani::stub(std::hash::RandomState::new, fixed_random_state)]
#[kani::stub(qevent::telemetry::Span::current, stub_span_current)]
#[kani::stub(qevent::telemetry::macro_support::build_and_emit_event, no_emit)]
#[kani::stub(core::slice::index::slice_index_fail, stub_slice_index_fail)]
fn c07_j_tx_trivial_writer_two_packets() {
    let journal = ArcSentJournal::<GuaranteedFrame>::with_capacity(2);
    // concrete: a symbolic code makes the varint width, hence every later buffer offset, symbolic
    let ccf = ConnectionCloseFrame::new_app(VarInt::from_u32(0x17), "");
    let mut b1 = [0u8; BUF];
    let r1 = tr_closing(&journal, &mut b1[..], &ccf);
    let Some((n1, pn1)) = r1 else {
        panic!("a CONNECTION_CLOSE frame fits a 48-byte buffer");
    };
    assert!(pn1 == 0 && nsealed() == 1 && sealed(0) == pn1);
    assert!(n1 >= 21 && n1 <= BUF);
    // a second closing packet (send_ccf_packets is re-run for every packet received while closing)
    let mut b2 = [0u8; BUF];
    let r2 = tr_closing(&journal, &mut b2[..], &ccf);
    let Some((_n2, pn2)) = r2 else {
        panic!("second closing packet");
    };
    assert!(pn2 > pn1 && pn2 == pn1 + 1, "the closing packet consumed its number: strictly larger number for the next packet");
    assert!(nsealed() == 2 && sealed(1) == pn2 && sealed(0) < sealed(1), "never the same nonce twice");
    assert!(peek_next(&journal) == pn2 + 1);
    kani::cover!(nsealed() == 2, "two packets sealed");
    core::mem::forget(journal);
    core::mem::forget(ccf);
}
