// Kani harnesses compiled inside qconnection::path::aa (overlay, cfg(kani) only).
// Property C15: "An unvalidated address never receives more than 3x what it sent".
//
// Real code under test: AntiAmplifier<3>::{on_rcvd, balance, on_sent, grant, abort} (this module, bare
// atomics) and Constraints::{new, constrain, commit} (path/util.rs).
// NOT real: the *call order* in which qconnection/src/path/burst.rs (Burst::burst, load_spaces,
// load_ping, load_heartbeat, PacketsAssembler::{new, assemble, commit}) and path.rs
// (Path::send_packets) invoke them. That order is transcribed below (`tr_*` functions); every
// transcribed statement quotes the source line it mirrors. Packet *contents* are abstracted to
// "the packet writer wrote `sent` bytes, sent <= length of the buffer it was handed" (slice
// bounds of PacketWriter guarantee this; it is listed as an assumption).
use std::{
    future::Future,
    pin::pin,
    task::{Context, Poll, RawWaker, RawWakerVTable, Waker},
};

use super::*;
use crate::path::Constraints;

const NORMAL: u8 = 0;
const GRANTED: u8 = 1;
const ABORTED: u8 = 2;

/// Largest datagram / segment / MTU size considered (UDP payloads are < 2^16).
const MAX_SZ: usize = 65535;
/// Bound on the ghost counters so that harness arithmetic (3 * rx) cannot overflow.
const MAX_TOTAL: usize = 1 << 40;

static mut SEGMENT: [u8; MAX_SZ] = [0; MAX_SZ];

fn segment_buf() -> &'static mut [u8] {
    // single-threaded harness; the bytes are never read, only sliced
    unsafe { &mut *core::ptr::addr_of_mut!(SEGMENT) }
}

fn mk(credit: usize, state: u8) -> AntiAmplifier<3> {
    let aa = AntiAmplifier::<3>::new(ArcSendWaker::new());
    aa.credit.store(credit, Ordering::Release);
    aa.state.store(state, Ordering::Release);
    aa
}

fn credit_of(aa: &AntiAmplifier<3>) -> usize {
    aa.credit.load(Ordering::Acquire)
}

fn state_of(aa: &AntiAmplifier<3>) -> u8 {
    aa.state.load(Ordering::Acquire)
}

// ------------------------------------------------------------------------------------------------
// counting waker (RawWaker vtable owned by the harness)

static mut WAKES: usize = 0;

fn vt_clone(_: *const ()) -> RawWaker {
    RawWaker::new(core::ptr::null(), &VTABLE)
}
fn vt_wake(_: *const ()) {
    unsafe { WAKES += 1 }
}
fn vt_drop(_: *const ()) {}
static VTABLE: RawWakerVTable = RawWakerVTable::new(vt_clone, vt_wake, vt_wake, vt_drop);

fn counting_waker() -> Waker {
    unsafe { Waker::from_raw(RawWaker::new(core::ptr::null(), &VTABLE)) }
}

fn wakes() -> usize {
    unsafe { WAKES }
}

// ------------------------------------------------------------------------------------------------
// Ghost accounting. rx = bytes received from the address, tx = bytes handed to sendmmsg for it.
// Invariant J (while the address is not validated):
//     state == NORMAL  =>  credit == 3*rx - tx   (in particular tx <= 3*rx and credit did not wrap)
//     state == ABORTED =>  tx <= 3*rx

struct Ghost {
    rx: usize,
    tx: usize,
}

fn check_j(aa: &AntiAmplifier<3>, g: &Ghost) {
    let st = state_of(aa);
    assert!(st <= 2, "state is one of NORMAL/GRANTED/ABORTED");
    if st != GRANTED {
        assert!(g.tx <= 3 * g.rx, "C15: bytes sent to an unvalidated address <= 3 x bytes received from it");
    }
    if st == NORMAL && g.tx <= 3 * g.rx {
        assert!(credit_of(aa) == 3 * g.rx - g.tx, "credit == 3*rx - tx: the budget arithmetic did not wrap");
    }
}

/// Arbitrary pre-state satisfying J.
fn any_pre() -> (AntiAmplifier<3>, Ghost) {
    let st: u8 = kani::any();
    kani::assume(st <= 2);
    let rx: usize = kani::any();
    let tx: usize = kani::any();
    kani::assume(rx <= MAX_TOTAL && tx <= 4 * MAX_TOTAL);
    let credit: usize = kani::any();
    if st != GRANTED {
        kani::assume(tx <= 3 * rx);
    }
    if st == NORMAL {
        kani::assume(credit == 3 * rx - tx);
    }
    (mk(credit, st), Ghost { rx, tx })
}

// ------------------------------------------------------------------------------------------------
// H1: one inductive step of the AntiAmplifier API with an exact functional oracle.

#[kani::proof]
#[kani::unwind(2)]
fn c15_aa_step() {
    let (aa, mut g) = any_pre();
    let st = state_of(&aa);
    let credit = credit_of(&aa);
    let op: u8 = kani::any();
    kani::assume(op < 5);
    match op {
        0 => {
            // a datagram of n bytes arrives (Path::on_packet_rcvd -> on_rcvd(size))
            let n: usize = kani::any();
            kani::assume(n <= MAX_SZ);
            aa.on_rcvd(n);
            g.rx += n;
            assert!(state_of(&aa) == st, "on_rcvd does not change the state");
            if st == NORMAL {
                assert!(credit_of(&aa) == credit + 3 * n, "on_rcvd adds exactly 3 x amount");
                if n > 0 {
                    // "sending resumes as soon as more is received"
                    assert!(aa.balance() == Ok(Some(credit + 3 * n)));
                }
            } else {
                assert!(credit_of(&aa) == credit, "no accounting once granted/aborted");
            }
            kani::cover!(st == NORMAL && credit == 0 && n > 0, "blocked path receives data");
        }
        1 => {
            let r = aa.balance();
            let expect = match st {
                NORMAL if credit == 0 => Err(Signals::CREDIT),
                NORMAL => Ok(Some(credit)),
                GRANTED => Ok(Some(usize::MAX)),
                _ => Ok(None),
            };
            assert!(r == expect, "balance: Err(CREDIT) when exhausted, the exact credit, MAX when granted, None when aborted");
            assert!(credit_of(&aa) == credit && state_of(&aa) == st, "balance is an observer");
            kani::cover!(r == Err(Signals::CREDIT), "exhausted");
            kani::cover!(matches!(r, Ok(Some(c)) if c > 0 && c < usize::MAX), "limited");
        }
        2 => {
            // contract of on_sent (aa.rs doc of `balance`): the amount sent was obtained under the
            // last balance, i.e. amount <= credit while NORMAL.
            let a: usize = kani::any();
            kani::assume(a <= 4 * MAX_TOTAL);
            if st == NORMAL {
                kani::assume(a <= credit);
            }
            aa.on_sent(a);
            if st != ABORTED {
                g.tx += a; // an aborted path sends nothing (balance -> None -> PathDeactived)
            }
            assert!(state_of(&aa) == st);
            if st == NORMAL {
                assert!(credit_of(&aa) == credit - a, "on_sent consumes exactly the amount");
            } else {
                assert!(credit_of(&aa) == credit);
            }
            kani::cover!(st == NORMAL && a > 0 && a == credit, "credit used up exactly");
        }
        3 => {
            aa.grant();
            assert!(state_of(&aa) == if st == NORMAL { GRANTED } else { st }, "grant only lifts a NORMAL limiter");
            assert!(credit_of(&aa) == credit);
            if st == NORMAL {
                // "sending resumes as soon as the address is validated"
                assert!(aa.balance() == Ok(Some(usize::MAX)));
            }
            kani::cover!(st == NORMAL && credit == 0, "grant while blocked");
        }
        _ => {
            aa.abort();
            assert!(state_of(&aa) == if st == NORMAL { ABORTED } else { st }, "abort only from NORMAL");
            assert!(credit_of(&aa) == credit);
            if st == NORMAL {
                assert!(aa.balance() == Ok(None));
            }
            kani::cover!(st == NORMAL, "abort of a limited path");
        }
    }
    check_j(&aa, &g);
    core::mem::forget(aa);
}

// H1c: "The budget arithmetic never underflows into an effectively unlimited allowance": for ANY
// amount fed back (the callers in burst.rs can overdraw: Initial padding, several segments per burst,
// forward headers — see the open known findings), the credit after on_sent is the saturated
// difference, never a wrapped-around huge value. On the pinned tree this failed (fetch_sub wrapped:
// on_rcvd(1); on_sent(4) left credit = 2^64 - 1); repaired in /repo by
// "fix: saturate the anti-amplification credit in on_sent".
#[kani::proof]
#[kani::unwind(2)]
fn c15_on_sent_never_wraps() {
    let (aa, _g) = any_pre();
    let st = state_of(&aa);
    let credit = credit_of(&aa);
    let a: usize = kani::any();
    aa.on_sent(a);
    let after = credit_of(&aa);
    assert!(state_of(&aa) == st);
    if st == NORMAL {
        assert!(after <= credit, "on_sent never increases the credit (no wrap-around into an unlimited allowance)");
        assert!(after == if a >= credit { 0 } else { credit - a }, "credit after on_sent == saturating difference");
        if a >= credit {
            assert!(aa.balance() == Err(Signals::CREDIT), "an overdrawn budget blocks further sending");
        }
    } else {
        assert!(after == credit);
    }
    kani::cover!(st == NORMAL && a > credit, "overdraft fed back");
    kani::cover!(st == NORMAL && a > 0 && a < credit, "ordinary consumption");
    core::mem::forget(aa);
}

// H1b: a sender blocked on CREDIT is woken by on_rcvd / grant / abort (the wake-up half of
// "sending resumes as soon as more is received or the address is validated").
#[kani::proof]
#[kani::unwind(2)]
fn c15_aa_wakes_blocked_sender() {
    let tx_waker = ArcSendWaker::new();
    let aa = AntiAmplifier::<3>::new(tx_waker.clone());
    assert!(aa.balance() == Err(Signals::CREDIT));
    let w = counting_waker();
    let mut cx = Context::from_waker(&w);
    // path.rs burst task: `Err(BurstError::Signals(s)) => path.tx_waker.wait_for(s).await`
    let mut fut = pin!(tx_waker.wait_for(Signals::CREDIT));
    assert!(fut.as_mut().poll(&mut cx) == Poll::Pending);
    let before = wakes();
    let op: u8 = kani::any();
    kani::assume(op < 3);
    match op {
        0 => {
            let n: usize = kani::any();
            kani::assume(n > 0 && n <= MAX_SZ);
            aa.on_rcvd(n);
            assert!(aa.balance() == Ok(Some(3 * n)));
        }
        1 => {
            aa.grant();
            assert!(aa.balance() == Ok(Some(usize::MAX)));
        }
        _ => {
            aa.abort();
            assert!(aa.balance() == Ok(None));
        }
    }
    assert!(wakes() == before + 1, "the blocked send task is woken exactly once");
    assert!(fut.as_mut().poll(&mut cx) == Poll::Ready(()), "and finds its CREDIT condition satisfied");
    kani::cover!(op == 0, "woken by data");
    kani::cover!(op == 1, "woken by grant");
}

// ------------------------------------------------------------------------------------------------
// Transcription of the burst call order (the one non-real part).

#[derive(Clone, Copy, PartialEq, Eq)]
enum TrErr {
    Signals,
    PathDeactived,
}

/// Environment of one burst: the values the real code reads from the interface / path / cc.
#[derive(Clone, Copy)]
struct Env {
    max_segment_size: usize, // self.path.interface.max_segment_size()
    mtu: usize,              // self.path.mtu()
    reversed_size: usize,    // ForwardHeader::encoding_size(&self.path.pathway); 0 for direct paths
}

/// What the trigger-free twin assumes away (all `false` = full transcription).
#[derive(Clone, Copy)]
struct Cut {
    /// assume the Initial-padding of load_spaces never exceeds the credit
    padding_within_credit: bool,
}

/// burst.rs PacketsAssembler::new:
///   `let send_quota = cc.send_quota()?;`                       (Err(CONGESTION) or Ok(q), q >= mtu: congestion.rs ArcCC::send_quota)
///   `let Some(credit_limit) = anti_amplifier.balance()? else { return Err(BurstError::PathDeactived) };`
///   `let constraints = Constraints::new(credit_limit, send_quota);`
/// (the dcid borrow between them is C14's business and can only add early returns)
fn tr_assembler(aa: &AntiAmplifier<3>, env: &Env) -> Result<(Constraints, usize), TrErr> {
    let quota_ok: bool = kani::any();
    if !quota_ok {
        return Err(TrErr::Signals);
    }
    let send_quota: usize = kani::any();
    kani::assume(send_quota >= env.mtu);
    let credit_limit = match aa.balance() {
        Err(_) => return Err(TrErr::Signals),
        Ok(None) => return Err(TrErr::PathDeactived),
        Ok(Some(c)) => c,
    };
    Ok((Constraints::new(credit_limit, send_quota), credit_limit))
}

/// burst.rs PacketsAssembler::assemble:
///   `let buffer = self.constraints.constrain(buffer);`
///   `let mut packet = space.new_packet(self.new_header()?, self.cc, buffer)?;`   (may fail -> Err, nothing written)
///   `*packet_content += packet.assemble_packet(..)?;`                              (may fail -> Err, nothing committed)
///   `let (sent_bytes, props) = packet.encrypt_and_protect_packet();`               (sent_bytes <= buffer.len())
///   `self.commit(sent_bytes, props);` -> `self.constraints.commit(sent_bytes, pkt_info.in_flight());`
fn tr_assemble(c: &mut Constraints, remaining: usize) -> Option<usize> {
    let buffer = &mut segment_buf()[..remaining];
    let buffer = c.constrain(buffer);
    let produced: bool = kani::any();
    if !produced {
        return None;
    }
    let sent_bytes: usize = kani::any();
    kani::assume(sent_bytes > 0 && sent_bytes <= buffer.len());
    let in_flight: bool = kani::any();
    c.commit(sent_bytes, in_flight);
    Some(sent_bytes)
}

/// burst.rs Burst::load_spaces (Initial, 0-RTT, Handshake, 1-RTT packets into one segment buffer).
fn tr_load_spaces(aa: &AntiAmplifier<3>, env: &Env, origin: usize, cut: &Cut) -> Result<usize, TrErr> {
    // `let origin = buffer.remaining_mut();`
    let mut remaining = origin;
    // `let mut assembler = self.assembler()?;`
    let (mut c, credit_limit) = tr_assembler(aa, env)?;
    // `let Ok(tls_fin) = tls_handshake.is_finished() else { return Err(BurstError::PathDeactived) };`
    let tls_ok: bool = kani::any();
    if !tls_ok {
        return Err(TrErr::PathDeactived);
    }
    // `match assembler.assemble(initial_space, ..) { Ok(bytes_sent) => buffer = buffer[bytes_sent..].as_mut(), Err(s) => signals |= s }`
    if let Some(n) = tr_assemble(&mut c, remaining) {
        remaining -= n;
    }
    // `let loaded_initial = buffer.remaining_mut() != origin;`
    let loaded_initial = remaining != origin;
    // 0-RTT (`if !tls_fin`), Handshake, 1-RTT (`if tls_fin`): at most three more packets, same pattern
    let mut p = 0;
    while p < 3 {
        if let Some(n) = tr_assemble(&mut c, remaining) {
            remaining -= n;
        }
        p += 1;
    }
    // `if loaded_initial { assert!(buffer.remaining_mut() != origin);
    //                      buffer.put_bytes(0, buffer.remaining_mut());
    //                      return Ok((origin, packet_content)); }`
    // NOTE: `buffer` here is the *unconstrained* rest of the segment.
    if loaded_initial {
        if cut.padding_within_credit {
            kani::assume(origin <= credit_limit);
        }
        return Ok(origin);
    }
    // `let sent_bytes = origin - buffer.remaining_mut();
    //  (sent_bytes > 0).then_some((sent_bytes, packet_content)).ok_or(BurstError::Signals(signals))`
    let sent_bytes = origin - remaining;
    if sent_bytes > 0 { Ok(sent_bytes) } else { Err(TrErr::Signals) }
}

/// burst.rs Burst::load_ping / Burst::load_heartbeat: `let mut assembler = self.assembler()?;` then
/// one `assembler.assemble(.., buffer, ..)` (first epoch that succeeds) -> `Ok((sent_bytes, ..))`.
fn tr_load_single(aa: &AntiAmplifier<3>, env: &Env, origin: usize) -> Result<usize, TrErr> {
    let (mut c, _) = tr_assembler(aa, env)?;
    match tr_assemble(&mut c, origin) {
        Some(n) => Ok(n),
        None => Err(TrErr::Signals),
    }
}

/// burst.rs Burst::burst, closure of the second `.map(move |segment| ..)`:
///   `let buffer_size = segment.len().min(self.path.mtu() as _);`
///   `let buffer = &mut segment[..buffer_size][reversed_size..];`
///   `self.load_spaces(data_sources, buffer)`
///   `.or_else(|error| match error { BurstError::Signals(..) => self.load_ping(buffer)..,      e @ PathDeactived => Err(e) })`
///   `.or_else(|error| match error { BurstError::Signals(..) => self.load_heartbeat(buffer).., e @ PathDeactived => Err(e) })`
///   `.map(|(packet_size, _)| { .. io::IoSlice::new(&segment[..reversed_size + packet_size]) })`
fn tr_segment(aa: &AntiAmplifier<3>, env: &Env, cut: &Cut) -> Result<usize, TrErr> {
    let buffer_size = env.max_segment_size.min(env.mtu);
    let origin = buffer_size - env.reversed_size;
    let mut r = tr_load_spaces(aa, env, origin, cut);
    if r == Err(TrErr::Signals) {
        r = tr_load_single(aa, env, origin);
    }
    if r == Err(TrErr::Signals) {
        r = tr_load_single(aa, env, origin);
    }
    r.map(|packet_size| env.reversed_size + packet_size)
}

/// burst.rs Burst::burst `.try_fold(..)` over at most `max_segments` segments, followed by
/// path.rs burst task `Ok(segments) => path.send_packets(&segments).await?` and Path::send_packets:
///   `self.anti_amplifier.on_sent(bufs.iter().map(|s| s.len()).sum());`
///   `if self.anti_amplifier.balance().is_err() { self.status.enter_anti_amplification_limit(); }`
/// `between` is called after each segment: other tasks (packet reception, validation) run
/// concurrently with the burst task and may call on_rcvd / grant / abort at those points.
fn tr_burst<const S: usize>(aa: &AntiAmplifier<3>, g: &mut Ghost, env: &Env, cut: &Cut) -> bool {
    let mut total = 0usize;
    let mut count = 0usize;
    let mut last = 0usize;
    let mut i = 0;
    while i < S {
        match tr_segment(aa, env, cut) {
            // `(Ok(segments), Err(signals)) if segments.is_empty() => Break(Err(signals))`
            // `(Ok(segments), Err(_signals)) => Break(Ok(segments))`
            Err(_) => break,
            Ok(len) => {
                // `(Ok(mut segments), Ok(segment)) if segment.len() < segments.last().copied().unwrap_or_default()
                //      => { segments.push(segment.len()); Break(Ok(segments)) }`
                // `(Ok(mut segments), Ok(segment)) => { segments.push(segment.len()); Continue(Ok(segments)) }`
                total += len;
                count += 1;
                if len < last {
                    break;
                }
                last = len;
            }
        }
        concurrent_event(aa, g);
        i += 1;
    }
    if count == 0 {
        return false; // burst() returned Err: nothing is sent, on_sent is not called
    }
    aa.on_sent(total);
    g.tx += total;
    let _ = aa.balance();
    true
}

/// At most one concurrent on_rcvd / grant / abort.
fn concurrent_event(aa: &AntiAmplifier<3>, g: &mut Ghost) {
    let ev: u8 = kani::any();
    match ev {
        1 => {
            let n: usize = kani::any();
            kani::assume(n <= MAX_SZ);
            aa.on_rcvd(n);
            g.rx += n;
        }
        2 => aa.grant(),
        3 => aa.abort(),
        _ => {}
    }
}

fn any_env() -> Env {
    let env = Env { max_segment_size: kani::any(), mtu: kani::any(), reversed_size: kani::any() };
    kani::assume(env.max_segment_size <= MAX_SZ && env.mtu <= MAX_SZ);
    // the forward header fits into the segment with room for a packet
    kani::assume(env.reversed_size < env.max_segment_size.min(env.mtu));
    env
}

/// History of K steps from the initial state of a fresh path; each step is a datagram arrival, a
/// burst of at most S segments, a grant, or an abort.
fn history<const K: usize, const S: usize>(cut: Cut, direct_only: bool) {
    let aa = AntiAmplifier::<3>::new(ArcSendWaker::new());
    let mut g = Ghost { rx: 0, tx: 0 };
    let env = any_env();
    if direct_only {
        kani::assume(env.reversed_size == 0);
    }
    let mut sent_something = false;
    let mut k = 0;
    while k < K {
        let op: u8 = kani::any();
        kani::assume(op < 4);
        match op {
            0 => {
                let n: usize = kani::any();
                kani::assume(n <= MAX_SZ);
                aa.on_rcvd(n);
                g.rx += n;
            }
            1 => {
                let pre_blocked = state_of(&aa) == NORMAL && credit_of(&aa) == 0;
                let sent = tr_burst::<S>(&aa, &mut g, &env, &cut);
                if pre_blocked {
                    assert!(!sent || state_of(&aa) != NORMAL, "nothing is sent from an exhausted budget");
                }
                sent_something |= sent;
            }
            2 => aa.grant(),
            _ => aa.abort(),
        }
        check_j(&aa, &g);
        k += 1;
    }
    kani::cover!(sent_something && state_of(&aa) == NORMAL && credit_of(&aa) == 0, "budget used up exactly by bursts");
    kani::cover!(sent_something && state_of(&aa) == NORMAL && g.tx > 0 && g.tx < 3 * g.rx, "partial use of the budget");
    core::mem::forget(aa);
}

/// One burst of at most S segments (with concurrent on_rcvd / grant / abort between segments) from an
/// ARBITRARY pre-state satisfying J. Together with c15_aa_step (the same for on_rcvd / on_sent /
/// grant / abort) this is the inductive step: J holds along histories of any length.
fn burst_step<const S: usize>(cut: Cut, direct_only: bool) {
    let (aa, mut g) = any_pre();
    let env = any_env();
    if direct_only {
        kani::assume(env.reversed_size == 0);
    }
    let st = state_of(&aa);
    let credit = credit_of(&aa);
    let tx0 = g.tx;
    let sent = tr_burst::<S>(&aa, &mut g, &env, &cut);
    check_j(&aa, &g);
    if st == NORMAL && credit == 0 {
        assert!(!sent, "nothing is sent from an exhausted budget");
    }
    if st == ABORTED {
        assert!(!sent, "nothing is sent on an aborted path");
    }
    if !sent {
        assert!(g.tx == tx0);
    }
    kani::cover!(sent && state_of(&aa) == NORMAL && credit_of(&aa) == 0, "budget used up exactly by the burst");
    kani::cover!(sent && state_of(&aa) == NORMAL && credit_of(&aa) > 0, "partial use of the budget");
    kani::cover!(sent && st == NORMAL && state_of(&aa) == GRANTED, "granted while the burst was being assembled");
    core::mem::forget(aa);
}

// H2 (passing twin): the budget invariant is preserved by every burst that is a single segment on a
// direct path and whose Initial padding fits into the credit.
#[kani::proof]
#[kani::unwind(5)]
fn c15_burst_step_single_segment() {
    burst_step::<1>(Cut { padding_within_credit: true }, true);
}

// H3 (pending, expose the suspected defect): the full transcription, from a fresh path:
// a datagram arrives, then one burst.
#[kani::proof]
#[kani::unwind(5)]
fn c15_history_multi_segment() {
    // two segments, direct path, padding assumed within credit: isolates "every segment sees the
    // same un-decremented credit"
    history::<2, 2>(Cut { padding_within_credit: true }, true);
}

#[kani::proof]
#[kani::unwind(5)]
fn c15_history_initial_padding() {
    // one segment, direct path: isolates "padding is added outside constrain"
    history::<2, 1>(Cut { padding_within_credit: false }, true);
}

#[kani::proof]
#[kani::unwind(5)]
fn c15_history_forward_header() {
    // one segment on a relayed path: the forward header bytes are outside constrain
    history::<2, 1>(Cut { padding_within_credit: true }, false);
}
