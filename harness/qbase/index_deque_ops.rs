// Kani harnesses compiled inside qbase::util::index_deque (overlay, cfg(kani) only).
// The inner std VecDeque is replaced by verif_model::VecDeque (import swap, DESIGN.md §2.4).
// C10: IndexDeque keeps "enqueue index -> element" exact under insert / push_back / pop_front /
//      drain_to / advance / resize (both journals and both CID tables sit on it).
// C04: the number of placeholder records one `insert` asks for (pos - len) for ANY index.
use super::*;

const LIM: u64 = (1u64 << 62) - 1; // VARINT_MAX, the LIMIT every user in the repo instantiates
type D = IndexDeque<u64, LIM>;

/// N elements with symbolic values at a symbolic offset (any state reachable by
/// push_back/pop_front/reset_offset: offset + len <= LIMIT + 1).
fn any_deque<const N: usize>() -> (D, [u64; N]) {
    let mut d = D::default();
    let off: u64 = kani::any();
    kani::assume(off <= LIM + 1 - N as u64);
    d.reset_offset(off);
    let vals: [u64; N] = kani::any();
    let mut i = 0;
    while i < N {
        let idx = d.push_back(vals[i]).unwrap();
        assert!(idx == off + i as u64);
        i += 1;
    }
    (d, vals)
}

/// Element at enqueue index `idx` according to the harness-side model.
fn model_get<const N: usize>(off: u64, vals: &[u64; N], idx: u64) -> Option<u64> {
    if idx >= off && idx - off < N as u64 { Some(vals[(idx - off) as usize]) } else { None }
}

fn insert_step<const N: usize>() {
    let (mut d, vals) = any_deque::<N>();
    let off = d.offset();
    let idx: u64 = kani::any();
    let v: u64 = kani::any();
    // keep the grown deque inside the model capacity (the growth itself is the C04 harness below)
    kani::assume(idx < off || idx - off < 5);
    let probe: u64 = kani::any();
    let before = d.get(probe).copied();
    assert!(before == model_get(off, &vals, probe), "get == model before");
    assert!(d.contain(probe) == before.is_some());
    assert!(d.largest() == off + N as u64);

    let grow = placeholders_requested(&d, idx);
    let r = d.insert(idx, v);
    if idx > LIM {
        assert!(r == Err(IndexError::ExceedLimit(idx, LIM)));
    } else if idx < off {
        assert!(r == Err(IndexError::TooSmall(idx, off)));
    }
    if idx > LIM || idx < off {
        assert!(d.offset() == off && d.len() == N && d.get(probe).copied() == before, "failed insert changes nothing");
    } else {
        let pos = idx - off;
        assert!(d.offset() == off, "insert never moves the offset");
        if pos < N as u64 {
            assert!(grow == 0);
            assert!(r == Ok(Some(vals[pos as usize])), "returns the replaced element");
            assert!(d.len() == N);
        } else {
            assert!(r == Ok(None));
            // growth == pos - len placeholders + the element itself
            assert!(d.len() as u64 == pos + 1, "len after insert == idx - offset + 1");
            assert!(d.len() as u64 == N as u64 + grow + 1, "ghost cost formula == real growth (placeholders + the element)");
        }
        let after = d.get(probe).copied();
        if probe == idx {
            assert!(after == Some(v), "inserted element is at its index");
        } else if probe >= off + N as u64 && probe < idx {
            assert!(after == Some(0), "gap filled with T::default()");
        } else {
            assert!(after == before, "all other indices unchanged");
        }
        assert!(d.largest() == if pos < N as u64 { off + N as u64 } else { idx + 1 });
    }
    kani::cover!(r == Ok(None) && idx > off + N as u64, "insert beyond the end with placeholders");
    kani::cover!(N == 0 || matches!(r, Ok(Some(_))), "replace inside");
    kani::cover!(matches!(r, Err(IndexError::TooSmall(..))), "too small");
    core::mem::forget(d);
}

#[kani::proof]
#[kani::unwind(8)]
fn c10_index_deque_insert_n0() {
    insert_step::<0>();
}

#[kani::proof]
#[kani::unwind(8)]
fn c10_index_deque_insert_n2() {
    insert_step::<2>();
}

#[kani::proof]
#[kani::unwind(8)]
fn c10_index_deque_insert_n3() {
    insert_step::<3>();
}

/// pop_front / drain_to / advance / resize / push_back at the limit.
fn shrink_step<const N: usize>() {
    let (mut d, vals) = any_deque::<N>();
    let off = d.offset();
    let probe: u64 = kani::any();
    let before = model_get(off, &vals, probe);
    let which: u8 = kani::any();
    match which % 4 {
        0 => {
            let r = d.pop_front();
            if N == 0 {
                assert!(r.is_none() && d.offset() == off);
            } else {
                assert!(r == Some((off, vals[0])));
                assert!(d.offset() == off + 1 && d.len() == N - 1);
                assert!(d.get(probe).copied() == if probe == off { None } else { before });
            }
            kani::cover!(r.is_some(), "pop_front some");
        }
        1 => {
            let end: u64 = kani::any();
            // documented contract (debug_assert in the code): offset <= end <= largest
            kani::assume(end >= off && end <= off + N as u64);
            let mut k = 0u64;
            for x in d.drain_to(end) {
                assert!(x == vals[k as usize], "drained front to back");
                k += 1;
            }
            assert!(k == end - off, "exactly the elements below `end` are removed");
            assert!(d.offset() == end && d.len() as u64 == N as u64 - k);
            assert!(d.get(probe).copied() == if probe < end { None } else { before });
            kani::cover!(k > 0 && (k as usize) < N, "partial drain");
        }
        2 => {
            let n: usize = kani::any();
            kani::assume(n <= N);
            d.advance(n);
            assert!(d.offset() == off + n as u64 && d.len() == N - n);
            assert!(d.get(probe).copied() == if probe < off + n as u64 { None } else { before });
            kani::cover!(n > 0 && n < N, "partial advance");
        }
        _ => {
            let new_end: u64 = kani::any();
            kani::assume(new_end < off || new_end - off <= 5);
            let fill: u64 = kani::any();
            let r = d.resize(new_end, fill);
            if new_end < off {
                assert!(r == Err(IndexError::TooSmall(new_end, off)));
            } else if new_end > LIM {
                assert!(r == Err(IndexError::ExceedLimit(new_end, LIM)));
            } else {
                assert!(r == Ok(()));
                assert!(d.offset() == off && d.largest() == new_end);
                let after = d.get(probe).copied();
                if probe >= new_end {
                    assert!(after.is_none());
                } else if probe >= off + N as u64 {
                    assert!(after == Some(fill));
                } else {
                    assert!(after == before);
                }
            }
            kani::cover!(r.is_ok() && new_end > off + N as u64, "resize grows");
            kani::cover!(r.is_ok() && new_end < off + N as u64, "resize shrinks");
        }
    }
    core::mem::forget(d);
}

#[kani::proof]
#[kani::unwind(8)]
fn c10_index_deque_shrink_n3() {
    shrink_step::<3>();
}

/// push_back refuses to pass LIMIT, returns the enqueue index otherwise.
#[kani::proof]
#[kani::unwind(8)]
fn c10_index_deque_push_limit() {
    let (mut d, _vals) = any_deque::<1>();
    let off = d.offset();
    let v: u64 = kani::any();
    let r = d.push_back(v);
    if off + 1 > LIM {
        assert!(r == Err(IndexError::ExceedLimit(off + 1, LIM)) && d.len() == 1);
    } else {
        assert!(r == Ok(off + 1) && d.get(off + 1) == Some(&v) && d.largest() == off + 2);
    }
    kani::cover!(r.is_err(), "limit reached");
    core::mem::forget(d);
}

/// C04 ghost cost: the number of default-valued placeholder records `insert(idx, _)` appends before
/// the element (`self.deque.resize(pos, T::default())` with pos = idx - offset). The formula is tied
/// to the real code by `c10_index_deque_insert_*` (len after insert == idx - offset + 1).
fn placeholders_requested<T, const L: u64>(d: &IndexDeque<T, L>, idx: u64) -> u64 {
    if idx > L || idx < d.offset() || idx < d.largest() { 0 } else { idx - d.largest() }
}

