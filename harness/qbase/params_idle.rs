// Kani harnesses compiled *inside* qbase::time (overlay injection, cfg(kani) only).
// Property C18 (idle-timeout clause): `IdleConfig::negotiate_max_idle_timeout` leaves the
// effective idle timeout at the smaller non-zero of the local and the peer's advertised value
// (zero == "not advertised / disabled"), and derives the heartbeat interval from it.
use super::*;

fn any_duration() -> Duration {
    let secs: u64 = kani::any();
    let nanos: u32 = kani::any();
    kani::assume(nanos < 1_000_000_000);
    Duration::new(secs, nanos)
}

fn spec_effective(local: Duration, remote: Duration) -> Duration {
    if local == Duration::ZERO {
        remote
    } else if remote == Duration::ZERO {
        local
    } else if local < remote {
        local
    } else {
        remote
    }
}

/// heartbeat = clamp(timeout / 2, 1 s, 30 s); 30 s when the timeout is disabled
fn spec_heartbeat(effective: Duration) -> Duration {
    if effective == Duration::ZERO {
        return Duration::from_secs(30);
    }
    let half = effective / 2;
    if half < Duration::from_secs(1) {
        Duration::from_secs(1)
    } else if half > Duration::from_secs(30) {
        Duration::from_secs(30)
    } else {
        half
    }
}

/// C18: for every local / remote Duration the negotiated value is the smaller non-zero one
/// (zero only if both are zero); the defer timeout is untouched; the heartbeat interval follows.
#[kani::proof]
fn c18_idle_config_negotiate() {
    let local = any_duration();
    let remote = any_duration();
    let defer = any_duration();
    let mut cfg = IdleConfig::new(local, defer);
    assert!(cfg.max_idle_timeout == local);
    assert!(cfg.heartbeat_interval == spec_heartbeat(local));
    cfg.negotiate_max_idle_timeout(remote);
    let want = spec_effective(local, remote);
    kani::cover!(local != Duration::ZERO && remote != Duration::ZERO && remote < local, "peer's value is smaller");
    kani::cover!(local != Duration::ZERO && remote != Duration::ZERO && local < remote, "local value is smaller");
    kani::cover!(local == Duration::ZERO && remote != Duration::ZERO, "only the peer advertises");
    kani::cover!(local == Duration::ZERO && remote == Duration::ZERO, "disabled on both sides");
    assert!(cfg.max_idle_timeout == want, "effective idle timeout is the smaller non-zero value");
    assert!((cfg.max_idle_timeout == Duration::ZERO) == (local == Duration::ZERO && remote == Duration::ZERO));
    assert!(cfg.defer_idle_timeout == defer);
    assert!(cfg.heartbeat_interval == spec_heartbeat(want));
    assert!(cfg.heartbeat_interval >= Duration::from_secs(1) && cfg.heartbeat_interval <= Duration::from_secs(30));
}
