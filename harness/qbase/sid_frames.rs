// Kani harness compiled inside qbase::frame::max_streams (overlay injection, cfg(kani) only).
// Property C12: the MAX_STREAMS parser rejects values above 2^60-1, so
// `LocalStreamIds::recv_max_streams_frame` can never reach `increase_limit`'s assertion from the
// wire. Every byte string of up to 9 bytes (a varint is at most 8), both directions.
use super::*;

#[kani::proof]
#[kani::unwind(10)]
fn c12_max_streams_frame_bound() {
    let arr: [u8; 9] = kani::any();
    let len: usize = kani::any();
    kani::assume(len <= 9);
    let dir = if kani::any() { Dir::Bi } else { Dir::Uni };
    match max_streams_frame_with_dir(dir)(&arr[..len]) {
        Ok((remain, f)) => {
            let v = match f {
                MaxStreamsFrame::Bi(v) => {
                    assert!(dir == Dir::Bi);
                    v.into_u64()
                }
                MaxStreamsFrame::Uni(v) => {
                    assert!(dir == Dir::Uni);
                    v.into_u64()
                }
            };
            assert!(v <= MAX_STREAMS_LIMIT, "accepted MAX_STREAMS never exceeds 2^60-1");
            assert!(remain.len() < len);
            kani::cover!(v == MAX_STREAMS_LIMIT, "largest accepted MAX_STREAMS");
            kani::cover!(v == 0, "MAX_STREAMS 0");
        }
        Err(_) => {
            kani::cover!(len >= 8 && arr[0] == 0xd0, "8-byte varint above 2^60-1 rejected");
            kani::cover!(len == 0, "empty input rejected");
        }
    }
}
