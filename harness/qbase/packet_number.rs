// Kani harnesses compiled *inside* qbase::packet::number (overlay injection, cfg(kani) only).
// Property C07 (wire round trip of truncated packet numbers) and C05 (pn codec size).
use super::*;

/// Write `pn` with the real `put_packet_number`, read it back with the real `take_pn_len`.
fn through_wire(pn: PacketNumber) -> PacketNumber {
    let mut arr = [0u8; 4];
    let size = pn.size();
    {
        let mut buf = &mut arr[..];
        buf.put_packet_number(pn);
        // bytes written == declared size
        assert!(4 - buf.len() == size);
    }
    let (remain, back) = take_pn_len(size as u8)(&arr[..size]).unwrap();
    assert!(remain.is_empty());
    assert!(back.size() == size);
    back
}

/// C07: forall pn < 2^62, acked <= pn with pn - acked < 2^31, and every receiver position
/// `expected` in (acked, pn] (a receiver that has received everything the sender knows acked):
/// decode(wire(encode(pn, acked)), expected) == pn.
#[kani::proof]
fn c07_pn_wire_roundtrip() {
    let pn: u64 = kani::any();
    let acked: u64 = kani::any();
    let expected: u64 = kani::any();
    kani::assume(pn < (1u64 << 62));
    kani::assume(acked <= pn);
    kani::assume(pn - acked < (1u64 << 31));
    kani::assume(expected > acked && expected <= pn);
    let enc = PacketNumber::encode(pn, acked);
    let wire = through_wire(enc);
    let got = wire.decode(expected);
    kani::cover!(enc.size() == 2, "2-byte encoding reached");
    kani::cover!(enc.size() == 3, "3-byte encoding reached");
    kani::cover!(enc.size() == 4, "4-byte encoding reached");
    kani::cover!(pn > (1u64 << 61), "large pn reached");
    assert!(got == pn, "truncated packet number decodes to the number sent");
}

/// C07: the first packet of a space (nothing acked yet; the journal passes largest_acked = 0 and
/// the receiver expects 0 or anything up to pn).
#[kani::proof]
fn c07_pn_wire_roundtrip_nothing_acked() {
    let pn: u64 = kani::any();
    let expected: u64 = kani::any();
    kani::assume(pn < (1u64 << 31));
    kani::assume(expected <= pn);
    let enc = PacketNumber::encode(pn, 0);
    let got = through_wire(enc).decode(expected);
    kani::cover!(pn == 0);
    kani::cover!(pn > 70000);
    assert!(got == pn);
}

/// C07: encoding size obeys RFC 9000 §17.1: the encoding can represent more than twice the
/// distance to the largest acknowledged packet.
#[kani::proof]
fn c07_pn_encode_width() {
    let pn: u64 = kani::any();
    let acked: u64 = kani::any();
    kani::assume(pn < (1u64 << 62));
    kani::assume(acked <= pn);
    kani::assume(pn - acked < (1u64 << 31));
    let enc = PacketNumber::encode(pn, acked);
    let bits = 8 * enc.size() as u32;
    assert!(bits >= 16);
    assert!((pn - acked) * 2 < (1u64 << bits));
    kani::cover!(bits == 32);
}

/// C05: any PacketNumber value written then read yields the same *wire-visible* value
/// (U24 carries only its low 24 bits on the wire) and consumes exactly `size()` bytes.
#[kani::proof]
fn c05_pn_codec_roundtrip() {
    let which: u8 = kani::any();
    let raw: u32 = kani::any();
    let pn = match which % 4 {
        0 => PacketNumber::U8(raw as u8),
        1 => PacketNumber::U16(raw as u16),
        2 => PacketNumber::U24(raw & 0x00ff_ffff),
        _ => PacketNumber::U32(raw),
    };
    let back = through_wire(pn);
    assert!(back == pn);
}
