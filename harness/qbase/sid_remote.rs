// Kani harnesses compiled inside qbase::sid::remote_sid (overlay injection, cfg(kani) only).
// Property C12, remote side: a peer that uses a stream beyond the advertised count gets a
// stream-limit error; using a higher-numbered stream implicitly opens every lower-numbered stream
// of that kind, each handed out exactly once. One operation from an ARBITRARY state of
// `RemoteStreamIds`, every 62-bit stream id, full-width limits, an arbitrary concurrency strategy.
use super::*;
use crate::{sid::MAX_STREAMS_LIMIT, varint::VARINT_MAX};

static mut MAX_N: u32 = 0;
static mut MAX_LAST: Option<MaxStreamsFrame> = None;

#[derive(Clone, Debug)]
struct Sink;

impl SendFrame<MaxStreamsFrame> for Sink {
    fn send_frame<I: IntoIterator<Item = MaxStreamsFrame>>(&self, iter: I) {
        for f in iter {
            unsafe {
                MAX_N += 1;
                MAX_LAST = Some(f);
            }
        }
    }
}

/// The most general concurrency strategy: every callback may or may not raise/set the limit, to
/// any VarInt value chosen up front (symbolic). Records what it was told.
#[derive(Debug)]
struct AnyStrategy {
    answer: Option<u64>,
    calls: u32,
    seen_dir: Option<Dir>,
    seen_val: u64,
}

static mut STRAT_CALLS: u32 = 0;
static mut STRAT_DIR: Option<Dir> = None;
static mut STRAT_VAL: u64 = 0;
static mut STRAT_KIND: u8 = 0;

impl AnyStrategy {
    fn note(&mut self, kind: u8, dir: Dir, v: u64) -> Option<u64> {
        self.calls += 1;
        self.seen_dir = Some(dir);
        self.seen_val = v;
        unsafe {
            STRAT_CALLS += 1;
            STRAT_DIR = Some(dir);
            STRAT_VAL = v;
            STRAT_KIND = kind;
        }
        self.answer
    }
}

impl ControlStreamsConcurrency for AnyStrategy {
    fn on_accept_streams(&mut self, dir: Dir, sid: u64) -> Option<u64> {
        self.note(1, dir, sid)
    }
    fn on_end_of_stream(&mut self, dir: Dir, sid: u64) -> Option<u64> {
        self.note(2, dir, sid)
    }
    fn on_streams_blocked(&mut self, dir: Dir, max_streams: u64) -> Option<u64> {
        self.note(3, dir, max_streams)
    }
}

/// `[u64; 2] == [u64; 2]` lowers to memcmp (16 loop iterations); compare element-wise.
fn eq2<T: PartialEq + Copy>(a: &[T; 2], b: &[T; 2]) -> bool {
    a[0] == b[0] && a[1] == b[1]
}

fn any_role() -> Role {
    if kani::any() { Role::Client } else { Role::Server }
}

fn any_answer() -> Option<u64> {
    if kani::any() {
        let v: u64 = kani::any();
        kani::assume(v <= VARINT_MAX);
        Some(v)
    } else {
        None
    }
}

/// Arbitrary state: peer role, any limits (local configuration / strategy output: any VarInt),
/// cursors anywhere in [0, 2^60] (one past the largest index is reachable after the last stream).
fn any_state(ctrl: Box<dyn ControlStreamsConcurrency>) -> (RemoteStreamIds<Sink>, [u64; 2]) {
    let role = any_role();
    let max: [u64; 2] = [kani::any(), kani::any()];
    let cur: [u64; 2] = [kani::any(), kani::any()];
    kani::assume(max[0] <= VARINT_MAX && max[1] <= VARINT_MAX);
    kani::assume(cur[0] <= MAX_STREAMS_LIMIT + 1 && cur[1] <= MAX_STREAMS_LIMIT + 1);
    let s = RemoteStreamIds {
        role,
        max,
        // the cursor one past the last index (2^60) does not fit a VarInt; the code reaches it
        // through next_unchecked, the harness through the (module-visible) tuple field
        unallocated: [
            StreamId((cur[0] << 2) | role as u64),
            StreamId((cur[1] << 2) | 2 | role as u64),
        ],
        ctrl,
        max_tx: Sink,
    };
    (s, cur)
}

/// try_accept_sid for every peer-initiated 62-bit stream id.
/// `exclude_boundary`: assume away `index == advertised count` (suspected defect #10).
fn accept_step(exclude_boundary: bool) {
    let answer = any_answer();
    let (mut s, cur) = any_state(Box::new(AnyStrategy { answer, calls: 0, seen_dir: None, seen_val: 0 }));
    let max = s.max;
    let old_cursor = s.unallocated;
    let raw: u64 = kani::any();
    kani::assume(raw <= VARINT_MAX);
    let sid = StreamId::from(VarInt::from_u64(raw).unwrap());
    kani::assume(sid.role() == s.role); // documented precondition (callers branch on the role bit)
    let idx = sid.dir() as usize;
    let other = 1 - idx;
    if exclude_boundary {
        kani::assume(sid.id() != max[idx]);
    }

    let r = s.try_accept_sid(sid);

    assert!(s.unallocated[other] == old_cursor[other] && s.max[other] == max[other], "the other direction is untouched");
    match r {
        Err(e) => {
            // RFC 9000 §4.6: a stream id is beyond the limit iff its index >= the advertised count
            assert!(sid.id() >= max[idx], "StreamLimit error only for a stream beyond the advertised count");
            assert!(e == ExceedLimitError(sid, max[idx]));
            assert!(eq2(&s.unallocated, &old_cursor) && eq2(&s.max, &max), "a rejected id changes nothing");
            assert!(unsafe { MAX_N } == 0 && unsafe { STRAT_CALLS } == 0);
            kani::cover!(sid.id() == max[idx] + 1, "first id the implementation rejects");
            kani::cover!(max[idx] == 0 && sid.id() == 1, "limit 0");
        }
        Ok(AcceptSid::Old) => {
            assert!(sid.id() < max[idx], "accepted only within the advertised count");
            assert!(sid.id() < cur[idx], "Old iff the id is below the cursor");
            assert!(eq2(&s.unallocated, &old_cursor) && eq2(&s.max, &max));
            assert!(unsafe { MAX_N } == 0 && unsafe { STRAT_CALLS } == 0, "an already-open stream is not offered again");
            kani::cover!(sid.id() + 1 == cur[idx], "the most recently opened stream again");
        }
        Ok(AcceptSid::New(need)) => {
            assert!(sid.id() < max[idx], "accepted only within the advertised count");
            assert!(sid.id() >= cur[idx]);
            assert!(need.start == old_cursor[idx], "implicit opening starts at the first unopened id: none skipped, none repeated");
            assert!(need.end == sid, "and ends with the id used");
            assert!(s.unallocated[idx].id() == sid.id() + 1 && s.unallocated[idx].role() == s.role && s.unallocated[idx].dir() == sid.dir(), "cursor moves one past the id used");
            // the strategy is told once, and its answer (if any) becomes the advertised limit
            assert!(unsafe { STRAT_CALLS } == 1 && unsafe { STRAT_KIND } == 1);
            assert!(unsafe { STRAT_DIR } == Some(sid.dir()) && unsafe { STRAT_VAL } == sid.id());
            match answer {
                Some(v) => {
                    assert!(s.max[idx] == v && unsafe { MAX_N } == 1);
                    assert!(unsafe { MAX_LAST } == Some(MaxStreamsFrame::with(sid.dir(), VarInt::from_u64(v).unwrap())), "MAX_STREAMS carries the new limit");
                }
                None => assert!(s.max[idx] == max[idx] && unsafe { MAX_N } == 0),
            }
            kani::cover!(sid.id() > cur[idx] + 2, "several streams opened implicitly");
            kani::cover!(sid.id() == cur[idx], "exactly the next stream");
            kani::cover!(sid.id() + 1 == max[idx], "last stream within the advertised count");
            core::mem::forget(need);
        }
    }
    core::mem::forget(s);
}

/// Twin of the pending harness below (boundary id assumed away).
#[kani::proof]
#[kani::unwind(3)]
fn c12_remote_accept_step() {
    accept_step(true);
}

/// PENDING (suspected genuine defect #10): with `sid.id() == max` (index == advertised count) the
/// implementation accepts one stream more than it advertised (`>` instead of `>=`).
#[kani::proof]
#[kani::unwind(3)]
fn c12_remote_accept_step_boundary_pending() {
    accept_step(false);
}

/// NeedCreate enumerates start, start+4, ..., end: one inductive step of the iterator from an
/// arbitrary (start, end) of the same stream kind. `next()` yields `start` iff start <= end and
/// then advances by exactly one index; once past `end` it keeps returning None. By induction
/// every id from the old cursor to the id used is produced exactly once, in order.
#[kani::proof]
fn c12_need_create_step() {
    let a: u64 = kani::any();
    let b: u64 = kani::any();
    kani::assume(a <= VARINT_MAX && b <= VARINT_MAX);
    let start = StreamId::from(VarInt::from_u64(a).unwrap());
    let end = StreamId::from(VarInt::from_u64(b).unwrap());
    kani::assume(start.role() == end.role() && start.dir() == end.dir());
    let mut it = NeedCreate { start, end };
    let got = it.next();
    if start.id() <= end.id() {
        assert!(got == Some(start));
        assert!(it.start.id() == start.id() + 1 && it.start.role() == start.role() && it.start.dir() == start.dir());
        assert!(it.end == end);
    } else {
        assert!(got.is_none());
        assert!(it.start == start && it.end == end);
    }
    kani::cover!(got.is_some() && start == end, "last id of the range");
    kani::cover!(got.is_none());
}

/// The first three ids produced for a concrete-shape scenario through the public wrapper
/// (`ArcRemoteStreamIds`): cursor c, id used c+2 => exactly c, c+1, c+2 then None.
#[kani::proof]
#[kani::unwind(6)]
fn c12_remote_accept_enumerates() {
    let role = any_role();
    let dir = if kani::any() { Dir::Bi } else { Dir::Uni };
    let c: u64 = kani::any();
    kani::assume(c <= MAX_STREAMS_LIMIT - 2);
    let arc = ArcRemoteStreamIds::new(role, VARINT_MAX, VARINT_MAX, Sink, Box::new(crate::sid::handy::DemandConcurrency));
    if c > 0 {
        let r = arc.try_accept_sid(StreamId::new(role, dir, c - 1));
        assert!(matches!(r, Ok(AcceptSid::New(_))));
        core::mem::forget(r);
    }
    let r = arc.try_accept_sid(StreamId::new(role, dir, c + 2));
    match r {
        Ok(AcceptSid::New(mut need)) => {
            assert!(need.next() == Some(StreamId::new(role, dir, c)));
            assert!(need.next() == Some(StreamId::new(role, dir, c + 1)));
            assert!(need.next() == Some(StreamId::new(role, dir, c + 2)));
            assert!(need.next().is_none());
            assert!(need.next().is_none());
        }
        _ => unreachable!(),
    }
    // using any of them again offers nothing new
    let again: u64 = kani::any();
    kani::assume(again <= c + 2);
    let r2 = arc.try_accept_sid(StreamId::new(role, dir, again));
    assert!(r2 == Ok(AcceptSid::Old), "each stream is offered exactly once");
    kani::cover!(c > 0 && again < c);
    core::mem::forget(arc);
}

/// End of a stream / STREAMS_BLOCKED: the strategy is consulted once with the right direction and
/// value; iff it answers Some(v) the advertised limit becomes v and MAX_STREAMS(dir, v) is sent.
/// Streams initiated by the local side never touch the peer's limit.
#[kani::proof]
#[kani::unwind(3)]
fn c12_remote_limit_update_step() {
    let answer = any_answer();
    let (mut s, _cur) = any_state(Box::new(AnyStrategy { answer, calls: 0, seen_dir: None, seen_val: 0 }));
    let max = s.max;
    let cursor = s.unallocated;
    let which: bool = kani::any();
    let (dir, told, kind, skipped) = if which {
        let raw: u64 = kani::any();
        kani::assume(raw <= VARINT_MAX);
        let sid = StreamId::from(VarInt::from_u64(raw).unwrap());
        s.on_end_of_stream(sid);
        (sid.dir(), sid.id(), 2u8, sid.role() != s.role)
    } else {
        let v: u64 = kani::any();
        kani::assume(v <= VARINT_MAX);
        let dir = if kani::any() { Dir::Bi } else { Dir::Uni };
        s.recv_streams_blocked_frame(StreamsBlockedFrame::with(dir, VarInt::from_u64(v).unwrap()));
        (dir, v, 3u8, false)
    };
    let idx = dir as usize;
    assert!(eq2(&s.unallocated, &cursor));
    assert!(s.max[1 - idx] == max[1 - idx]);
    if skipped {
        assert!(unsafe { STRAT_CALLS } == 0 && unsafe { MAX_N } == 0 && eq2(&s.max, &max));
    } else {
        assert!(unsafe { STRAT_CALLS } == 1 && unsafe { STRAT_KIND } == kind);
        assert!(unsafe { STRAT_DIR } == Some(dir) && unsafe { STRAT_VAL } == told);
        match answer {
            // STREAMS_BLOCKED (kind 3): the strategy's answer is clamped to 2^60-1 and applied only if it RAISES
            // the advertised limit (a limit once advertised is never taken back; fix eafb1d0 in /repo)
            Some(v) if kind == 3 => {
                let want = if v > MAX_STREAMS_LIMIT { MAX_STREAMS_LIMIT } else { v };
                if want > max[idx] {
                    assert!(s.max[idx] == want && unsafe { MAX_N } == 1);
                    assert!(unsafe { MAX_LAST } == Some(MaxStreamsFrame::with(dir, VarInt::from_u64(want).unwrap())));
                } else {
                    assert!(eq2(&s.max, &max) && unsafe { MAX_N } == 0);
                }
            }
            Some(v) => {
                assert!(s.max[idx] == v && unsafe { MAX_N } == 1);
                assert!(unsafe { MAX_LAST } == Some(MaxStreamsFrame::with(dir, VarInt::from_u64(v).unwrap())));
            }
            None => assert!(eq2(&s.max, &max) && unsafe { MAX_N } == 0),
        }
    }
    kani::cover!(skipped, "locally initiated stream ended");
    kani::cover!(!skipped && which && answer.is_some(), "limit raised when a peer stream ended");
    kani::cover!(!which && answer.is_none(), "STREAMS_BLOCKED ignored by the strategy");
    core::mem::forget(s);
}

/// STREAMS_BLOCKED(v) with the DemandConcurrency strategy (qconnection's default), for EVERY value the
/// frame parser accepts (v <= 2^60-1 since the fix; on the pinned tree the parser accepted any varint).
/// Oracle: no panic; the strategy asks for v + 1; the advertised limit becomes min(v + 1, 2^60-1) if that
/// is LARGER than the current one (exactly one MAX_STREAMS frame with that value), otherwise nothing
/// changes and nothing is sent — an advertised limit is never taken back and never exceeds 2^60-1.
/// FORMER DEFECT (fixed in /repo): v = 2^62-1 panicked in `VarInt::from_u64(v + 1).expect(..)` (remote
/// panic), v + 1 < current limit LOWERED the limit, v >= 2^60 advertised a limit above 2^60.
/// (That DemandConcurrency grants whatever the peer asks for is a policy of that strategy, not decided here.)
fn blocked_demand() {
    let (mut s, _cur) = any_state(Box::new(crate::sid::handy::DemandConcurrency));
    let max = s.max;
    let dir = if kani::any() { Dir::Bi } else { Dir::Uni };
    let idx = dir as usize;
    kani::assume(max[idx] <= MAX_STREAMS_LIMIT);
    // every value the frame parser accepts (lemma c12_streams_blocked_frame_bound: v <= 2^60-1)
    let v: u64 = kani::any();
    kani::assume(v <= MAX_STREAMS_LIMIT);
    let frame = StreamsBlockedFrame::with(dir, VarInt::from_u64(v).unwrap());
    s.recv_streams_blocked_frame(frame);
    let want = if v + 1 > MAX_STREAMS_LIMIT { MAX_STREAMS_LIMIT } else { v + 1 };
    if want > max[idx] {
        assert!(s.max[idx] == want && unsafe { MAX_N } == 1);
        assert!(unsafe { MAX_LAST } == Some(MaxStreamsFrame::with(dir, VarInt::from_u64(want).unwrap())));
    } else {
        assert!(s.max[idx] == max[idx] && unsafe { MAX_N } == 0, "a stale STREAMS_BLOCKED changes nothing");
    }
    assert!(s.max[1 - idx] == max[1 - idx]);
    kani::cover!(v == 0 && max[idx] == 0, "blocked at limit 0");
    kani::cover!(v + 1 < max[idx], "stale frame ignored");
    kani::cover!(v == MAX_STREAMS_LIMIT, "largest accepted value");
    core::mem::forget(s);
}

#[kani::proof]
#[kani::unwind(3)]
fn c12_remote_blocked_demand() {
    blocked_demand();
}
