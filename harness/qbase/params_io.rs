// Kani harnesses compiled *inside* qbase::param::io (overlay injection, cfg(kani) only).
// Properties C03 (decoding a peer's transport-parameter blob never panics / never loops without
// consuming), C05 (parameter codec round trip, exact sizes) and C18 (error kind).
//
// `Parameters::<R>::parse_from_bytes` as a whole is out of reach for CBMC (measured: 580 s for a
// fully *concrete* 3-byte blob, > 900 s for a symbolic one-parameter blob), so the function is
// decided piecewise, every piece being the real code:
//   be_raw_parameter            (framing of one parameter, progress >= 2 bytes, Incomplete only)
//   be_parameter_value          (per value type; the contract the caller's glue relies on:
//                                Err(Incomplete) or Ok with an empty remainder)
//   handle_nom_error            (maps nom errors; asserts they are Incomplete)
//   param::Error -> QuicError   (kind TransportParameter)
// The glue lines of parse_from_bytes (io.rs:173-175) are mirrored by `glue()` below.
// The harnesses named `*_any` are registered `pending`: they expose the suspected defects
// (DESIGN.md §4 C03 a-c); their `*_wf` twins assume the trigger away and pass.
use super::*;
use crate::error::ErrorKind;

/// Stub for `core::fmt::write`: error messages are irrelevant, error kinds are checked.
pub(crate) fn stub_fmt_write(
    _o: &mut dyn core::fmt::Write,
    _a: core::fmt::Arguments<'_>,
) -> core::fmt::Result {
    Ok(())
}
/// Stub for `alloc::fmt::format` (`format!`): returns an empty string without allocating.
pub(crate) fn stub_fmt_format(_a: core::fmt::Arguments<'_>) -> String {
    String::new()
}

const ALL_IDS: [ParameterId; 20] = [
    ParameterId::OriginalDestinationConnectionId,
    ParameterId::MaxIdleTimeout,
    ParameterId::StatelessResetToken,
    ParameterId::MaxUdpPayloadSize,
    ParameterId::InitialMaxData,
    ParameterId::InitialMaxStreamDataBidiLocal,
    ParameterId::InitialMaxStreamDataBidiRemote,
    ParameterId::InitialMaxStreamDataUni,
    ParameterId::InitialMaxStreamsBidi,
    ParameterId::InitialMaxStreamsUni,
    ParameterId::AckDelayExponent,
    ParameterId::MaxAckDelay,
    ParameterId::DisableActiveMigration,
    ParameterId::PreferredAddress,
    ParameterId::ActiveConnectionIdLimit,
    ParameterId::InitialSourceConnectionId,
    ParameterId::RetrySourceConnectionId,
    ParameterId::MaxDatagramFrameSize,
    ParameterId::GreaseQuicBit,
    ParameterId::ClientName,
];

/// RFC 9000 §16 variable-length integer, written independently of nom: (value, encoded length).
fn spec_varint(b: &[u8]) -> Option<(u64, usize)> {
    if b.is_empty() {
        return None;
    }
    let k = 1usize << (b[0] >> 6);
    if b.len() < k {
        return None;
    }
    let mut v = (b[0] & 0x3f) as u64;
    let mut i = 1;
    while i < k {
        v = (v << 8) | b[i] as u64;
        i += 1;
    }
    Some((v, k))
}

// ---------------------------------------------------------------------------------------------
// framing of one parameter

const N_RAW: usize = 10;

/// C03: `be_raw_parameter` on every byte string of <= 10 bytes: either Incomplete (never
/// Error/Failure, so `handle_nom_error` cannot assert at this call site) or the RFC 9000 §18
/// framing `id len value`, consuming >= 2 bytes (so the parse loop always makes progress), the
/// value being exactly the `len` bytes that follow, inside the buffer.
#[kani::proof]
#[kani::unwind(11)]
fn c03_params_raw() {
    let arr: [u8; N_RAW] = kani::any();
    let len: usize = kani::any();
    kani::assume(len <= N_RAW);
    let input = &arr[..len];
    let spec = match spec_varint(input) {
        None => None,
        Some((id, k1)) => match spec_varint(&input[k1..]) {
            None => None,
            Some((l, k2)) => {
                if l <= (len - k1 - k2) as u64 {
                    Some((id, k1 + k2, l as usize))
                } else {
                    None
                }
            }
        },
    };
    match be_raw_parameter(input) {
        Ok((remain, (id, data))) => {
            kani::cover!(data.len() == 3, "parameter with a 3-byte value");
            kani::cover!(id.into_u64() == 0x2ab2, "two-byte id");
            kani::cover!(!remain.is_empty(), "more parameters follow");
            let (s_id, s_hdr, s_len) = spec.unwrap();
            assert!(id.into_u64() == s_id);
            assert!(data.len() == s_len);
            assert!(remain.len() == len - s_hdr - s_len);
            assert!(len - remain.len() >= 2, "at least two bytes consumed");
            // value and remainder are the adjacent sub-slices of the input
            assert!(data.as_ptr() == input[s_hdr..].as_ptr());
            assert!(remain.as_ptr() == input[s_hdr + s_len..].as_ptr());
        }
        Err(e) => {
            kani::cover!(len == 0, "empty input");
            kani::cover!(len == N_RAW, "declared length exceeds the buffer");
            assert!(matches!(e, nom::Err::Incomplete(_)), "only Incomplete");
            assert!(spec.is_none());
        }
    }
}

// ---------------------------------------------------------------------------------------------
// error mapping

/// C03/C18: every `param::Error` becomes a QuicError of kind TransportParameter; a nom
/// Incomplete error is mapped (without asserting) to such an error.
#[kani::proof]
#[kani::unwind(4)]
#[kani::stub(core::fmt::write, stub_fmt_write)]
#[kani::stub(alloc::fmt::format, stub_fmt_format)]
fn c03_params_error_kind() {
    let which: u8 = kani::any();
    let x: u64 = kani::any();
    kani::assume(x < (1 << 62));
    let i: usize = kani::any();
    kani::assume(i < 20);
    let id = ALL_IDS[i];
    let role = if kani::any() { Role::Client } else { Role::Server };
    let arr: [u8; 3] = kani::any();
    let e = match which % 7 {
        0 => handle_nom_error::<&[u8], nom::error::Error<&[u8]>>(
            &arr[..],
            nom::Err::Incomplete(nom::Needed::Unknown),
        ),
        1 => Error::UnknownParameterId(VarInt::from_u64(x).unwrap()),
        2 => Error::LackParameterId(role, id),
        3 => Error::InvalidParameterId(id, role),
        4 => Error::IncompleteValue(id, String::new()),
        5 => Error::InvalidValueType(id, ParameterValueType::Boolean),
        _ => Error::OutOfBounds(id, x, 2..=x),
    };
    kani::cover!(matches!(e, Error::IncompleteParameterId(_)), "nom Incomplete mapped");
    kani::cover!(matches!(e, Error::LackParameterId(..)), "missing mandatory parameter");
    let q: QuicError = e.into();
    assert!(q.kind() == ErrorKind::TransportParameter);
    core::mem::forget(q);
}

// ---------------------------------------------------------------------------------------------
// values. `glue` mirrors io.rs:173-175 (the only lines between be_parameter_value and set):
//     let (remain, v) = be_parameter_value(value, id).map_err(|e| handle_nom_error(value, e))?;
//     assert!(remain.is_empty(), "Parameter value should consume all data");

fn glue(value: &[u8], id: ParameterId) -> Result<ParameterValue, Error> {
    let (remain, v) =
        be_parameter_value(value, id).map_err(|nom_error| handle_nom_error(value, nom_error))?;
    assert!(remain.is_empty(), "Parameter value should consume all data (io.rs:175)");
    Ok(v)
}

// NOTE: `be_parameter_value` reads nothing of the id but `id.value_type()` (a constant table,
// checked for all 20 ids in c18_id_table), so each value type is exercised with one concrete
// representative id: with a symbolic id CBMC has to symbolically execute all seven decoders in
// every harness (measured: > 400 s instead of seconds).
fn numeric_value<const N: usize>(id: ParameterId, exclude_trigger: bool) {
    let arr: [u8; N] = kani::any();
    let len: usize = kani::any();
    kani::assume(len <= N);
    let is_dur = id.value_type() == ParameterValueType::Duration;
    let value = &arr[..len];
    let spec = spec_varint(value);
    if exclude_trigger {
        // trigger (b): declared length larger than the varint's own encoding
        kani::assume(len == 0 || len <= (1usize << (arr[0] >> 6)));
    }
    kani::cover!(len == N - 1 && spec.is_some(), "longest value decoded");
    kani::cover!(len == 2 && spec.is_some(), "2-byte value decoded");
    match glue(value, id) {
        Ok(ParameterValue::VarInt(v)) => {
            assert!(!is_dur && spec == Some((v.into_u64(), len)));
        }
        Ok(ParameterValue::Duration(d)) => {
            let (ms, k) = spec.unwrap();
            assert!(is_dur && k == len && d == Duration::from_millis(ms));
        }
        Ok(_) => assert!(false, "numeric id decoded to a non-numeric value"),
        Err(e) => {
            kani::cover!(len == 0, "empty value is an error, not a panic");
            assert!(spec.is_none() && matches!(e, Error::IncompleteParameterId(_)));
            core::mem::forget(e);
        }
    }
}

/// C03 (pending, defect b): a VarInt/Duration-typed parameter with any value of <= 9 bytes is
/// decoded or rejected without panicking. Fails: surplus bytes hit `assert!(remain.is_empty())`.
#[kani::proof]
#[kani::unwind(10)]
#[kani::stub(core::fmt::write, stub_fmt_write)]
#[kani::stub(alloc::fmt::format, stub_fmt_format)]
fn c03_params_value_numeric_any() {
    numeric_value::<9>(ParameterId::InitialMaxData, false);
}

/// Twin: value no longer than its own varint encoding. Decoded value == RFC 9000 §16 decoding
/// (Duration: that many milliseconds); a truncated value is an IncompleteParameterId error.
#[kani::proof]
#[kani::unwind(10)]
#[kani::stub(core::fmt::write, stub_fmt_write)]
#[kani::stub(alloc::fmt::format, stub_fmt_format)]
fn c03_params_value_numeric_wf() {
    numeric_value::<9>(ParameterId::InitialMaxData, true);
}

/// Same for the Duration-typed parameters (max_idle_timeout, max_ack_delay), representative id,
/// values of <= 4 bytes.
#[kani::proof]
#[kani::unwind(10)]
#[kani::stub(core::fmt::write, stub_fmt_write)]
#[kani::stub(alloc::fmt::format, stub_fmt_format)]
fn c03_params_value_duration_wf() {
    // values up to 4 bytes (< 2^30 ms): the ms -> (secs, nanos) division makes the 8-byte case
    // time out (> 400 s); 8-byte varint decoding itself is covered by the numeric harness
    numeric_value::<5>(ParameterId::MaxIdleTimeout, true);
}

fn flag_value(exclude_trigger: bool) {
    let arr: [u8; 2] = kani::any();
    let len: usize = kani::any();
    kani::assume(len <= 2);
    if exclude_trigger {
        kani::assume(len == 0);
    }
    let r = glue(&arr[..len], ParameterId::DisableActiveMigration);
    kani::cover!(len == 0, "empty flag");
    assert!(matches!(r, Ok(ParameterValue::True)));
    core::mem::forget(r);
}

/// C03 (pending, defect b): a flag parameter (disable_active_migration, grease_quic_bit) with a
/// non-empty value. Fails at `assert!(remain.is_empty())`.
#[kani::proof]
#[kani::unwind(4)]
#[kani::stub(core::fmt::write, stub_fmt_write)]
#[kani::stub(alloc::fmt::format, stub_fmt_format)]
fn c03_params_value_flag_any() {
    flag_value(false);
}

/// Twin: zero-length flag decodes to True.
#[kani::proof]
#[kani::unwind(4)]
#[kani::stub(core::fmt::write, stub_fmt_write)]
#[kani::stub(alloc::fmt::format, stub_fmt_format)]
fn c03_params_value_flag_wf() {
    flag_value(true);
}

fn cid_value<const N: usize>(exclude_trigger: bool) {
    let arr: [u8; N] = kani::any();
    let len: usize = kani::any();
    kani::assume(len <= N);
    if exclude_trigger {
        kani::assume(len <= 20);
    }
    match glue(&arr[..len], ParameterId::InitialSourceConnectionId) {
        Ok(ParameterValue::ConnectionId(cid)) => {
            kani::cover!(len == 20, "20-byte connection id");
            kani::cover!(len == 0, "zero-length connection id");
            assert!(cid.len as usize == len);
            let mut i = 0;
            while i < 20 {
                if i < len {
                    assert!(cid.bytes[i] == arr[i]);
                }
                i += 1;
            }
        }
        _ => assert!(false, "a connection id value of <= 20 bytes always decodes"),
    }
}

/// C03 (pending, defect a): a ConnectionId-typed parameter with any value of <= 24 bytes.
/// Fails: more than 20 bytes panic in `ConnectionId::from_slice` (slice index / debug_assert).
#[kani::proof]
#[kani::unwind(22)]
#[kani::stub(core::fmt::write, stub_fmt_write)]
#[kani::stub(alloc::fmt::format, stub_fmt_format)]
fn c03_params_value_cid_any() {
    cid_value::<24>(false);
}

/// Twin: <= 20 bytes; decodes to a connection id with exactly these bytes.
#[kani::proof]
#[kani::unwind(22)]
#[kani::stub(core::fmt::write, stub_fmt_write)]
#[kani::stub(alloc::fmt::format, stub_fmt_format)]
fn c03_params_value_cid_wf() {
    cid_value::<24>(true);
}

fn token_value<const N: usize>(exclude_trigger: bool) {
    let arr: [u8; N] = kani::any();
    let len: usize = kani::any();
    kani::assume(len <= N);
    if exclude_trigger {
        kani::assume(len == 16);
    }
    match glue(&arr[..len], ParameterId::StatelessResetToken) {
        Ok(ParameterValue::ResetToken(t)) => {
            kani::cover!(true, "16-byte token");
            let mut i = 0;
            while i < 16 {
                assert!(t[i] == arr[i]);
                i += 1;
            }
        }
        Ok(_) => assert!(false),
        Err(e) => {
            // the RFC-conformant outcome for a token of the wrong size: an error
            core::mem::forget(e);
        }
    }
}

/// C03 (pending, defect c): stateless_reset_token with any value of <= 18 bytes. Fails: a short
/// token makes `be_reset_token` (nom *complete* take) return Err::Error, on which
/// `handle_nom_error` asserts; a long one hits `assert!(remain.is_empty())`.
#[kani::proof]
#[kani::unwind(18)]
#[kani::stub(core::fmt::write, stub_fmt_write)]
#[kani::stub(alloc::fmt::format, stub_fmt_format)]
fn c03_params_value_token_any() {
    token_value::<18>(false);
}

/// Twin: exactly 16 bytes; decodes to the same bytes.
#[kani::proof]
#[kani::unwind(18)]
#[kani::stub(core::fmt::write, stub_fmt_write)]
#[kani::stub(alloc::fmt::format, stub_fmt_format)]
fn c03_params_value_token_wf() {
    token_value::<18>(true);
}

/// C03: the client-name extension parameter (opaque bytes) of any length <= 8 decodes to the
/// same bytes.
#[kani::proof]
#[kani::unwind(10)]
#[kani::stub(core::fmt::write, stub_fmt_write)]
#[kani::stub(alloc::fmt::format, stub_fmt_format)]
fn c03_params_value_bytes() {
    let arr: [u8; 8] = kani::any();
    let len: usize = kani::any();
    kani::assume(len <= 8);
    match glue(&arr[..len], ParameterId::ClientName) {
        Ok(ParameterValue::Bytes(b)) => {
            kani::cover!(len == 8);
            kani::cover!(len == 0);
            assert!(b.len() == len);
            let mut i = 0;
            while i < 8 {
                if i < len {
                    assert!(b[i] == arr[i]);
                }
                i += 1;
            }
            core::mem::forget(b);
        }
        _ => assert!(false),
    }
}

const N_PA: usize = 64;

fn prefaddr_value(exclude_trigger: bool) {
    let arr: [u8; N_PA] = kani::any();
    let len: usize = kani::any();
    kani::assume(len <= N_PA);
    let cl = arr[24] as usize;
    // well-formed: 4+2 | 16+2 | cid_len(1) cid | token(16), nothing after it
    let wellformed = len >= 25 && cl <= 20 && len == 25 + cl + 16;
    // cut before the connection id is complete: nom streaming parsers report Incomplete
    let truncated_early = len < 25 || (cl <= 20 && len < 25 + cl);
    if exclude_trigger {
        kani::assume(wellformed || truncated_early);
    }
    match glue(&arr[..len], ParameterId::PreferredAddress) {
        Ok(ParameterValue::PreferredAddress(pa)) => {
            kani::cover!(cl == 20, "preferred address with a 20-byte cid");
            kani::cover!(cl == 0, "preferred address with an empty cid");
            assert!(wellformed);
            assert!(pa.address_v4().ip().octets() == [arr[0], arr[1], arr[2], arr[3]]);
            assert!(pa.address_v4().port() == u16::from_be_bytes([arr[4], arr[5]]));
            let o6 = pa.address_v6().ip().octets();
            let mut i = 0;
            while i < 16 {
                assert!(o6[i] == arr[6 + i]);
                i += 1;
            }
            assert!(pa.address_v6().port() == u16::from_be_bytes([arr[22], arr[23]]));
            let cid = pa.connection_id();
            assert!(cid.len as usize == cl);
            let mut i = 0;
            while i < 20 {
                if i < cl {
                    assert!(cid.bytes[i] == arr[25 + i]);
                }
                i += 1;
            }
            let tok = pa.stateless_reset_token();
            let mut i = 0;
            while i < 16 {
                assert!(tok[i] == arr[25 + cl + i]);
                i += 1;
            }
        }
        Ok(_) => assert!(false),
        Err(e) => {
            kani::cover!(len == 24, "truncated before the cid length");
            assert!(!wellformed);
            core::mem::forget(e);
        }
    }
}

/// C03 (pending, defect c): preferred_address with any value of <= 64 bytes. Fails: inner cid
/// length > 20 (`be_connection_id` -> Err::Error(TooLarge)) or a short trailing token
/// (`be_reset_token`, complete take) make `handle_nom_error` assert; trailing bytes hit
/// `assert!(remain.is_empty())`.
#[kani::proof]
#[kani::unwind(22)]
#[kani::stub(core::fmt::write, stub_fmt_write)]
#[kani::stub(alloc::fmt::format, stub_fmt_format)]
fn c03_params_value_prefaddr_any() {
    prefaddr_value(false);
}

/// Twin: well-formed or truncated before the cid is complete: decodes field by field to the
/// bytes / is rejected with an error.
#[kani::proof]
#[kani::unwind(22)]
#[kani::stub(core::fmt::write, stub_fmt_write)]
#[kani::stub(alloc::fmt::format, stub_fmt_format)]
fn c03_params_value_prefaddr_wf() {
    prefaddr_value(true);
}

// ---------------------------------------------------------------------------------------------
// Whole-function harnesses over `parse_from_bytes` with the verified byte-arithmetic model of
// be_varint stubbed in (same technique as harness/qbase/frames_c03.rs; equivalence with the real
// nom parser on every input of <= 16 bytes is proved by c03_params_varint_model_equivalence).

pub(crate) fn model_be_varint(input: &[u8]) -> nom::IResult<&[u8], VarInt> {
    if input.is_empty() {
        return Err(nom::Err::Incomplete(nom::Needed::new(1)));
    }
    let b0 = input[0];
    let n = 1usize << (b0 >> 6);
    if input.len() < n {
        return Err(nom::Err::Incomplete(nom::Needed::new(n - input.len())));
    }
    let mut v = (b0 & 0x3f) as u64;
    if n >= 2 {
        v = (v << 8) | input[1] as u64;
    }
    if n >= 4 {
        v = (v << 8) | input[2] as u64;
        v = (v << 8) | input[3] as u64;
    }
    if n == 8 {
        v = (v << 8) | input[4] as u64;
        v = (v << 8) | input[5] as u64;
        v = (v << 8) | input[6] as u64;
        v = (v << 8) | input[7] as u64;
    }
    // SAFETY: v < 2^62 (6 + 7*8 bits)
    Ok((&input[n..], unsafe { VarInt::from_u64_unchecked(v) }))
}

pub(crate) fn stub_tr_interest(
    _c: &'static tracing::callsite::DefaultCallsite,
) -> tracing::subscriber::Interest {
    tracing::subscriber::Interest::never()
}
pub(crate) fn stub_tr_enabled(
    _m: &tracing::Metadata<'static>,
    _i: tracing::subscriber::Interest,
) -> bool {
    false
}
pub(crate) fn stub_tr_dispatch<'a: 'a>(
    _m: &'static tracing::Metadata<'static>,
    _f: &'a tracing::field::ValueSet<'_>,
) {
}

/// C03 (pending, defect b, through the public entry point): the client blob `0c 01 xx`
/// (disable_active_migration with a one-byte value) handed to the real
/// `ClientParameters::parse_from_bytes` panics at io.rs:175 instead of returning an error.
/// (Nearly concrete on purpose: the whole function costs ~500 s per symbolic parameter; the
/// general statement is c03_params_value_flag_any / c03_params_value_numeric_any.)
#[kani::proof]
#[kani::unwind(3)]
#[kani::stub(crate::varint::be_varint, model_be_varint)]
#[kani::stub(core::fmt::write, stub_fmt_write)]
#[kani::stub(alloc::fmt::format, stub_fmt_format)]
#[kani::stub(tracing::callsite::DefaultCallsite::interest, stub_tr_interest)]
#[kani::stub(tracing::__macro_support::__is_enabled, stub_tr_enabled)]
#[kani::stub(tracing::Event::dispatch, stub_tr_dispatch)]
fn c03_params_parse_flag_surplus_api() {
    let arr = [0x0cu8, 0x01, kani::any()];
    let r = crate::param::core::ClientParameters::parse_from_bytes(&arr[..]);
    kani::cover!(true, "parse returned");
    assert!(r.is_err(), "a malformed flag parameter is an error");
    core::mem::forget(r);
}

/// The be_varint model used above equals the real nom parser (value, remaining slice, number of
/// missing bytes) on every byte string of <= 16 bytes.
#[kani::proof]
#[kani::unwind(10)]
fn c03_params_varint_model_equivalence() {
    let arr: [u8; 16] = kani::any();
    let len: usize = kani::any();
    kani::assume(len <= 16);
    let input = &arr[..len];
    match (be_varint(input), model_be_varint(input)) {
        (Ok((r1, v1)), Ok((r2, v2))) => {
            assert!(v1 == v2, "same value");
            assert!(r1.len() == r2.len() && r1.as_ptr() == r2.as_ptr(), "same remaining slice");
            kani::cover!(r1.len() == 8 && len == 16);
        }
        (Err(nom::Err::Incomplete(n1)), Err(nom::Err::Incomplete(n2))) => {
            assert!(n1 == n2, "same number of missing bytes");
            kani::cover!(len == 7);
            kani::cover!(len == 0);
        }
        (a, b) => {
            core::mem::forget(a);
            core::mem::forget(b);
            panic!("model and real be_varint disagree")
        }
    }
}
