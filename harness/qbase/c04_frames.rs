// Kani harnesses compiled inside qbase::frame (overlay, cfg(kani) only).  Property C04.
// What the inner parsers let through for the numeric fields of MAX_STREAMS, STREAM and CRYPTO
// frames (the handlers' preconditions), on symbolic wire bytes.
use super::{crypto::be_crypto_frame, max_streams::max_streams_frame_with_dir, stream::stream_frame_with_flag, *};
use crate::{
    sid::{Dir, MAX_STREAMS_LIMIT},
    varint::VARINT_MAX,
};

/// One-byte stream id 0 followed by two arbitrary varints (any encoding length, any value).
fn two_varints_after(first: u8) -> [u8; 17] {
    let mut b: [u8; 17] = kani::any();
    b[0] = first;
    b
}

/// MAX_STREAMS: every byte string of up to 9 bytes, both directions: a value above 2^60-1 is
/// rejected by the parser with nom's TooLarge (mapped to FRAME_ENCODING_ERROR by
/// `From<frame::Error> for QuicError`, see c04_frame_error_mapping), so
/// LocalStreamIds::increase_limit's `assert!(val <= MAX_STREAMS_LIMIT)` cannot be reached from a
/// parsed MAX_STREAMS frame (c04_sidlocal_max_streams_any_accepted_value runs the handler for
/// every accepted value).
#[kani::proof]
#[kani::unwind(10)]
fn c04_frames_max_streams_bound() {
    let arr: [u8; 9] = kani::any();
    let len: usize = kani::any();
    kani::assume(len <= 9);
    let dir = if kani::any() { Dir::Bi } else { Dir::Uni };
    let raw = u64::from_be_bytes([arr[0] & 0x3f, arr[1], arr[2], arr[3], arr[4], arr[5], arr[6], arr[7]]);
    match max_streams_frame_with_dir(dir)(&arr[..len]) {
        Ok((remain, f)) => {
            let v = match f {
                MaxStreamsFrame::Bi(v) => {
                    assert!(dir == Dir::Bi);
                    v.into_u64()
                }
                MaxStreamsFrame::Uni(v) => {
                    assert!(dir == Dir::Uni);
                    v.into_u64()
                }
            };
            assert!(v <= MAX_STREAMS_LIMIT, "C04: an accepted MAX_STREAMS never exceeds 2^60-1");
            assert!(remain.len() < len);
            kani::cover!(v == MAX_STREAMS_LIMIT, "largest accepted MAX_STREAMS");
        }
        Err(nom::Err::Error(e)) => {
            assert!(e.code == nom::error::ErrorKind::TooLarge);
            assert!(len >= 8 && arr[0] >> 6 == 3 && raw > MAX_STREAMS_LIMIT, "TooLarge only for values above 2^60-1");
            kani::cover!(raw == MAX_STREAMS_LIMIT + 1, "2^60 rejected");
        }
        Err(nom::Err::Incomplete(_)) => {
            kani::cover!(len == 0, "empty input");
        }
        Err(_) => panic!("no Failure"),
    }
}

/// STREAM (OFF and LEN bits set): a frame whose offset + length exceeds 2^62-1 is rejected
/// (TooLarge); an accepted one has offset + length <= 2^62-1, so StreamFrame::range() cannot
/// overflow and the receive buffers' `offset + len` arithmetic stays below 2^62.
#[kani::proof]
#[kani::unwind(10)]
fn c04_frames_stream_offset_plus_len() {
    let b = two_varints_after(0x00);
    let fin = if kani::any() { Fin::Yes } else { Fin::No };
    match stream_frame_with_flag(Offset::NonZero, Len::Explicit, fin)(&b[..]) {
        Ok((_remain, f)) => {
            assert!(f.offset() <= VARINT_MAX && f.len() as u64 <= VARINT_MAX);
            assert!(f.offset() + f.len() as u64 <= VARINT_MAX, "C04: accepted STREAM frame ends at or below 2^62-1");
            let r = f.range();
            assert!(r.start == f.offset() && r.end == f.offset() + f.len() as u64);
            kani::cover!(f.offset() + f.len() as u64 == VARINT_MAX, "ends exactly at 2^62-1");
            kani::cover!(f.offset() == VARINT_MAX && f.len() == 0, "empty frame at the largest offset");
        }
        Err(nom::Err::Error(e)) => {
            assert!(e.code == nom::error::ErrorKind::TooLarge, "the only Error is TooLarge");
            kani::cover!(true, "offset + length > 2^62-1 rejected");
        }
        Err(_) => panic!("17 bytes always hold 1 + 8 + 8"),
    }
}

/// CRYPTO: an accepted frame has offset + length <= 2^62-1 (RFC 9000 §19.6: "The largest offset
/// delivered on a stream -- the sum of the offset and data length -- cannot exceed 2^62-1. Receipt
/// of a frame that exceeds this limit MUST be treated as a connection error of type
/// FRAME_ENCODING_ERROR or CRYPTO_BUFFER_EXCEEDED"); otherwise nom TooLarge. Hence
/// CryptoFrame::range() cannot overflow and crypto::recv::Recver::recv's
/// `assert!(offset + data.len() <= VARINT_MAX)` is unreachable from the wire (be_frame slices exactly
/// `length` bytes of data).
/// (Until /repo commit 636ae6e the parser tested `offset + offset`; this harness returned that
/// defect as a counterexample: offset=1, length=2^62-1 accepted.)
#[kani::proof]
#[kani::unwind(10)]
fn c04_frames_crypto_offset_plus_len() {
    let b = two_varints_after(0x00);
    // skip the leading byte: CRYPTO has no stream id
    match be_crypto_frame(&b[1..]) {
        Ok((_remain, f)) => {
            assert!(f.offset() + f.len() <= VARINT_MAX, "C04: accepted CRYPTO frame ends at or below 2^62-1");
            let r = f.range();
            assert!(r.start == f.offset() && r.end - r.start == f.len());
            kani::cover!(f.offset() + f.len() == VARINT_MAX, "ends exactly at 2^62-1");
            kani::cover!(f.len() > 65535, "length larger than any datagram (refused later as IncompleteFrame)");
        }
        Err(nom::Err::Error(e)) => {
            assert!(e.code == nom::error::ErrorKind::TooLarge);
            kani::cover!(true, "rejected");
        }
        Err(_) => panic!("16 bytes always hold 8 + 8"),
    }
}

/// Completeness witnesses: well-formed CRYPTO frames at the top of the offset space are accepted
/// (offset = 2^61, length = 0 was refused before commit 636ae6e).
#[kani::proof]
#[kani::unwind(10)]
fn c04_frames_crypto_accepts_legit_high_offset() {
    // offset = 2^61, length = 0
    let bytes: [u8; 9] = [0xe0, 0, 0, 0, 0, 0, 0, 0, 0x00];
    let r = be_crypto_frame(&bytes[..]);
    kani::cover!(true, "parsed");
    match r {
        Ok((rest, f)) => assert!(rest.is_empty() && f.offset() == 1u64 << 61 && f.len() == 0),
        Err(_) => panic!("C04: a CRYPTO frame with offset + length <= 2^62-1 is well-formed"),
    }
}

fn stub_fmt_write(_o: &mut dyn core::fmt::Write, _a: core::fmt::Arguments<'_>) -> core::fmt::Result {
    Ok(())
}

/// nom TooLarge / Verify raised by the frame parsers reach the connection as FRAME_ENCODING_ERROR:
/// be_frame wraps them in frame::Error::ParseError, `From<frame::Error> for QuicError` maps that.
#[kani::proof]
#[kani::unwind(10)]
#[kani::stub(core::fmt::write, stub_fmt_write)]
fn c04_frame_error_mapping() {
    let fty = if kani::any() { FrameType::MaxStreams(Dir::Bi) } else { FrameType::Crypto };
    let e = Error::ParseError(fty, String::new());
    let q = crate::error::QuicError::from(e);
    assert!(q.kind() == crate::error::ErrorKind::FrameEncoding, "FRAME_ENCODING_ERROR");
    kani::cover!(true);
    core::mem::forget(q);
}
