// Kani harnesses compiled *inside* qbase::packet::io (overlay injection, cfg(kani) only).
// Property C03, PACKET part: packet type, connection id, every packet header kind, the payload
// length arithmetic of `be_payload` / `be_packet` over a real `BytesMut`, `PacketReader::next`,
// socket / endpoint addresses, preferred address and stateless reset token.
//
// Every harness runs the REAL decoder on a symbolic byte array with a symbolic length and compares
// the verdict with an independent byte-level reference of the RFC 9000 §17 wire layout written
// below with plain index arithmetic (no nom): which byte holds what, where each field starts,
// which prefix is a complete packet. Kani's automatic checks (panic, unreachable!, unwrap, slice
// index, arithmetic overflow, unwinding assertions) are on for the real code.
use super::*;
use crate::{
    cid::{ConnectionId, MAX_CID_SIZE, be_connection_id, be_connection_id_with_len},
    net::{Family, addr::{EndpointAddr, be_endpoint_addr}, be_socket_addr},
    packet::{
        PacketReader,
        header::short::io::be_one_rtt_header,
        r#type::{
            long::{Type as LongType, Ver1, v1::Type as V1Type},
            short::OneRtt,
        },
    },
    param::preferred_address::be_preferred_address,
    token::be_reset_token,
};

// ------------------------------------------------------------------------------------------------
// stubs (each is listed in the registry entry of the harness that uses it)

/// core's slice-index panic path without the message formatting (still a failed check).
pub(crate) fn stub_slice_index_fail(_s: usize, _e: usize, _l: usize) -> ! {
    panic!("slice index out of range")
}

/// `core::fmt::write`: error TEXTS (`ne.to_string()` inside IncompleteType / IncompleteHeader) are
/// irrelevant, error KINDS and the carried packet type / byte counts are checked.
pub(crate) fn stub_fmt_write(_o: &mut dyn core::fmt::Write, _a: core::fmt::Arguments<'_>) -> core::fmt::Result {
    Ok(())
}

/// Stand-in for `be_version_negotiation` in the harnesses that EXCLUDE Version Negotiation datagrams
/// by assumption (they are covered by c03_pkt_packet_vn / c03_pkt_header_vn): the real parser's
/// many_till + Vec::push loop is unrolled to the unwind bound on every path and costs ~200 k SSA
/// steps per iteration. Reaching the stand-in is a failed check, so the exclusion cannot hide a path.
pub(crate) fn stub_vn_excluded(_input: &[u8]) -> nom::IResult<&[u8], crate::packet::header::long::VersionNegotiation> {
    panic!("Version Negotiation path reached in a harness that assumes it away")
}

// tracing (PacketReader::next logs the dropped packet), see .agent/NOTES-tracing.md
pub(crate) fn stub_tr_interest(_c: &'static tracing::callsite::DefaultCallsite) -> tracing::subscriber::Interest {
    tracing::subscriber::Interest::never()
}
pub(crate) fn stub_tr_enabled(_m: &tracing::Metadata<'static>, _i: tracing::subscriber::Interest) -> bool {
    false
}
pub(crate) fn stub_tr_dispatch<'a: 'a>(_m: &'static tracing::Metadata<'static>, _f: &'a tracing::field::ValueSet<'_>) {}

// ------------------------------------------------------------------------------------------------
// reference decoding, independent of nom

/// The received datagram `arr[..len]` as a BytesMut whose heap block has the CONCRETE size N
/// (copy of the whole array, then truncate): a block of symbolic size is an unbounded array for CBMC
/// and the array-theory post-processing of be_packet's reads ran out of 10 GB.
fn datagram_of<const N: usize>(arr: &[u8; N], len: usize) -> BytesMut {
    let mut d = BytesMut::from(&arr[..]);
    d.truncate(len);
    assert!(d.len() == len);
    d
}

fn any_input<const N: usize>() -> ([u8; N], usize) {
    let arr: [u8; N] = kani::any();
    let len: usize = kani::any();
    kani::assume(len <= N);
    (arr, len)
}

/// RFC 9000 §16 variable-length integer at `pos` of `a[..len]`: Some((value, position after it)),
/// None when truncated. Loop-free on purpose.
fn ref_varint<const N: usize>(a: &[u8; N], pos: usize, len: usize) -> Option<(u64, usize)> {
    if pos >= len {
        return None;
    }
    let b0 = a[pos];
    let n = 1usize << (b0 >> 6);
    if n > len - pos {
        return None;
    }
    let mut v = (b0 & 0x3f) as u64;
    if n >= 2 {
        v = (v << 8) | a[pos + 1] as u64;
    }
    if n >= 4 {
        v = (v << 8) | a[pos + 2] as u64;
        v = (v << 8) | a[pos + 3] as u64;
    }
    if n == 8 {
        v = (v << 8) | a[pos + 4] as u64;
        v = (v << 8) | a[pos + 5] as u64;
        v = (v << 8) | a[pos + 6] as u64;
        v = (v << 8) | a[pos + 7] as u64;
    }
    Some((v, pos + n))
}

/// Number of bytes nom's streaming / varint parsers must report as missing.
fn varint_missing<const N: usize>(a: &[u8; N], pos: usize, len: usize) -> usize {
    if pos >= len { 1 } else { (1usize << (a[pos] >> 6)) - (len - pos) }
}

#[derive(Clone, Copy, PartialEq, Eq)]
enum RefTy {
    /// 1-RTT, spin bit value
    Short(bool),
    /// long header, version 0
    Vn,
    /// long header, version 1, RFC 9000 §17.2 type bits (0 Initial, 1 0-RTT, 2 Handshake, 3 Retry)
    V1(u8),
}

#[derive(Clone, Copy, PartialEq, Eq)]
enum RefTyErr {
    /// number of missing bytes
    Incomplete(usize),
    FixedBit,
    Unsupported(u32),
}

/// RFC 9000 §17.2 / §17.3 / RFC 8999 §5-6: first byte and version.
///   bit 0x80 clear                    -> short header (1 byte consumed), spin = bit 0x20
///   bit 0x80 set, version (bytes 1..5, big endian)
///        0                            -> Version Negotiation, whatever the other 7 bits are
///        1, bit 0x40 set              -> v1 long packet, type = bits 0x30
///        1, bit 0x40 clear            -> invalid fixed bit
///        anything else                -> unsupported version
fn ref_type<const N: usize>(a: &[u8; N], len: usize) -> Result<(RefTy, usize), RefTyErr> {
    if len == 0 {
        return Err(RefTyErr::Incomplete(1));
    }
    let b0 = a[0];
    if b0 & 0x80 == 0 {
        return Ok((RefTy::Short(b0 & 0x20 != 0), 1));
    }
    if len < 5 {
        return Err(RefTyErr::Incomplete(5 - len));
    }
    let version = ((a[1] as u32) << 24) | ((a[2] as u32) << 16) | ((a[3] as u32) << 8) | a[4] as u32;
    match version {
        0 => Ok((RefTy::Vn, 5)),
        1 => {
            if b0 & 0x40 == 0 {
                Err(RefTyErr::FixedBit)
            } else {
                Ok((RefTy::V1((b0 >> 4) & 3), 5))
            }
        }
        v => Err(RefTyErr::Unsupported(v)),
    }
}

fn type_is(t: Type, r: RefTy) -> bool {
    match (t, r) {
        (Type::Short(OneRtt(s)), RefTy::Short(spin)) => (s == SpinBit::One) == spin,
        (Type::Long(LongType::VersionNegotiation), RefTy::Vn) => true,
        (Type::Long(LongType::V1(v)), RefTy::V1(k)) => match v.0 {
            V1Type::Initial => k == 0,
            V1Type::ZeroRtt => k == 1,
            V1Type::Handshake => k == 2,
            V1Type::Retry => k == 3,
        },
        _ => false,
    }
}

fn type_of(r: RefTy) -> Type {
    match r {
        RefTy::Short(spin) => Type::Short(OneRtt(if spin { SpinBit::One } else { SpinBit::Zero })),
        RefTy::Vn => Type::Long(LongType::VersionNegotiation),
        RefTy::V1(0) => Type::Long(LongType::V1(Ver1::INITIAL)),
        RefTy::V1(1) => Type::Long(LongType::V1(Ver1::ZERO_RTT)),
        RefTy::V1(2) => Type::Long(LongType::V1(Ver1::HANDSHAKE)),
        RefTy::V1(_) => Type::Long(LongType::V1(Ver1::RETRY)),
    }
}

#[derive(Clone, Copy, PartialEq, Eq)]
enum RefCid {
    /// first cid byte, cid length, position after the cid
    Ok(usize, usize, usize),
    /// length byte > 20 (RFC 9000 §17.2: MUST drop); position of the byte after the length byte
    TooLarge(usize),
    /// number of missing bytes
    Incomplete(usize),
}

/// RFC 9000 §17.2: one length byte L (<= 20), then L bytes.
fn ref_cid<const N: usize>(a: &[u8; N], pos: usize, len: usize) -> RefCid {
    if pos >= len {
        return RefCid::Incomplete(1);
    }
    let l = a[pos] as usize;
    if l > 20 {
        return RefCid::TooLarge(pos + 1);
    }
    let avail = len - pos - 1;
    if avail < l {
        return RefCid::Incomplete(l - avail);
    }
    RefCid::Ok(pos + 1, l, pos + 1 + l)
}

/// The decoded cid holds exactly `a[start..start+l]`, zero padded (ConnectionId::from_slice).
fn cid_is<const N: usize>(cid: &ConnectionId, a: &[u8; N], start: usize, l: usize) {
    assert!(cid.len as usize == l, "cid length == the length byte on the wire");
    let j: usize = kani::any();
    kani::assume(j < MAX_CID_SIZE);
    if j < l {
        assert!(cid.bytes[j] == a[start + j], "cid byte j == wire byte start + j");
    } else {
        assert!(cid.bytes[j] == 0, "cid storage beyond its length is zero");
    }
}

fn needed_is(n: nom::Needed, want: usize) {
    match n {
        nom::Needed::Size(k) => assert!(k.get() == want, "Incomplete reports the exact number of missing bytes"),
        nom::Needed::Unknown => panic!("needed size is known"),
    }
}

// ------------------------------------------------------------------------------------------------
// Verified model of `be_varint` (same text as frames_c03.rs::model_be_varint, which is private to
// crate::frame): the real bit-level nom parser costs 20-40 s of solver time per call and be_packet
// calls it twice (Token Length, Length). The quick-tier harnesses run with the model stubbed in, it
// is proved equal to the real parser by c03_pkt_varint_model_equivalence; the thorough tier runs
// the SAME bodies on the real parser (`*_real`).

pub(crate) fn model_be_varint(input: &[u8]) -> nom::IResult<&[u8], crate::varint::VarInt> {
    if input.is_empty() {
        return Err(nom::Err::Incomplete(nom::Needed::new(1)));
    }
    let b0 = input[0];
    let n = 1usize << (b0 >> 6);
    if input.len() < n {
        return Err(nom::Err::Incomplete(nom::Needed::new(n - input.len())));
    }
    let mut v = (b0 & 0x3f) as u64;
    if n >= 2 {
        v = (v << 8) | input[1] as u64;
    }
    if n >= 4 {
        v = (v << 8) | input[2] as u64;
        v = (v << 8) | input[3] as u64;
    }
    if n == 8 {
        v = (v << 8) | input[4] as u64;
        v = (v << 8) | input[5] as u64;
        v = (v << 8) | input[6] as u64;
        v = (v << 8) | input[7] as u64;
    }
    // SAFETY: v < 2^62 (6 + 7*8 bits)
    Ok((&input[n..], unsafe { crate::varint::VarInt::from_u64_unchecked(v) }))
}

/// C03: the model equals the real `be_varint` (same value, same remaining slice, same
/// Incomplete(Needed)) on every byte string of length 0..=16.
#[kani::proof]
#[kani::stub(core::slice::index::slice_index_fail, stub_slice_index_fail)]
#[kani::unwind(10)]
fn c03_pkt_varint_model_equivalence() {
    let (arr, len) = any_input::<16>();
    let input = &arr[..len];
    match (be_varint(input), model_be_varint(input)) {
        (Ok((r1, v1)), Ok((r2, v2))) => {
            assert!(v1 == v2, "same value");
            assert!(r1.len() == r2.len() && r1.as_ptr() == r2.as_ptr(), "same remaining slice");
            kani::cover!(r1.len() == 8 && len == 16);
        }
        (Err(nom::Err::Incomplete(a)), Err(nom::Err::Incomplete(b))) => {
            assert!(a == b, "same number of missing bytes");
            kani::cover!(len == 7);
        }
        _ => panic!("model and real be_varint disagree"),
    }
}

// ------------------------------------------------------------------------------------------------
// packet type

/// C03 be_packet_type on every byte string of length 0..=6 (first byte, version, one byte beyond).
#[kani::proof]
#[kani::stub(core::slice::index::slice_index_fail, stub_slice_index_fail)]
#[kani::unwind(6)]
fn c03_pkt_type_any_bytes() {
    let (arr, len) = any_input::<6>();
    let reference = ref_type(&arr, len);
    match be_packet_type(&arr[..len]) {
        Ok((remain, ty)) => match reference {
            Ok((r, end)) => {
                assert!(remain.len() <= len);
                assert!(len - remain.len() == end, "consumes 1 byte (short) / 5 bytes (long)");
                assert!(end >= 1, "always consumes");
                assert!(type_is(ty, r), "type == RFC 9000 §17 reading of first byte + version");
                assert!(ty.encoding_size() == end);
                kani::cover!(r == RefTy::Vn && arr[0] == 0xff, "VN: the 7 low bits are unused (RFC 8999)");
                kani::cover!(r == RefTy::V1(3));
                kani::cover!(r == RefTy::Short(false) && arr[0] & 0x40 == 0, "short header: fixed bit is not examined");
            }
            Err(_) => panic!("invalid / truncated packet type accepted"),
        },
        Err(nom::Err::Incomplete(n)) => {
            match reference {
                Err(RefTyErr::Incomplete(want)) => needed_is(n, want),
                _ => panic!("Incomplete for a complete type"),
            }
            kani::cover!(len == 4 && arr[0] & 0x80 != 0);
        }
        Err(nom::Err::Error(e)) => {
            match &e {
                Error::InvalidFixedBit => assert!(reference == Err(RefTyErr::FixedBit)),
                Error::UnsupportedVersion(v) => assert!(reference == Err(RefTyErr::Unsupported(*v))),
                _ => panic!("unexpected error variant"),
            }
            kani::cover!(matches!(e, Error::InvalidFixedBit));
            kani::cover!(matches!(e, Error::UnsupportedVersion(0xffff_ffff)));
            core::mem::forget(e);
        }
        Err(e) => {
            core::mem::forget(e);
            panic!("be_packet_type never returns nom Failure (be_packet: unreachable!)")
        }
    }
}

// ------------------------------------------------------------------------------------------------
// connection id

/// C03 be_connection_id on every byte string of length 0..=24, and be_connection_id_with_len for
/// EVERY usize length argument: length > 20 is an Error(TooLarge) carrying the input after the
/// length byte, never a panic in ConnectionId::from_slice.
#[kani::proof]
#[kani::stub(core::slice::index::slice_index_fail, stub_slice_index_fail)]
#[kani::unwind(3)]
fn c03_pkt_cid_any_bytes() {
    let (arr, len) = any_input::<24>();
    let reference = ref_cid(&arr, 0, len);
    match be_connection_id(&arr[..len]) {
        Ok((remain, cid)) => match reference {
            RefCid::Ok(start, l, end) => {
                assert!(remain.len() == len - end, "consumes 1 + L bytes");
                cid_is(&cid, &arr, start, l);
                assert!(cid.encoding_size() == end);
                kani::cover!(l == 20 && len == 24);
            }
            _ => panic!("over-long / truncated cid accepted"),
        },
        Err(nom::Err::Incomplete(n)) => match reference {
            RefCid::Incomplete(want) => {
                needed_is(n, want);
                kani::cover!(want == 20);
            }
            _ => panic!("Incomplete for a complete or over-long cid"),
        },
        Err(nom::Err::Error(e)) => {
            assert!(e.code == nom::error::ErrorKind::TooLarge);
            match reference {
                RefCid::TooLarge(at) => {
                    assert!(e.input.len() == len - at, "error input is what follows the length byte");
                    kani::cover!(arr[0] == 21);
                }
                _ => panic!("TooLarge for a cid length <= 20"),
            }
        }
        Err(nom::Err::Failure(_)) => panic!("never Failure"),
    }
    // explicit-length form, every usize
    let n: usize = kani::any();
    match be_connection_id_with_len(&arr[..len], n) {
        Ok((remain, cid)) => {
            assert!(n <= 20 && n <= len && remain.len() == len - n);
            cid_is(&cid, &arr, 0, n);
        }
        Err(nom::Err::Incomplete(k)) => {
            assert!(n <= 20 && n > len);
            needed_is(k, n - len);
        }
        Err(nom::Err::Error(e)) => {
            assert!(n > 20 && e.code == nom::error::ErrorKind::TooLarge);
            kani::cover!(n == usize::MAX);
        }
        Err(nom::Err::Failure(_)) => panic!("never Failure"),
    }
}

// ------------------------------------------------------------------------------------------------
// headers (after the type): be_header for each kind

/// What follows the two connection ids of a long header.
#[derive(Clone, Copy, PartialEq, Eq)]
enum RefLong {
    /// dcid (start, len), scid (start, len), position after scid
    Cids(usize, usize, usize, usize, usize),
    TooLarge,
    Incomplete(usize),
}

fn ref_long_cids<const N: usize>(a: &[u8; N], pos: usize, len: usize) -> RefLong {
    match ref_cid(a, pos, len) {
        RefCid::TooLarge(_) => RefLong::TooLarge,
        RefCid::Incomplete(k) => RefLong::Incomplete(k),
        RefCid::Ok(ds, dl, p) => match ref_cid(a, p, len) {
            RefCid::TooLarge(_) => RefLong::TooLarge,
            RefCid::Incomplete(k) => RefLong::Incomplete(k),
            RefCid::Ok(ss, sl, q) => RefLong::Cids(ds, dl, ss, sl, q),
        },
    }
}

/// Outcome of be_header for a long header whose connection ids were checked against the reference.
enum LongOut {
    /// decoded header, number of bytes left
    Ok(Header, usize),
    /// the type-specific part is truncated: number of bytes reported missing
    SpecificIncomplete(usize),
    /// truncated / over-long connection id (already checked against the reference)
    CidErr,
}

/// Common part of the long-header harnesses: run be_header for long type k (RFC type bits,
/// 4 = Version Negotiation) on `arr[..len]` and check connection ids and error kinds against `cids`.
fn long_header_case<const N: usize>(k: u8, arr: &[u8; N], len: usize, cids: RefLong) -> LongOut {
    let ty = type_of(if k == 4 { RefTy::Vn } else { RefTy::V1(k) });
    let dcid_len: usize = kani::any(); // ignored for long headers
    match be_header(ty, dcid_len, &arr[..len]) {
        Ok((remain, hdr)) => {
            assert!(remain.len() <= len, "never reads outside the buffer");
            match cids {
                RefLong::Cids(ds, dl, ss, sl, _q) => {
                    let (d, s): (&ConnectionId, &ConnectionId) = match &hdr {
                        Header::VN(h) => (h.dcid(), h.scid()),
                        Header::Retry(h) => (h.dcid(), h.scid()),
                        Header::Initial(h) => (h.dcid(), h.scid()),
                        Header::ZeroRtt(h) => (h.dcid(), h.scid()),
                        Header::Handshake(h) => (h.dcid(), h.scid()),
                        Header::OneRtt(_) => panic!("long type decoded as 1-RTT"),
                    };
                    cid_is(d, arr, ds, dl);
                    cid_is(s, arr, ss, sl);
                    let kind_ok = match &hdr {
                        Header::VN(_) => k == 4,
                        Header::Retry(_) => k == 3,
                        Header::Initial(_) => k == 0,
                        Header::ZeroRtt(_) => k == 1,
                        Header::Handshake(_) => k == 2,
                        Header::OneRtt(_) => false,
                    };
                    assert!(kind_ok, "header kind == packet type");
                }
                _ => panic!("header with over-long / truncated connection id accepted"),
            }
            LongOut::Ok(hdr, remain.len())
        }
        Err(nom::Err::Incomplete(n)) => match cids {
            RefLong::Incomplete(want) => {
                needed_is(n, want);
                LongOut::CidErr
            }
            RefLong::TooLarge => panic!("Incomplete for an over-long cid"),
            RefLong::Cids(..) => match n {
                nom::Needed::Size(m) => LongOut::SpecificIncomplete(m.get()),
                nom::Needed::Unknown => panic!("needed size is known"),
            },
        },
        Err(nom::Err::Error(e)) => {
            assert!(e.code == nom::error::ErrorKind::TooLarge, "the only Error is cid length > 20");
            assert!(cids == RefLong::TooLarge);
            kani::cover!(len >= 2 && arr[0] <= 20, "scid too large");
            kani::cover!(arr[0] > 20, "dcid too large");
            LongOut::CidErr
        }
        Err(nom::Err::Failure(_)) => panic!("never Failure"),
    }
}

/// C03 Initial header: DCIL DCID SCIL SCID TokenLength(varint) Token.
fn p_header_initial<const N: usize>() {
    let (arr, len) = any_input::<N>();
    let cids = ref_long_cids(&arr, 0, len);
    let out = long_header_case(0, &arr, len, cids);
    if let RefLong::Cids(_, _, _, _, q) = cids {
        // reference for the specific part
        let tok = match ref_varint(&arr, q, len) {
            Some((tl, p)) if tl <= (len - p) as u64 => Some((p, tl as usize)),
            _ => None,
        };
        match out {
            LongOut::Ok(hdr, remain) => match (&hdr, tok) {
                (Header::Initial(h), Some((ts, tl))) => {
                    assert!(h.token().len() == tl, "token length == the Token Length varint");
                    assert!(remain == len - ts - tl, "consumes cids + token length + token");
                    let j: usize = kani::any();
                    if j < tl {
                        assert!(h.token()[j] == arr[ts + j], "token byte j == wire byte");
                    }
                    kani::cover!(tl == 3 && remain == 0);
                    kani::cover!(ts - q == 2, "token length in a 2-byte varint");
                    core::mem::forget(hdr);
                }
                _ => panic!("truncated token accepted"),
            },
            LongOut::SpecificIncomplete(got) => {
                assert!(tok.is_none(), "complete Initial header rejected");
                // the missing byte count: varint bytes, or token bytes
                let want = match ref_varint(&arr, q, len) {
                    None => varint_missing(&arr, q, len),
                    Some((tl, p)) => (tl - (len - p) as u64) as usize,
                };
                assert!(got == want, "Incomplete reports the exact number of missing bytes");
                kani::cover!(want > 1000, "huge declared token length is just Incomplete");
            }
            LongOut::CidErr => panic!("cids are complete"),
        }
    } else {
        assert!(matches!(out, LongOut::CidErr));
    }
}

/// C03 0-RTT / Handshake header: DCIL DCID SCIL SCID, nothing else.
fn p_header_plain<const N: usize>(k: u8) {
    let (arr, len) = any_input::<N>();
    let cids = ref_long_cids(&arr, 0, len);
    let out = long_header_case(k, &arr, len, cids);
    match (cids, out) {
        (RefLong::Cids(_, dl, _, sl, q), LongOut::Ok(hdr, remain)) => {
            assert!(remain == len - q, "consumes exactly the two connection ids");
            kani::cover!(dl == 20 && sl > 0);
            core::mem::forget(hdr);
        }
        (RefLong::Cids(..), _) => panic!("complete header rejected"),
        (_, LongOut::CidErr) => {}
        (_, _) => panic!("unreachable: checked in long_header_case"),
    }
}

/// C03 Retry header: DCIL DCID SCIL SCID RetryToken(..) RetryIntegrityTag(128): the tag is the LAST
/// 16 bytes of the datagram, the token everything between; fewer than 16 bytes -> Incomplete(16).
fn p_header_retry<const N: usize>() {
    let (arr, len) = any_input::<N>();
    let cids = ref_long_cids(&arr, 0, len);
    let out = long_header_case(3, &arr, len, cids);
    if let RefLong::Cids(_, _, _, _, q) = cids {
        let rest = len - q;
        match out {
            LongOut::Ok(hdr, remain) => {
                assert!(rest >= 16, "retry without a complete integrity tag accepted");
                assert!(remain == 0, "Retry consumes the whole datagram");
                match &hdr {
                    Header::Retry(h) => {
                        assert!(h.token().len() == rest - 16);
                        let j: usize = kani::any();
                        if j < rest - 16 {
                            assert!(h.token()[j] == arr[q + j], "token byte");
                        }
                        let i: usize = kani::any();
                        kani::assume(i < 16);
                        assert!(h.integrity()[i] == arr[len - 16 + i], "integrity tag == last 16 bytes");
                        kani::cover!(rest == 19);
                    }
                    _ => panic!("wrong kind"),
                }
                core::mem::forget(hdr);
            }
            LongOut::SpecificIncomplete(got) => {
                assert!(rest < 16, "complete Retry rejected");
                assert!(got == 16);
                kani::cover!(rest == 15);
            }
            LongOut::CidErr => panic!("cids are complete"),
        }
    } else {
        assert!(matches!(out, LongOut::CidErr));
    }
}

/// C03 Version Negotiation: DCIL DCID SCIL SCID SupportedVersion(32)*: the rest of the datagram
/// must be a multiple of 4 bytes (otherwise Incomplete), versions in wire order.
fn p_header_vn<const N: usize>() {
    let (arr, len) = any_input::<N>();
    let cids = ref_long_cids(&arr, 0, len);
    let out = long_header_case(4, &arr, len, cids);
    if let RefLong::Cids(_, _, _, _, q) = cids {
        let rest = len - q;
        match out {
            LongOut::Ok(hdr, remain) => {
                assert!(rest % 4 == 0, "dangling bytes after the last version accepted");
                assert!(remain == 0, "VN consumes the whole datagram");
                match &hdr {
                    Header::VN(h) => {
                        assert!(h.versions().len() == rest / 4);
                        let j: usize = kani::any();
                        if j < rest / 4 {
                            let p = q + 4 * j;
                            let v = ((arr[p] as u32) << 24) | ((arr[p + 1] as u32) << 16) | ((arr[p + 2] as u32) << 8) | arr[p + 3] as u32;
                            assert!(h.versions()[j] == v, "version j == big-endian u32 at q + 4j");
                        }
                        kani::cover!(rest == 8);
                    }
                    _ => panic!("wrong kind"),
                }
                core::mem::forget(hdr);
            }
            LongOut::SpecificIncomplete(got) => {
                assert!(rest % 4 != 0, "complete VN rejected");
                assert!(got == 4 - rest % 4);
                kani::cover!(rest == 5);
            }
            LongOut::CidErr => panic!("cids are complete"),
        }
    } else {
        assert!(matches!(out, LongOut::CidErr));
    }
}

#[kani::proof]
#[kani::stub(core::slice::index::slice_index_fail, stub_slice_index_fail)]
#[kani::stub(crate::varint::be_varint, model_be_varint)]
#[kani::unwind(6)]
fn c03_pkt_header_initial() {
    p_header_initial::<24>();
}

// (the packet type is CONCRETE per harness: with a symbolic type be_header's dispatch explores all six
// header kinds, 27 k -> 718 k SSA steps)
#[kani::proof]
#[kani::stub(core::slice::index::slice_index_fail, stub_slice_index_fail)]
#[kani::unwind(6)]
fn c03_pkt_header_zero_rtt() {
    p_header_plain::<32>(1);
}

#[kani::proof]
#[kani::stub(core::slice::index::slice_index_fail, stub_slice_index_fail)]
#[kani::unwind(6)]
fn c03_pkt_header_handshake() {
    p_header_plain::<32>(2);
}

#[kani::proof]
#[kani::stub(core::slice::index::slice_index_fail, stub_slice_index_fail)]
#[kani::unwind(6)]
fn c03_pkt_header_retry() {
    p_header_retry::<26>();
}

#[kani::proof]
#[kani::stub(core::slice::index::slice_index_fail, stub_slice_index_fail)]
#[kani::unwind(6)]
fn c03_pkt_header_vn() {
    p_header_vn::<16>();
}

/// C03 1-RTT header: the dcid is the `dcid_len` bytes after the first byte (length known to the
/// receiver only), `dcid_len` in 0..=20 (the endpoint's own cid length).
#[kani::proof]
#[kani::stub(core::slice::index::slice_index_fail, stub_slice_index_fail)]
#[kani::unwind(3)]
fn c03_pkt_header_one_rtt() {
    let (arr, len) = any_input::<24>();
    let dcid_len: usize = kani::any();
    kani::assume(dcid_len <= MAX_CID_SIZE);
    let spin = if kani::any() { SpinBit::One } else { SpinBit::Zero };
    match be_header(Type::Short(OneRtt(spin)), dcid_len, &arr[..len]) {
        Ok((remain, Header::OneRtt(h))) => {
            assert!(dcid_len <= len && remain.len() == len - dcid_len);
            cid_is(h.dcid(), &arr, 0, dcid_len);
            assert!(h.spin() == spin);
            kani::cover!(dcid_len == 20);
        }
        Ok(_) => panic!("short type decoded as a long header"),
        Err(nom::Err::Incomplete(n)) => {
            assert!(dcid_len > len);
            needed_is(n, dcid_len - len);
            kani::cover!(len == 19);
        }
        Err(_) => panic!("1-RTT header: only Incomplete"),
    }
    // same through the inner parser
    let r = be_one_rtt_header(spin, dcid_len, &arr[..len]);
    assert!(r.is_ok() == (dcid_len <= len));
}

// ------------------------------------------------------------------------------------------------
// whole packets: be_packet over a real BytesMut

#[derive(Clone, Copy, PartialEq, Eq)]
enum RefPkt {
    IncompleteType,
    InvalidFixedBit,
    Unsupported(u32),
    /// truncated header (cids, token, Length varint, or fewer payload bytes than Length declares)
    IncompleteHeader(RefTy),
    /// payload (pn + body + tag) shorter than 20 bytes: no header-protection sample
    UnderSampling(RefTy, usize),
    /// a long header whose DCIL or SCIL byte is > 20: RFC 9000 §17.2 "MUST drop the packet"
    CidTooLarge,
    Vn,
    Retry,
    /// type, packet length, payload offset (position of the packet number), dcid start, dcid len
    Data(RefTy, usize, usize, usize, usize),
}

/// RFC 9000 §17.2 / §17.3 + §12.2 (coalescing): the first packet of the datagram `a[..len]`.
///   long  : type(1) version(4) DCIL DCID SCIL SCID [TokenLength Token] Length(varint) | pn.. payload
///           packet = everything up to Length bytes after the Length field; the rest of the datagram
///           is the next coalesced packet
///   short : type(1) DCID(dcid_len) | pn.. payload ; the packet is the rest of the datagram
///   VN / Retry: no Length, the packet is the whole datagram
fn ref_packet<const N: usize>(a: &[u8; N], len: usize, dcid_len: usize) -> RefPkt {
    let (ty, p) = match ref_type(a, len) {
        Ok(x) => x,
        Err(RefTyErr::Incomplete(_)) => return RefPkt::IncompleteType,
        Err(RefTyErr::FixedBit) => return RefPkt::InvalidFixedBit,
        Err(RefTyErr::Unsupported(v)) => return RefPkt::Unsupported(v),
    };
    if let RefTy::Short(_) = ty {
        if len - 1 < dcid_len {
            return RefPkt::IncompleteHeader(ty);
        }
        let payload = len - 1 - dcid_len;
        if payload < 20 {
            return RefPkt::UnderSampling(ty, payload);
        }
        return RefPkt::Data(ty, len, 1 + dcid_len, 1, dcid_len);
    }
    let (ds, dl, q) = match ref_long_cids(a, p, len) {
        RefLong::TooLarge => return RefPkt::CidTooLarge,
        RefLong::Incomplete(_) => return RefPkt::IncompleteHeader(ty),
        RefLong::Cids(ds, dl, _, _, q) => (ds, dl, q),
    };
    let mut q = q;
    match ty {
        RefTy::Vn => {
            return if (len - q) % 4 != 0 { RefPkt::IncompleteHeader(ty) } else { RefPkt::Vn };
        }
        RefTy::V1(3) => {
            return if len - q < 16 { RefPkt::IncompleteHeader(ty) } else { RefPkt::Retry };
        }
        RefTy::V1(0) => match ref_varint(a, q, len) {
            Some((tl, p2)) if tl <= (len - p2) as u64 => q = p2 + tl as usize,
            _ => return RefPkt::IncompleteHeader(ty),
        },
        _ => {}
    }
    match ref_varint(a, q, len) {
        Some((l, p2)) if l <= (len - p2) as u64 => {
            let l = l as usize;
            if l < 20 {
                RefPkt::UnderSampling(ty, l)
            } else {
                RefPkt::Data(ty, p2 + l, p2, ds, dl)
            }
        }
        _ => RefPkt::IncompleteHeader(ty),
    }
}

/// Run the real be_packet on `arr[..len]` and compare with the reference.
fn packet_case<const N: usize>(arr: &[u8; N], len: usize, dcid_len: usize, reference: RefPkt) {
    let mut datagram = datagram_of(arr, len);
    let r = be_packet(&mut datagram, dcid_len);
    let left = datagram.len();
    match r {
        Ok(Packet::VN(h)) => {
            assert!(reference == RefPkt::Vn);
            assert!(left == 0, "VN: the rest of the datagram is dropped");
            core::mem::forget(h);
        }
        Ok(Packet::Retry(h)) => {
            assert!(reference == RefPkt::Retry);
            assert!(left == 0, "Retry: the rest of the datagram is dropped");
            core::mem::forget(h);
        }
        Ok(Packet::Data(pkt)) => {
            match reference {
                RefPkt::Data(ty, plen, off, ds, dl) => {
                    assert!(type_is(pkt.get_type(), ty), "header kind == first byte / version");
                    assert!(pkt.bytes.len() == plen, "packet = header + Length bytes, never beyond the datagram");
                    assert!(plen <= len);
                    assert!(left == len - plen, "the remaining datagram is exactly what follows the packet");
                    assert!(left < len, "the datagram strictly shrinks (no infinite loop over coalesced packets)");
                    assert!(pkt.offset == off, "offset == position of the packet number");
                    assert!(pkt.offset + 20 <= pkt.bytes.len(), "4 pn bytes + 16 sample bytes are inside the packet");
                    cid_is(pkt.dcid(), arr, ds, dl);
                    // contents: the packet is arr[..plen], the rest is arr[plen..len]
                    let j: usize = kani::any();
                    if j < plen {
                        assert!(pkt.bytes[j] == arr[j], "packet bytes are the datagram's");
                    }
                    let i: usize = kani::any();
                    if i < left {
                        assert!(datagram[i] == arr[plen + i], "remaining bytes are the datagram's");
                    }
                }
                _ => panic!("malformed / truncated packet accepted"),
            }
            core::mem::forget(pkt);
        }
        Err(e) => {
            match (&e, reference) {
                (Error::IncompleteType(_), RefPkt::IncompleteType) => {}
                (Error::InvalidFixedBit, RefPkt::InvalidFixedBit) => {}
                (Error::UnsupportedVersion(v), RefPkt::Unsupported(w)) => assert!(*v == w),
                (Error::IncompleteHeader(t, _), RefPkt::IncompleteHeader(rt)) => assert!(type_is(*t, rt)),
                (Error::UnderSampling(t, n), RefPkt::UnderSampling(rt, m)) => {
                    assert!(type_is(*t, rt));
                    assert!(*n == m, "reported payload size");
                }
                _ => panic!("wrong error kind for this datagram"),
            }
            assert!(left <= len, "an error never grows the datagram (PacketReader clears it)");
            core::mem::forget(e);
        }
    }
    core::mem::forget(datagram);
}

/// C03 be_packet, every datagram of <= N bytes whose long-header connection id lengths are <= 20
/// (passing twin of c03_pend_pkt_cid_too_large_pending).
fn p_packet<const N: usize>() {
    let (arr, len) = any_input::<N>();
    let dcid_len: usize = kani::any();
    kani::assume(dcid_len <= MAX_CID_SIZE);
    let reference = ref_packet(&arr, len, dcid_len);
    kani::assume(reference != RefPkt::CidTooLarge);
    // Version Negotiation datagrams (long form, version 0) with complete cids: c03_pkt_packet_vn
    kani::assume(!is_vn_with_cids(&arr, len));
    packet_case(&arr, len, dcid_len, reference);
    // witnesses (packet_case has asserted that the real verdict equals `reference`)
    kani::cover!(matches!(reference, RefPkt::Data(RefTy::Short(_), ..)), "1-RTT packet");
    kani::cover!(matches!(reference, RefPkt::Data(RefTy::V1(0), _, off, ..) if off > 9), "Initial packet with token / cids");
    kani::cover!(matches!(reference, RefPkt::Data(RefTy::V1(2), plen, ..) if plen < len), "coalesced: bytes left after a Handshake packet");
    kani::cover!(reference == RefPkt::Retry, "Retry packet");
    kani::cover!(matches!(reference, RefPkt::UnderSampling(RefTy::V1(_), 19)), "Length 19: cannot be sampled");
    kani::cover!(matches!(reference, RefPkt::IncompleteHeader(RefTy::V1(1))), "truncated 0-RTT");
}

/// Long form, version 0, both connection ids complete and <= 20 bytes: exactly the datagrams for
/// which be_packet reaches be_version_negotiation.
fn is_vn_with_cids<const N: usize>(a: &[u8; N], len: usize) -> bool {
    matches!(ref_type(a, len), Ok((RefTy::Vn, _))) && matches!(ref_long_cids(a, 5, len), RefLong::Cids(..))
}

/// C03 be_packet on Version Negotiation datagrams (the complement of p_packet's exclusion).
fn p_packet_vn<const N: usize>() {
    let (arr, len) = any_input::<N>();
    kani::assume(is_vn_with_cids(&arr, len));
    let reference = ref_packet(&arr, len, 0);
    assert!(matches!(reference, RefPkt::Vn | RefPkt::IncompleteHeader(RefTy::Vn)));
    packet_case(&arr, len, kani::any(), reference);
    kani::cover!(reference == RefPkt::Vn && len == 15, "VN with two versions");
    kani::cover!(reference != RefPkt::Vn, "dangling bytes after the last version");
}

#[kani::proof]
#[kani::stub(crate::packet::header::long::io::be_version_negotiation, stub_vn_excluded)]
#[kani::stub(core::slice::index::slice_index_fail, stub_slice_index_fail)]
#[kani::stub(core::fmt::write, stub_fmt_write)]
#[kani::stub(crate::varint::be_varint, model_be_varint)]
#[kani::unwind(6)]
fn c03_pkt_packet_any_bytes() {
    p_packet::<40>();
}

/// C03 be_packet restricted to SHORT-header datagrams (first byte bit 7 clear) of <= 32 bytes, dcid_len
/// 0..=20: the cheap quick-tier instance of c03_pkt_packet_any_bytes for the 1-RTT branch (type bits,
/// dcid, the >= 20-byte sampling guard counted AFTER the connection id, packet = rest of the datagram).
fn p_packet_short<const N: usize>() {
    let (arr, len) = any_input::<N>();
    kani::assume(len == 0 || arr[0] & 0x80 == 0);
    let dcid_len: usize = kani::any();
    kani::assume(dcid_len <= MAX_CID_SIZE);
    let reference = ref_packet(&arr, len, dcid_len);
    packet_case(&arr, len, dcid_len, reference);
    kani::cover!(matches!(reference, RefPkt::Data(RefTy::Short(_), ..)), "1-RTT packet");
    kani::cover!(matches!(reference, RefPkt::UnderSampling(RefTy::Short(_), 19)), "19 bytes after the dcid: cannot be sampled");
}

#[kani::proof]
#[kani::stub(crate::packet::header::long::io::be_version_negotiation, stub_vn_excluded)]
#[kani::stub(core::slice::index::slice_index_fail, stub_slice_index_fail)]
#[kani::stub(core::fmt::write, stub_fmt_write)]
#[kani::stub(crate::varint::be_varint, model_be_varint)]
#[kani::unwind(6)]
fn c03_pkt_packet_short_any_bytes() {
    p_packet_short::<32>();
}

/// Version Negotiation datagrams of <= 24 bytes (up to 4 versions after two empty cids).
#[kani::proof]
#[kani::stub(core::slice::index::slice_index_fail, stub_slice_index_fail)]
#[kani::stub(core::fmt::write, stub_fmt_write)]
#[kani::unwind(7)]
fn c03_pkt_packet_vn() {
    p_packet_vn::<24>();
}

/// C03 be_payload directly (the Length arithmetic of every long data packet), on a real BytesMut:
/// `remain_len` = number of datagram bytes after the header (what be_packet passes), so the Length
/// varint sits at `offset = len - remain_len`. Reference (RFC 9000 §17.2): Length(varint) counts the
/// bytes after it (packet number + payload); the packet is datagram[..offset + |Length| + Length], the
/// rest is the next coalesced packet; Length < 20 cannot be sampled (UnderSampling); a truncated
/// varint or fewer bytes than declared is IncompleteHeader.
fn p_payload<const N: usize>() {
    let (arr, len) = any_input::<N>();
    let remain_len: usize = kani::any();
    kani::assume(remain_len <= len); // be_packet: remain is a suffix of the datagram
    let at = len - remain_len;
    let k: u8 = kani::any();
    kani::assume(k < 3);
    let pkty = type_of(RefTy::V1(k));
    let mut datagram = datagram_of(&arr, len);
    let r = be_payload(pkty, &mut datagram, remain_len);
    let left = datagram.len();
    let reference = match ref_varint(&arr, at, len) {
        Some((l, p)) if l <= (len - p) as u64 => Some((l as usize, p)),
        _ => None,
    };
    match r {
        Ok((bytes, offset)) => match reference {
            Some((l, p)) => {
                assert!(l >= 20, "payload too short to sample accepted");
                assert!(offset == p, "returned offset == position after the Length field (the packet number)");
                assert!(bytes.len() == p + l, "packet == header + Length field + Length bytes");
                assert!(bytes.len() <= len, "never beyond the datagram");
                assert!(left == len - (p + l), "what follows the packet stays in the datagram");
                assert!(left < len, "strictly shrinks");
                assert!(offset + 20 <= bytes.len(), "pn + sample inside the packet");
                let j: usize = kani::any();
                if j < p + l {
                    assert!(bytes[j] == arr[j], "packet bytes are the datagram's");
                }
                let i: usize = kani::any();
                if i < left {
                    assert!(datagram[i] == arr[p + l + i], "remaining bytes are the datagram's");
                }
                kani::cover!(left > 0 && at > 0, "coalesced packet follows");
                kani::cover!(p - at == 2 && l == 20, "2-byte Length");
                core::mem::forget(bytes);
            }
            None => panic!("truncated packet accepted"),
        },
        Err(e) => {
            match &e {
                Error::IncompleteHeader(t, _) => {
                    assert!(*t == pkty);
                    assert!(reference.is_none(), "complete packet rejected as incomplete");
                }
                Error::UnderSampling(t, n) => {
                    assert!(*t == pkty);
                    match reference {
                        Some((l, _)) => assert!(l < 20 && *n == l, "reported payload size"),
                        None => panic!("UnderSampling for a truncated packet"),
                    }
                }
                _ => panic!("unexpected error kind"),
            }
            assert!(left == len, "an error leaves the datagram untouched");
            kani::cover!(matches!(e, Error::UnderSampling(_, 19)));
            kani::cover!(matches!(e, Error::IncompleteHeader(..)) && remain_len > 8, "declared Length exceeds the datagram");
            core::mem::forget(e);
        }
    }
    core::mem::forget(datagram);
}

#[kani::proof]
#[kani::stub(core::slice::index::slice_index_fail, stub_slice_index_fail)]
#[kani::stub(core::fmt::write, stub_fmt_write)]
#[kani::stub(crate::varint::be_varint, model_be_varint)]
#[kani::unwind(6)]
fn c03_pkt_payload_any_bytes() {
    p_payload::<40>();
}

/// thorough: real be_varint
#[kani::proof]
#[kani::stub(core::slice::index::slice_index_fail, stub_slice_index_fail)]
#[kani::stub(core::fmt::write, stub_fmt_write)]
#[kani::unwind(10)]
fn c03_pkt_payload_any_bytes_real() {
    p_payload::<40>();
}

/// C03 PENDING (suspected genuine defect), cheap concrete-prefix form: the 6-byte datagram
/// `c0 00 00 00 01 <DCIL>` (Initial, version 1) with DCIL symbolic. DCIL > 20 must be an Err.
#[kani::proof]
#[kani::stub(core::slice::index::slice_index_fail, stub_slice_index_fail)]
#[kani::stub(core::fmt::write, stub_fmt_write)]
#[kani::unwind(6)]
fn c03_pend_pkt_dcil_too_large_pending() {
    let dcil: u8 = kani::any();
    let arr = [0xc0u8, 0, 0, 0, 1, dcil];
    let mut datagram = BytesMut::from(&arr[..]);
    let r = be_packet(&mut datagram, 8);
    kani::cover!(dcil <= 20, "short cid: IncompleteHeader");
    assert!(r.is_err(), "truncated or over-long connection id: packet dropped with an error");
    core::mem::forget(r);
    core::mem::forget(datagram);
}

/// C03 PENDING (suspected genuine defect): a long-header packet whose DCIL or SCIL byte is > 20.
/// RFC 9000 §17.2: "Endpoints that receive a version 1 long header with a value larger than 20 MUST
/// drop the packet". be_connection_id returns nom::Err::Error(TooLarge), be_header propagates it, and
/// be_packet maps every non-Incomplete header error to `unreachable!(..)`: a panic in the receive task.
#[kani::proof]
#[kani::stub(crate::packet::header::long::io::be_version_negotiation, stub_vn_excluded)]
#[kani::stub(core::slice::index::slice_index_fail, stub_slice_index_fail)]
#[kani::stub(core::fmt::write, stub_fmt_write)]
#[kani::unwind(10)]
fn c03_pend_pkt_cid_too_large_pending() {
    let (arr, len) = any_input::<8>();
    let reference = ref_packet(&arr, len, 8);
    kani::assume(reference == RefPkt::CidTooLarge);
    let mut datagram = datagram_of(&arr, len);
    let r = be_packet(&mut datagram, 8);
    // the datagram must be dropped with an error, not panic
    assert!(r.is_err(), "over-long connection id: packet dropped");
    core::mem::forget(r);
    core::mem::forget(datagram);
}

/// C03 PacketReader::next (the iterator the receive task drives): empty -> None; otherwise one
/// be_packet step; an Err clears the buffer so the following call returns None; an Ok strictly
/// shrinks it. Together with c03_pkt_packet_any_bytes: the loop over a datagram terminates after at
/// most len steps and yields at most one Err, which is the last item.
#[kani::proof]
#[kani::stub(crate::packet::header::long::io::be_version_negotiation, stub_vn_excluded)]
#[kani::stub(core::slice::index::slice_index_fail, stub_slice_index_fail)]
#[kani::stub(core::fmt::write, stub_fmt_write)]
#[kani::stub(tracing::callsite::DefaultCallsite::interest, stub_tr_interest)]
#[kani::stub(tracing::__macro_support::__is_enabled, stub_tr_enabled)]
#[kani::stub(tracing::Event::dispatch, stub_tr_dispatch)]
#[kani::stub(crate::varint::be_varint, model_be_varint)]
#[kani::unwind(6)]
fn c03_pkt_reader_progress() {
    let (arr, len) = any_input::<32>();
    let dcid_len: usize = kani::any();
    kani::assume(dcid_len <= MAX_CID_SIZE);
    let reference = ref_packet(&arr, len, dcid_len);
    kani::assume(reference != RefPkt::CidTooLarge);
    kani::assume(!is_vn_with_cids(&arr, len)); // c03_pkt_packet_vn
    let mut reader = PacketReader::new(datagram_of(&arr, len), dcid_len);
    match reader.next() {
        None => {
            assert!(len == 0, "a non-empty datagram always yields an item");
            kani::cover!(true, "empty datagram");
        }
        Some(Ok(p)) => {
            assert!(reader.raw_bytes.len() < len, "progress");
            assert!(matches!(reference, RefPkt::Vn | RefPkt::Retry | RefPkt::Data(..)));
            kani::cover!(reader.raw_bytes.len() > 0, "more bytes to parse");
            core::mem::forget(p);
        }
        Some(Err(e)) => {
            assert!(len > 0);
            assert!(reader.raw_bytes.is_empty(), "after an error nothing more is parsed");
            assert!(!matches!(reference, RefPkt::Vn | RefPkt::Retry | RefPkt::Data(..)));
            core::mem::forget(e);
            // the next call returns None: that is the `len == 0` case of this same harness
            kani::cover!(true, "error: buffer cleared");
        }
    }
    core::mem::forget(reader);
}

// ------------------------------------------------------------------------------------------------
// addresses, preferred address, reset token

/// C03 be_socket_addr / be_endpoint_addr (nom *complete* parsers) on every byte string of length
/// 0..=40, both families, direct and relayed form: port(16) then the IP (32 / 128 bits), big endian.
#[kani::proof]
#[kani::stub(core::slice::index::slice_index_fail, stub_slice_index_fail)]
#[kani::unwind(18)]
fn c03_pkt_addr_any_bytes() {
    let (arr, len) = any_input::<40>();
    let v6: bool = kani::any();
    let family = if v6 { Family::V6 } else { Family::V4 };
    let one = if v6 { 18usize } else { 6 };
    let relay: u8 = kani::any();
    let n_addr = if relay != 0 { 2usize } else { 1 };
    match be_endpoint_addr(&arr[..len], relay, family) {
        Ok((remain, ep)) => {
            assert!(len >= n_addr * one && remain.len() == len - n_addr * one);
            let (first, second) = match ep {
                EndpointAddr::Direct { addr } => {
                    assert!(relay == 0);
                    (addr, None)
                }
                EndpointAddr::Agent { agent, outer } => {
                    assert!(relay != 0);
                    (agent, Some(outer))
                }
            };
            addr_is(&first, &arr, 0, v6);
            if let Some(o) = second {
                addr_is(&o, &arr, one, v6);
            }
            assert!(ep.encoding_size() == n_addr * one, "encoding_size() agrees with the bytes consumed");
            kani::cover!(v6 && relay != 0 && len == 36);
        }
        Err(nom::Err::Error(e)) => {
            assert!(len < n_addr * one, "complete address rejected");
            assert!(e.code == nom::error::ErrorKind::Eof);
            kani::cover!(relay != 0 && len >= one, "second address truncated");
        }
        Err(_) => panic!("complete parsers: only Error(Eof)"),
    }
    // single address form
    match be_socket_addr(&arr[..len], family) {
        Ok((remain, a)) => {
            assert!(remain.len() == len - one);
            addr_is(&a, &arr, 0, v6);
        }
        Err(nom::Err::Error(_)) => assert!(len < one),
        Err(_) => panic!("only Error(Eof)"),
    }
}

fn addr_is<const N: usize>(a: &std::net::SocketAddr, arr: &[u8; N], at: usize, v6: bool) {
    assert!(a.port() == ((arr[at] as u16) << 8 | arr[at + 1] as u16), "port == first two bytes, big endian");
    match a.ip() {
        std::net::IpAddr::V4(ip) => {
            assert!(!v6);
            let o = ip.octets();
            assert!(o[0] == arr[at + 2] && o[1] == arr[at + 3] && o[2] == arr[at + 4] && o[3] == arr[at + 5]);
        }
        std::net::IpAddr::V6(ip) => {
            assert!(v6);
            let o = ip.octets();
            let j: usize = kani::any();
            kani::assume(j < 16);
            assert!(o[j] == arr[at + 2 + j], "IPv6 octet j");
        }
    }
}

/// C03 be_reset_token on every byte string of length 0..=20: 16 bytes or Error(Eof) (complete take).
#[kani::proof]
#[kani::stub(core::slice::index::slice_index_fail, stub_slice_index_fail)]
#[kani::unwind(3)]
fn c03_pkt_reset_token_any_bytes() {
    let (arr, len) = any_input::<20>();
    match be_reset_token(&arr[..len]) {
        Ok((remain, tok)) => {
            assert!(len >= 16 && remain.len() == len - 16);
            let j: usize = kani::any();
            kani::assume(j < 16);
            assert!(tok[j] == arr[j]);
            kani::cover!(len == 20);
        }
        Err(nom::Err::Error(e)) => {
            assert!(len < 16 && e.code == nom::error::ErrorKind::Eof && e.input.len() == len);
            kani::cover!(len == 15);
        }
        Err(_) => panic!("only Error(Eof)"),
    }
}

/// C03 be_preferred_address on every byte string of length 0..=64. RFC 9000 §18.2 figure 22:
/// IPv4(32) port(16) IPv6(128) port(16) CIDLength(8) CID(..) StatelessResetToken(128).
#[kani::proof]
#[kani::stub(core::slice::index::slice_index_fail, stub_slice_index_fail)]
#[kani::unwind(3)]
fn c03_pkt_preferred_address_any_bytes() {
    let (arr, len) = any_input::<64>();
    match be_preferred_address(&arr[..len]) {
        Ok((remain, pa)) => {
            assert!(len >= 25);
            let cl = arr[24] as usize;
            assert!(cl <= 20 && len >= 25 + cl + 16 && remain.len() == len - (25 + cl + 16));
            let v4 = pa.address_v4();
            let o = v4.ip().octets();
            assert!(o[0] == arr[0] && o[1] == arr[1] && o[2] == arr[2] && o[3] == arr[3]);
            assert!(v4.port() == ((arr[4] as u16) << 8 | arr[5] as u16));
            let v6 = pa.address_v6();
            let o6 = v6.ip().octets();
            let j: usize = kani::any();
            kani::assume(j < 16);
            assert!(o6[j] == arr[6 + j]);
            assert!(v6.port() == ((arr[22] as u16) << 8 | arr[23] as u16));
            assert!(v6.flowinfo() == 0 && v6.scope_id() == 0);
            let cid = pa.connection_id();
            cid_is(&cid, &arr, 25, cl);
            let tok = pa.stateless_reset_token();
            assert!(tok[j] == arr[25 + cl + j], "reset token follows the cid");
            assert!(pa.encoding_size() == 25 + cl + 16);
            kani::cover!(cl == 20 && len == 61);
        }
        Err(nom::Err::Incomplete(n)) => {
            // streaming takes: the two addresses and the cid
            if len < 6 {
                needed_is(n, 6 - len);
            } else if len < 24 {
                needed_is(n, 24 - len);
            } else if len == 24 {
                needed_is(n, 1);
            } else {
                let cl = arr[24] as usize;
                assert!(cl <= 20 && len - 25 < cl);
                needed_is(n, cl - (len - 25));
            }
            kani::cover!(len == 30);
        }
        Err(nom::Err::Error(e)) => {
            assert!(len >= 25);
            let cl = arr[24] as usize;
            if cl > 20 {
                assert!(e.code == nom::error::ErrorKind::TooLarge);
            } else {
                // complete take of the token
                assert!(e.code == nom::error::ErrorKind::Eof);
                assert!(len >= 25 + cl && len - 25 - cl < 16);
            }
            kani::cover!(cl > 20);
            kani::cover!(cl == 4 && len == 44, "token one byte short");
        }
        Err(nom::Err::Failure(_)) => panic!("never Failure"),
    }
}
