// Kani harnesses compiled *inside* qbase::frame::io (overlay injection, cfg(kani) only; needs
// `patch_bytes = true`). Property C03, frame part: the slice arithmetic of `complete_frame`'s
// CRYPTO / STREAM / DATAGRAM arms over a real `bytes::Bytes`.
// (`be_frame` itself — dispatcher + Bytes + error strings — did not finish within 5 minutes even
// restricted to the payload-less / single-varint kinds on 6 bytes with format!, to_string and
// be_varint stubbed: stated as outside the claim. Progress of `FrameReader::next` follows from the
// parts: be_frame_type consumes >= 1 byte on success, every inner parser returns a suffix of its input.)
use super::*;
// the verified byte-arithmetic model of be_varint (proved equal to the real parser by
// c03_varint_model_equivalence in frames_c03.rs)
use crate::frame::verif_frames_c03::{model_be_varint, stub_slice_index_fail};

/// A packet payload with arbitrary content and arbitrary length 0..=N.
fn any_payload<const N: usize>() -> (Bytes, &'static [u8; N]) {
    let arr: [u8; N] = kani::any();
    let len: usize = kani::any();
    kani::assume(len <= N);
    let s: &'static [u8; N] = Box::leak(Box::new(arr));
    (Bytes::from_static(&s[..]).slice(..len), s)
}

/// Length in bytes of the varint starting with byte b.
fn vlen(b: u8) -> usize {
    1usize << (b >> 6)
}

/// C03 complete_frame, CRYPTO arm: for every payload of <= N bytes and every position `hdr` at which
/// the frame body starts, the arm never slices outside `raw`, returns exactly `length` data bytes —
/// the ones that follow the header in the packet — and leaves `remain` inside the input.
fn crypto_arm<const N: usize>() {
    let (raw, s) = any_payload::<N>();
    let hdr: usize = kani::any();
    kani::assume(hdr <= raw.len());
    let input = &raw[hdr..];
    match complete_frame(FrameType::Crypto, raw.clone())(input) {
        Ok((remain, Frame::Crypto(f, data))) => {
            assert!(remain.len() <= input.len());
            assert!(data.len() as u64 == f.len());
            let consumed = input.len() - remain.len();
            assert!(consumed >= 2 + data.len(), "offset and length fields are mandatory");
            let body_at = hdr + consumed - data.len();
            assert!(body_at == hdr + vlen(s[hdr]) + vlen(s[hdr + vlen(s[hdr])]));
            let k: usize = kani::any();
            if k < data.len() {
                assert!(data[k] == s[body_at + k], "data body is the bytes after the header");
            }
            kani::cover!(data.len() == 3);
            kani::cover!(data.is_empty() && remain.len() == 2);
            core::mem::forget(data);
        }
        Ok(_) => panic!("CRYPTO arm returned another frame kind"),
        Err(e) => {
            assert!(!matches!(e, nom::Err::Failure(_)));
            kani::cover!(matches!(e, nom::Err::Incomplete(_)), "truncated body -> Incomplete");
            core::mem::forget(e);
        }
    }
    core::mem::forget(raw);
}

#[kani::proof]
#[kani::stub(core::slice::index::slice_index_fail, stub_slice_index_fail)]
#[kani::unwind(10)]
#[kani::stub(crate::varint::be_varint, model_be_varint)]
fn c03_complete_frame_crypto_arm() {
    crypto_arm::<8>()
}

/// C03 complete_frame, STREAM arm, all 8 flag combinations.
fn stream_arm<const N: usize>(l: Len) {
    let (raw, s) = any_payload::<N>();
    let hdr: usize = kani::any();
    kani::assume(hdr <= raw.len());
    let off = if kani::any() { Offset::NonZero } else { Offset::Zero };
    let fin = if kani::any() { Fin::Yes } else { Fin::No };
    let input = &raw[hdr..];
    match complete_frame(FrameType::Stream(off, l, fin), raw.clone())(input) {
        Ok((remain, Frame::Stream(f, data))) => {
            assert!(remain.len() <= input.len());
            assert!(data.len() == f.len());
            let consumed = input.len() - remain.len();
            assert!(consumed >= 1 + data.len(), "stream id is mandatory");
            if l == Len::Omit {
                assert!(remain.is_empty(), "a frame without length extends to the end of the packet");
            }
            let body_at = hdr + consumed - data.len();
            let k: usize = kani::any();
            if k < data.len() {
                assert!(data[k] == s[body_at + k], "data body is the bytes after the header");
            }
            assert!(f.is_fin() == (fin == Fin::Yes));
            kani::cover!(data.len() == 2 && off == Offset::NonZero);
            core::mem::forget(data);
        }
        Ok(_) => panic!("STREAM arm returned another frame kind"),
        Err(e) => {
            assert!(!matches!(e, nom::Err::Failure(_)));
            kani::cover!(matches!(e, nom::Err::Incomplete(_)));
            core::mem::forget(e);
        }
    }
    core::mem::forget(raw);
}

/// STREAM frames with an explicit length field.
#[kani::proof]
#[kani::stub(core::slice::index::slice_index_fail, stub_slice_index_fail)]
#[kani::unwind(10)]
#[kani::stub(crate::varint::be_varint, model_be_varint)]
fn c03_complete_frame_stream_arm_len() {
    stream_arm::<6>(Len::Explicit)
}

/// STREAM frames without length field (extend to the end of the packet).
#[kani::proof]
#[kani::stub(core::slice::index::slice_index_fail, stub_slice_index_fail)]
#[kani::unwind(10)]
#[kani::stub(crate::varint::be_varint, model_be_varint)]
fn c03_complete_frame_stream_arm_nolen() {
    stream_arm::<6>(Len::Omit)
}

/// C03 complete_frame, DATAGRAM arm, with and without length.
fn datagram_arm<const N: usize>() {
    let (raw, s) = any_payload::<N>();
    let hdr: usize = kani::any();
    kani::assume(hdr <= raw.len());
    let with_len: u8 = if kani::any() { 1 } else { 0 };
    let input = &raw[hdr..];
    match complete_frame(FrameType::Datagram(with_len), raw.clone())(input) {
        Ok((remain, Frame::Datagram(f, data))) => {
            assert!(remain.len() <= input.len());
            assert!(data.len() as u64 == f.len().into_u64());
            let consumed = input.len() - remain.len();
            if with_len == 0 {
                assert!(remain.is_empty() && data.len() == input.len());
            } else {
                assert!(consumed == vlen(s[hdr]) + data.len());
            }
            let body_at = hdr + consumed - data.len();
            let k: usize = kani::any();
            if k < data.len() {
                assert!(data[k] == s[body_at + k], "data body is the bytes after the header");
            }
            kani::cover!(with_len == 1 && data.len() == 5);
            kani::cover!(with_len == 0 && data.len() == 0);
            core::mem::forget(data);
        }
        Ok(_) => panic!("DATAGRAM arm returned another frame kind"),
        Err(e) => {
            assert!(!matches!(e, nom::Err::Failure(_)));
            assert!(with_len == 1);
            core::mem::forget(e);
        }
    }
    core::mem::forget(raw);
}

#[kani::proof]
#[kani::stub(core::slice::index::slice_index_fail, stub_slice_index_fail)]
#[kani::unwind(10)]
#[kani::stub(crate::varint::be_varint, model_be_varint)]
fn c03_complete_frame_datagram_arm() {
    datagram_arm::<8>()
}

/// C03/C04 complete_frame, ACK arm: an ACK frame read from a packet passes through the gate
/// `AckFrame::is_well_formed` (RFC 9000 §19.3.1: a computed packet number that is negative is a
/// FRAME_ENCODING_ERROR). Four wire witnesses: three ill-formed frames are answered with an error that
/// is not a nom Failure (be_frame maps it to frame::Error::ParseError -> FRAME_ENCODING_ERROR), the
/// boundary frame reaching exactly packet number 0 is accepted unchanged.
/// On the pinned tree the three ill-formed frames were ACCEPTED and reached `AckFrame::iter`
/// (genuine defect F-C04-ack-negative-range, fixed in /repo).
fn ack_gate_case(bytes: &'static [u8], expect_ok: bool) {
    let raw = Bytes::from_static(bytes);
    let r = complete_frame(FrameType::Ack(Ecn::None), raw.clone())(bytes);
    match r {
        Ok((remain, Frame::Ack(f))) => {
            assert!(expect_ok, "an ACK frame reaching below packet number 0 must be rejected");
            assert!(remain.is_empty() && f.is_well_formed());
            core::mem::forget(f);
        }
        Ok(_) => panic!("ACK arm returned another frame kind"),
        Err(e) => {
            assert!(!expect_ok, "a well-formed ACK frame must be accepted");
            assert!(matches!(e, nom::Err::Error(_)), "rejected with an ordinary parse error (-> FRAME_ENCODING_ERROR)");
            core::mem::forget(e);
        }
    }
    core::mem::forget(raw);
}

#[kani::proof]
#[kani::unwind(16)]
#[kani::stub(core::slice::index::slice_index_fail, stub_slice_index_fail)]
fn c03_complete_frame_ack_gate() {
    // Largest=0, Delay=0, Count=0, First ACK Range=1
    ack_gate_case(&[0x00, 0x00, 0x00, 0x01], false);
    // Largest=5, Delay=0, Count=1, First=0, Gap=4, Range=0
    ack_gate_case(&[0x05, 0x00, 0x01, 0x00, 0x04, 0x00], false);
    // Largest=0, Delay=0, Count=1, First=0, Gap=0, Range=2^62-1
    ack_gate_case(&[0x00, 0x00, 0x01, 0x00, 0x00, 0xff, 0xff, 0xff, 0xff, 0xff, 0xff, 0xff, 0xff], false);
    // boundary: Largest=5, First=1, Gap=2, Range=0 -> 4..=5 and 0..=0
    ack_gate_case(&[0x05, 0x00, 0x01, 0x01, 0x02, 0x00], true);
    kani::cover!(true, "all four witnesses decided");
}
