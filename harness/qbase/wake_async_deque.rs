// C16 — `AsyncDeque<T>` (qbase/src/util/async_deque.rs). Compiled inside qbase::util::async_deque.
// Every ArcAsyncDeque method locks for its whole body, so the inner methods are the atomic steps:
// waiter poll_pop; notifiers push_back / push_front / extend / close.
// VecDeque is the container model (import swap); ghost queue = small array kept by the harness.
use core::task::{Context, Poll};

use super::*;

include!("wake_common.rs");
use vwk::{waker, wakes};

const K: usize = 4;
const G: usize = 4; // == verif_model CAP (feature cap4)

struct Ghost {
    items: [u8; G],
    len: usize,
    closed: bool,
}

impl Ghost {
    fn push_back(&mut self, v: u8) {
        if !self.closed {
            self.items[self.len] = v;
            self.len += 1;
        }
    }
    fn push_front(&mut self, v: u8) {
        if !self.closed {
            let mut j = G - 1;
            while j > 0 {
                self.items[j] = self.items[j - 1];
                j -= 1;
            }
            self.items[0] = v;
            self.len += 1;
        }
    }
    fn pop_front(&mut self) -> Option<u8> {
        if self.len == 0 {
            return None;
        }
        let v = self.items[0];
        let mut j = 0;
        while j + 1 < G {
            self.items[j] = self.items[j + 1];
            j += 1;
        }
        self.len -= 1;
        Some(v)
    }
}

#[kani::proof]
#[kani::unwind(6)]
fn c16_async_deque_schedule() {
    let mut dq: AsyncDeque<u8> = AsyncDeque { queue: Some(VecDeque::with_capacity(4)), waker: None };
    let mut g = Ghost { items: [0; G], len: 0, closed: false };
    let w = waker(0);
    let mut cx = Context::from_waker(&w);
    let mut asleep = false;
    let mut wakes_at_poll = wakes(0);
    let mut got_item = false;
    let mut got_none = false;

    let mut i = 0;
    while i < K {
        let choice: u8 = kani::any();
        kani::assume(choice < 5);
        match choice {
            0 => {
                let r = dq.poll_pop(&mut cx);
                wakes_at_poll = wakes(0);
                match r {
                    Poll::Pending => {
                        assert!(g.len == 0 && !g.closed, "Pending only when empty and open");
                        asleep = true;
                    }
                    Poll::Ready(Some(v)) => {
                        asleep = false;
                        assert!(!g.closed);
                        assert!(g.pop_front() == Some(v), "pops exactly the front element");
                        got_item = true;
                    }
                    Poll::Ready(None) => {
                        asleep = false;
                        assert!(g.closed, "None only after close");
                        got_none = true;
                    }
                }
            }
            1 => {
                kani::assume(g.closed || g.len + 1 <= G);
                let v: u8 = kani::any();
                dq.push_back(v);
                g.push_back(v);
            }
            2 => {
                kani::assume(g.closed || g.len + 1 <= G);
                let v: u8 = kani::any();
                dq.push_front(v);
                g.push_front(v);
            }
            3 => {
                kani::assume(g.closed || g.len + 2 <= G);
                let a: u8 = kani::any();
                let b: u8 = kani::any();
                dq.extend([a, b]);
                g.push_back(a);
                g.push_back(b);
            }
            _ => {
                dq.close();
                g.closed = true;
                g.len = 0;
            }
        }
        assert!(dq.len() == g.len);
        i += 1;
    }
    let woken = wakes(0) != wakes_at_poll;
    kani::cover!(asleep && woken && g.len > 0, "sleeper woken by a push");
    kani::cover!(asleep && woken && g.closed, "sleeper woken by close");
    kani::cover!(asleep && !woken, "still legitimately asleep");
    kani::cover!(got_item && got_none, "popped an item, then observed the close");
    if asleep && !woken {
        assert!(g.len == 0 && !g.closed, "no lost wake-up: element available / closed while the popper sleeps unwoken");
        assert!(dq.poll_pop(&mut cx).is_pending());
    }
    if asleep && woken {
        assert!(dq.poll_pop(&mut cx).is_ready(), "a woken popper finds an element or the close");
    }
    core::mem::forget(dq);
}
