// Kani harnesses compiled inside qbase::frame::ack (overlay, cfg(kani) only).
// C10: AckFrame::iter() on well-formed frames enumerates exactly the set of RFC 9000 §19.3.1.
// C04: AckFrame::iter() on ANY field values (suspected defect: u64 underflow) and the work bound
//      "numbers enumerated <= largest + 1" that every consumer of the iterator relies on.
use super::*;

const M62: u64 = 1u64 << 62;

fn any_varint() -> VarInt {
    let x: u64 = kani::any();
    kani::assume(x < M62);
    VarInt::from_u64(x).unwrap()
}

/// An ACK frame with exactly N (gap, range) pairs, every field an arbitrary varint.
fn any_frame<const N: usize>() -> AckFrame {
    let mut ranges = Vec::new();
    let mut i = 0;
    while i < N {
        ranges.push((any_varint(), any_varint()));
        i += 1;
    }
    AckFrame::new(any_varint(), any_varint(), any_varint(), ranges, None)
}

/// RFC 9000 §19.3.1 well-formedness: no computed packet number is negative.
/// Returns the smallest acknowledged number if well-formed.
fn well_formed(f: &AckFrame) -> Option<u64> {
    let largest = f.largest.into_u64();
    let first = f.first_range.into_u64();
    if first > largest {
        return None;
    }
    let mut smallest = largest - first;
    let mut i = 0;
    while i < f.ranges.len() {
        let gap = f.ranges[i].0.into_u64();
        let len = f.ranges[i].1.into_u64();
        // largest_i = smallest - gap - 2 ; smallest_i = largest_i - len   (all < 2^62: no overflow)
        if gap + 2 > smallest || len > smallest - gap - 2 {
            return None;
        }
        smallest = smallest - gap - 2 - len;
        i += 1;
    }
    Some(smallest)
}

/// C10: exact semantics on well-formed frames with N ranges.
fn iter_semantics<const N: usize>() {
    let f = any_frame::<N>();
    let smallest = well_formed(&f);
    kani::assume(smallest.is_some());
    let largest = f.largest();
    let x: u64 = kani::any(); // symbolic probe packet number

    let mut it = f.iter();
    let mut n = 0usize;
    let mut prev_start = 0u64;
    let mut covered = false;
    let mut total: u64 = 0;
    while let Some(r) = it.next() {
        let (s, e) = (*r.start(), *r.end());
        assert!(s <= e, "every range is non-empty and ordered");
        if n == 0 {
            assert!(e == largest, "first range ends at Largest Acknowledged");
            assert!(s == largest - f.first_range(), "first range has First ACK Range + 1 numbers");
        } else {
            let gap = f.ranges[n - 1].0.into_u64();
            let len = f.ranges[n - 1].1.into_u64();
            // RFC 9000 §19.3.1: largest = previous_smallest - gap - 2 ; smallest = largest - ack_range
            assert!(e == prev_start - gap - 2, "range end == previous smallest - gap - 2");
            assert!(s == e - len, "range start == end - ACK Range Length");
            assert!(e + 1 < prev_start, "ranges strictly descending with at least one unacknowledged number between");
        }
        if s <= x && x <= e {
            assert!(!covered, "a number is enumerated at most once");
            covered = true;
        }
        total += e - s + 1;
        prev_start = s;
        n += 1;
    }
    assert!(n == N + 1, "exactly 1 + ACK Range Count ranges");
    assert!(prev_start == smallest.unwrap());
    // work bound used by C04: the numbers enumerated are distinct and all within 0..=largest
    assert!(total <= largest + 1, "at most largest+1 numbers are enumerated");
    if covered {
        assert!(x <= largest);
    }
    kani::cover!(N == 0 || f.ranges[0].0.into_u64() > 0, "gap > 0");
    kani::cover!(prev_start == 0, "frame reaches packet number 0");
    kani::cover!(covered, "probe acknowledged");
    kani::cover!(N == 0 || (!covered && x < largest && x > prev_start), "probe falls into a gap");
}

#[kani::proof]
#[kani::unwind(5)]
fn c10_ack_iter_semantics_r0() {
    iter_semantics::<0>();
}

#[kani::proof]
#[kani::unwind(5)]
fn c10_ack_iter_semantics_r1() {
    iter_semantics::<1>();
}

#[kani::proof]
#[kani::unwind(5)]
fn c10_ack_iter_semantics_r2() {
    iter_semantics::<2>();
}

/// C04 (pending: suspected genuine defect). Every field value in [0, 2^62): iterating must not
/// overflow and must stay inside 0..=largest. Nothing between the parser (`ack_frame_with_ecn`,
/// which accepts any varints) and the consumers validates First ACK Range / Gap / Range Length.
fn iter_any<const N: usize>(assume_well_formed: bool) {
    let f = any_frame::<N>();
    if assume_well_formed {
        kani::assume(well_formed(&f).is_some());
    }
    let largest = f.largest();
    let mut total: u64 = 0;
    let mut n = 0usize;
    let mut prev_start = largest;
    for r in f.iter() {
        let (s, e) = (*r.start(), *r.end());
        assert!(s <= e && e <= largest, "range inside 0..=largest");
        assert!(n == 0 || e < prev_start, "descending");
        total += e - s + 1;
        prev_start = s;
        n += 1;
    }
    // the work every consumer performs (Vec collect in qconnection/src/space.rs, the nested loop in
    // qcongestion PacketSpace::on_ack_rcvd, the flat_map in RcvdJournal::on_rcvd_ack) is `total`
    assert!(total <= largest + 1, "work bound: numbers enumerated <= largest + 1");
    kani::cover!(n == N + 1, "all ranges enumerated");
    kani::cover!(total > (1u64 << 61), "huge but legitimate cumulative acknowledgement");
}

#[kani::proof]
#[kani::unwind(5)]
fn c04_ack_iter_any_fields_r0() {
    iter_any::<0>(false);
}

#[kani::proof]
#[kani::unwind(5)]
fn c04_ack_iter_any_fields_r1() {
    iter_any::<1>(false);
}

#[kani::proof]
#[kani::unwind(5)]
fn c04_ack_iter_wellformed_r1() {
    iter_any::<1>(true);
}

#[kani::proof]
#[kani::unwind(5)]
fn c04_ack_iter_wellformed_r2() {
    iter_any::<2>(true);
}

/// C04: the parser really lets ill-formed values through (so the pending harness above is reachable
/// from the wire): 4 one-byte varints `largest=0, delay=0, count=0, first_range=1`.
#[kani::proof]
#[kani::unwind(5)]
fn c04_ack_parser_accepts_illformed() {
    let bytes: [u8; 4] = [0x00, 0x00, 0x00, kani::any()];
    kani::assume(bytes[3] >= 1 && bytes[3] < 0x40);
    let (rest, f) = ack_frame_with_ecn(Ecn::None)(&bytes[..]).unwrap();
    assert!(rest.is_empty());
    assert!(f.largest() == 0 && f.first_range() == bytes[3] as u64 && f.ranges().is_empty());
    assert!(well_formed(&f).is_none(), "first_range > largest reaches AckFrame::iter unvalidated");
    kani::cover!(f.first_range() == 1);
}
