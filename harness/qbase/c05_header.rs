// Kani harnesses compiled *inside* qbase::packet::header (overlay injection, cfg(kani) only).
// Property C05, HEADER part: every packet header kind / packet type / first-byte completion /
// packet-number wire length / reset token / socket + endpoint address / preferred address written by
// the real encoder (a) occupies exactly the announced size, (b) has the RFC 9000 §17 / §18.2 byte
// layout (checked with plain index arithmetic on the written bytes: which byte holds what) and
// (c) decodes back, through the real decoder, to the value that was encoded, consuming exactly the
// bytes written (arbitrary bytes may follow).
//
// Shape of every harness: symbolic value -> real `put_*` into a slice of EXACTLY the announced size
// (`&mut [u8]`'s BufMut panics when the encoder writes more) -> slice is full afterwards -> byte
// layout oracle -> real `be_*` -> field-wise equality (connection ids are compared with a symbolic
// probe index, not with `==`, which compiles to a memcmp loop).
use super::{
    io::{WriteHeader, be_header},
    long::{Handshake, Initial, Retry, VersionNegotiation, ZeroRtt},
    *,
};
use crate::{
    cid::MAX_CID_SIZE,
    frame::EncodeSize,
    net::{
        Family, WriteSocketAddr,
        addr::{EndpointAddr, WriteEndpointAddr, be_endpoint_addr},
        be_socket_addr,
    },
    packet::{
        GetPacketNumberLength, KeyPhaseBit, LongSpecificBits, PacketNumber, ShortSpecificBits, SpinBit,
        WritePacketNumber,
        encrypt::{encode_long_first_byte, encode_short_first_byte},
        take_pn_len,
        r#type::{
            io::{WritePacketType, be_packet_type},
            long::Ver1,
        },
    },
    param::preferred_address::{PreferredAddress, WirtePreferredAddress, be_preferred_address},
    token::{ResetToken, WriteResetToken, be_reset_token},
};

/// core's slice-index panic path without the message formatting (still a failed check).
pub(crate) fn stub_slice_index_fail(_s: usize, _e: usize, _l: usize) -> ! {
    panic!("slice index out of range")
}

// ------------------------------------------------------------------------------------------------
// symbolic values and comparison helpers

/// Any connection id of length 0..=20 (the bytes beyond the length are arbitrary too).
fn any_cid() -> ConnectionId {
    let len: u8 = kani::any();
    kani::assume(len as usize <= MAX_CID_SIZE);
    let bytes: [u8; MAX_CID_SIZE] = kani::any();
    ConnectionId { len, bytes }
}

/// Field-wise equality of two connection ids ("for all j" by a symbolic probe index).
fn cid_same(back: &ConnectionId, orig: &ConnectionId) {
    assert!(back.len == orig.len, "cid length survives the round trip");
    let j: usize = kani::any();
    kani::assume(j < MAX_CID_SIZE);
    if j < orig.len as usize {
        assert!(back.bytes[j] == orig.bytes[j], "cid byte j survives the round trip");
    }
}

/// RFC 9000 §17.2: a connection id on the wire is one length byte followed by the bytes.
/// Returns the position after it.
fn wire_cid<const N: usize>(arr: &[u8; N], at: usize, cid: &ConnectionId) -> usize {
    assert!(arr[at] == cid.len, "length byte");
    let j: usize = kani::any();
    kani::assume(j < MAX_CID_SIZE);
    if j < cid.len as usize {
        assert!(arr[at + 1 + j] == cid.bytes[j], "cid byte j at position at+1+j");
    }
    at + 1 + cid.len as usize
}

/// RFC 9000 §17.2 long header prefix: first byte, Version(32), DCIL, DCID, SCIL, SCID.
/// Returns the position after the SCID.
fn wire_long_prefix<const N: usize>(arr: &[u8; N], first: u8, version: u32, dcid: &ConnectionId, scid: &ConnectionId) -> usize {
    assert!(arr[0] == first, "first byte: form | fixed | type bits, low 4 bits zero");
    assert!(
        arr[1] == (version >> 24) as u8 && arr[2] == (version >> 16) as u8 && arr[3] == (version >> 8) as u8 && arr[4] == version as u8,
        "Version, big endian"
    );
    let p = wire_cid(arr, 5, dcid);
    assert!(p == 6 + dcid.len as usize);
    wire_cid(arr, p, scid)
}

fn any_spin() -> SpinBit {
    if kani::any() { SpinBit::One } else { SpinBit::Zero }
}

fn any_pn_len() -> usize {
    let n: usize = kani::any();
    kani::assume(n >= 1 && n <= 4);
    n
}

/// Decode the header that follows the packet type in `arr[..total]` with the real be_header (the
/// type bytes themselves are checked byte-wise by the caller; that the real be_packet_type maps
/// exactly these bytes back to `want`, whatever follows and whatever the protected low bits of the
/// first byte are, is c05_hdr_packet_type_roundtrip). Returns the header and the bytes left after it.
fn decode<const N: usize>(arr: &[u8; N], total: usize, want: Type, dcid_len: usize) -> (Header, usize) {
    let skip = want.encoding_size();
    match be_header(want, dcid_len, &arr[skip..total]) {
        Ok((remain, h)) => (h, remain.len()),
        Err(_) => panic!("written header does not parse"),
    }
}

// ------------------------------------------------------------------------------------------------
// long headers

/// C05 Initial header (token of 0..=4 bytes): size() == bytes written; layout
/// 0xc0 | 00000001 | DCIL DCID | SCIL SCID | TokenLength(1-byte varint) Token; decodes back.
#[kani::proof]
#[kani::stub(core::slice::index::slice_index_fail, stub_slice_index_fail)]
#[kani::unwind(6)]
fn c05_hdr_initial_roundtrip() {
    let dcid = any_cid();
    let scid = any_cid();
    let tb: [u8; 4] = kani::any();
    let tl: usize = kani::any();
    kani::assume(tl <= 4);
    let hdr = LongHeaderBuilder::with_cid(dcid, scid).initial(tb[..tl].to_vec());
    let size = hdr.size();
    assert!(size == 7 + dcid.len as usize + scid.len as usize + 1 + tl, "announced size == RFC layout size");
    assert!(hdr.length_encoding() == 2);
    let want = hdr.get_type();
    assert!(want == Type::Long(LongType::V1(Ver1::INITIAL)));
    let h = hdr;
    let mut arr: [u8; 56] = kani::any(); // arbitrary bytes follow the header
    let extra: usize = kani::any();
    kani::assume(extra <= 2);
    {
        let mut buf: &mut [u8] = &mut arr[..size];
        buf.put_header(&h);
        assert!(buf.is_empty(), "bytes written == LongHeader::size()");
    }
    let p = wire_long_prefix(&arr, 0xc0, 1, &dcid, &scid);
    assert!(arr[p] == tl as u8, "Token Length");
    let j: usize = kani::any();
    if j < tl {
        assert!(arr[p + 1 + j] == tb[j], "token byte j");
    }
    assert!(p + 1 + tl == size);
    let (back, left) = decode(&arr, size + extra, want, kani::any());
    assert!(left == extra, "decoder consumes exactly the header");
    match &back {
        Header::Initial(b) => {
            cid_same(b.dcid(), &dcid);
            cid_same(b.scid(), &scid);
            assert!(b.token().len() == tl);
            if j < tl {
                assert!(b.token()[j] == tb[j], "token survives");
            }
        }
        _ => panic!("decoded as another header kind"),
    }
    kani::cover!(dcid.len == 20 && scid.len == 20 && tl == 4);
    kani::cover!(dcid.len == 0 && scid.len == 0 && tl == 0);
    core::mem::forget(back);
    core::mem::forget(h);
}

/// C05 Initial header, Token Length varint boundary: tokens of 63 and 64 bytes (1- vs 2-byte
/// varint), empty connection ids: size() == bytes written, token length decodes back.
#[kani::proof]
#[kani::stub(core::slice::index::slice_index_fail, stub_slice_index_fail)]
#[kani::unwind(6)]
fn c05_hdr_initial_token_len_boundary() {
    let tl: usize = if kani::any() { 63 } else { 64 };
    let fill: u8 = kani::any();
    let hdr = LongHeaderBuilder::with_cid(ConnectionId::default(), ConnectionId::default()).initial(vec![fill; 64][..tl].to_vec());
    let size = hdr.size();
    assert!(size == 7 + if tl < 64 { 1 } else { 2 } + tl);
    let want = hdr.get_type();
    let mut arr = [0u8; 76];
    {
        let mut buf: &mut [u8] = &mut arr[..size];
        buf.put_header(&hdr);
        assert!(buf.is_empty(), "bytes written == LongHeader::size()");
    }
    if tl == 63 {
        assert!(arr[7] == 63);
    } else {
        assert!(arr[7] == 0x40 && arr[8] == 64, "2-byte varint 0x4040");
    }
    let (back, left) = decode(&arr, size, want, 0);
    assert!(left == 0);
    match &back {
        Header::Initial(b) => {
            assert!(b.token().len() == tl);
            let j: usize = kani::any();
            kani::assume(j < tl);
            assert!(b.token()[j] == fill);
        }
        _ => panic!("decoded as another header kind"),
    }
    kani::cover!(tl == 64);
    kani::cover!(tl == 63);
    core::mem::forget(back);
    core::mem::forget(hdr);
}

/// C05 0-RTT / Handshake header: size() == bytes written; layout 0xd0 / 0xe0 | 00000001 |
/// DCIL DCID | SCIL SCID; decodes back.
fn rt_plain_long<S>(mk: fn(LongHeaderBuilder) -> LongHeader<S>, first: u8, want: Type)
where
    S: EncodeHeader,
    LongHeader<S>: GetType,
    for<'a> &'a mut [u8]: WriteHeader<LongHeader<S>>,
{
    let dcid = any_cid();
    let scid = any_cid();
    let hdr = mk(LongHeaderBuilder::with_cid(dcid, scid));
    let size = hdr.size();
    assert!(hdr.length_encoding() == 2, "2-byte Length field reserved by PacketWriter");
    assert!(size == 7 + dcid.len as usize + scid.len as usize, "announced size == RFC layout size");
    assert!(hdr.get_type() == want);
    let mut arr: [u8; 50] = kani::any();
    let extra: usize = kani::any();
    kani::assume(extra <= 2);
    {
        let mut buf: &mut [u8] = &mut arr[..size];
        buf.put_header(&hdr);
        assert!(buf.is_empty(), "bytes written == LongHeader::size()");
    }
    let p = wire_long_prefix(&arr, first, 1, &dcid, &scid);
    assert!(p == size);
    let (back, left) = decode(&arr, size + extra, want, kani::any());
    assert!(left == extra, "decoder consumes exactly the header");
    let (d, s2, zero_rtt) = match &back {
        Header::ZeroRtt(b) => (*b.dcid(), *b.scid(), true),
        Header::Handshake(b) => (*b.dcid(), *b.scid(), false),
        _ => panic!("decoded as another header kind"),
    };
    assert!(zero_rtt == (first == 0xd0));
    cid_same(&d, &dcid);
    cid_same(&s2, &scid);
    kani::cover!(dcid.len == 20 && scid.len == 20 && extra == 2);
    kani::cover!(dcid.len == 0 && scid.len == 5);
    core::mem::forget(back);
}

#[kani::proof]
#[kani::stub(core::slice::index::slice_index_fail, stub_slice_index_fail)]
#[kani::unwind(6)]
fn c05_hdr_zero_rtt_roundtrip() {
    rt_plain_long(|b| b.zero_rtt(), 0xd0, Type::Long(LongType::V1(Ver1::ZERO_RTT)));
}

#[kani::proof]
#[kani::stub(core::slice::index::slice_index_fail, stub_slice_index_fail)]
#[kani::unwind(6)]
fn c05_hdr_handshake_roundtrip() {
    rt_plain_long(|b| b.handshake(), 0xe0, Type::Long(LongType::V1(Ver1::HANDSHAKE)));
}

/// C05 Retry header (token 0..=4 bytes): layout 0xf0 | 00000001 | DCIL DCID | SCIL SCID | Token |
/// IntegrityTag(128); occupies exactly that many bytes; decodes back (the decoder takes the last 16
/// bytes of the datagram as the tag).
#[kani::proof]
#[kani::stub(core::slice::index::slice_index_fail, stub_slice_index_fail)]
#[kani::unwind(6)]
fn c05_hdr_retry_roundtrip() {
    let dcid = any_cid();
    let scid = any_cid();
    let tb: [u8; 4] = kani::any();
    let tl: usize = kani::any();
    kani::assume(tl <= 4);
    let tag: [u8; 16] = kani::any();
    let hdr = LongHeaderBuilder::with_cid(dcid, scid).retry(tb[..tl].to_vec(), tag);
    let want = hdr.get_type();
    assert!(want == Type::Long(LongType::V1(Ver1::RETRY)));
    let size = 7 + dcid.len as usize + scid.len as usize + tl + 16;
    let h = hdr;
    let mut arr = [0u8; 68];
    {
        let mut buf: &mut [u8] = &mut arr[..size];
        buf.put_header(&h);
        assert!(buf.is_empty(), "bytes written == RFC layout size");
    }
    let p = wire_long_prefix(&arr, 0xf0, 1, &dcid, &scid);
    let j: usize = kani::any();
    if j < tl {
        assert!(arr[p + j] == tb[j], "token byte j");
    }
    let i: usize = kani::any();
    kani::assume(i < 16);
    assert!(arr[p + tl + i] == tag[i], "integrity tag byte i");
    assert!(p + tl + 16 == size);
    let (back, left) = decode(&arr, size, want, kani::any());
    assert!(left == 0);
    match &back {
        Header::Retry(b) => {
            cid_same(b.dcid(), &dcid);
            cid_same(b.scid(), &scid);
            assert!(b.token().len() == tl);
            if j < tl {
                assert!(b.token()[j] == tb[j], "token survives");
            }
            assert!(b.integrity()[i] == tag[i], "tag survives");
        }
        _ => panic!("decoded as another header kind"),
    }
    kani::cover!(dcid.len == 20 && scid.len == 20 && tl == 4);
    kani::cover!(dcid.len == 0 && scid.len == 0 && tl == 0);
    core::mem::forget(back);
    core::mem::forget(h);
}

/// C05 Version Negotiation header (0..=2 versions): layout 0x80 | 00000000 | DCIL DCID | SCIL SCID |
/// Version(32)*; decodes back with the versions in order.
#[kani::proof]
#[kani::stub(core::slice::index::slice_index_fail, stub_slice_index_fail)]
#[kani::unwind(6)]
fn c05_hdr_vn_roundtrip() {
    let dcid = any_cid();
    let scid = any_cid();
    let vs: [u32; 2] = kani::any();
    let nv: usize = kani::any();
    kani::assume(nv <= 2);
    let hdr = LongHeaderBuilder::with_cid(dcid, scid).vn(vs[..nv].to_vec());
    let want = hdr.get_type();
    assert!(want == Type::Long(LongType::VersionNegotiation));
    let size = 7 + dcid.len as usize + scid.len as usize + 4 * nv;
    let h = hdr;
    let mut arr = [0u8; 56];
    {
        let mut buf: &mut [u8] = &mut arr[..size];
        buf.put_header(&h);
        assert!(buf.is_empty(), "bytes written == RFC layout size");
    }
    let p = wire_long_prefix(&arr, 0x80, 0, &dcid, &scid);
    let j: usize = kani::any();
    if j < nv {
        let q = p + 4 * j;
        assert!(
            arr[q] == (vs[j] >> 24) as u8 && arr[q + 1] == (vs[j] >> 16) as u8 && arr[q + 2] == (vs[j] >> 8) as u8 && arr[q + 3] == vs[j] as u8,
            "version j, big endian, at p + 4j"
        );
    }
    assert!(p + 4 * nv == size);
    let (back, left) = decode(&arr, size, want, kani::any());
    assert!(left == 0);
    match &back {
        Header::VN(b) => {
            cid_same(b.dcid(), &dcid);
            cid_same(b.scid(), &scid);
            assert!(b.versions().len() == nv);
            if j < nv {
                assert!(b.versions()[j] == vs[j], "version j survives");
            }
        }
        _ => panic!("decoded as another header kind"),
    }
    kani::cover!(nv == 2 && dcid.len == 20 && scid.len == 20);
    kani::cover!(nv == 0 && dcid.len == 0);
    core::mem::forget(back);
    core::mem::forget(h);
}

// ------------------------------------------------------------------------------------------------
// short header

/// C05 1-RTT header: size() == 1 + dcid length == bytes written; layout 0x40 | spin<<5, then the
/// DCID without a length byte; encode_short_first_byte adds key phase (0x04) and pn_len - 1 and leaves
/// reserved bits (0x18) zero; decodes back with the receiver's dcid_len.
#[kani::proof]
#[kani::stub(core::slice::index::slice_index_fail, stub_slice_index_fail)]
#[kani::unwind(6)]
fn c05_hdr_one_rtt_roundtrip() {
    let dcid = any_cid();
    let spin = any_spin();
    let hdr = OneRttHeader::new(spin, dcid);
    let size = hdr.size();
    let dl = dcid.len as usize;
    assert!(size == 1 + dl, "announced size");
    assert!(hdr.length_encoding() == 0, "short header has no Length field");
    let want = hdr.get_type();
    assert!(want == Type::Short(OneRtt(spin)));
    let h = hdr;
    let mut arr: [u8; 24] = kani::any();
    let extra: usize = kani::any();
    kani::assume(extra <= 2);
    {
        let mut buf: &mut [u8] = &mut arr[..size];
        buf.put_header(&h);
        assert!(buf.is_empty(), "bytes written == OneRttHeader::size()");
    }
    let spin_bit = if spin == SpinBit::One { 0x20u8 } else { 0 };
    assert!(arr[0] == 0x40 | spin_bit, "form 0, fixed 1, spin, protected bits zero");
    let j: usize = kani::any();
    if j < dl {
        assert!(arr[1 + j] == dcid.bytes[j], "dcid byte j directly after the first byte");
    }
    // first-byte completion (PacketWriter::encrypt_and_protect_packet)
    let pn_len = any_pn_len();
    let kp = if kani::any() { KeyPhaseBit::One } else { KeyPhaseBit::Zero };
    encode_short_first_byte(&mut arr[0], pn_len, kp);
    let kp_bit = if kp == KeyPhaseBit::One { 0x04u8 } else { 0 };
    assert!(arr[0] == 0x40 | spin_bit | kp_bit | (pn_len as u8 - 1), "RFC 9000 §17.3.1 first byte");
    let bits = ShortSpecificBits::from(arr[0]);
    assert!(bits.key_phase() == kp, "key phase read back");
    match bits.pn_len() {
        Ok(n) => assert!(n as usize == pn_len, "pn_len read back"),
        Err(e) => {
            core::mem::forget(e);
            panic!("reserved bits set by the encoder")
        }
    }
    let (back, left) = decode(&arr, size + extra, want, dl);
    assert!(left == extra, "decoder consumes exactly the header");
    match &back {
        Header::OneRtt(b) => {
            assert!(b.spin() == spin, "spin bit survives");
            cid_same(b.dcid(), &dcid);
        }
        _ => panic!("decoded as another header kind"),
    }
    kani::cover!(dl == 20 && spin == SpinBit::One && kp == KeyPhaseBit::One && pn_len == 4);
    kani::cover!(dl == 0 && spin == SpinBit::Zero && kp == KeyPhaseBit::Zero && pn_len == 1);
}

// ------------------------------------------------------------------------------------------------
// the Header sum type

fn dispatch_case(h: Header, first: u8, size: usize) {
    let mut arr = [0u8; 32];
    {
        let mut buf: &mut [u8] = &mut arr[..size];
        buf.put_header(&h);
        assert!(buf.is_empty(), "the sum-type writer writes the kind's own bytes, all of them");
    }
    assert!(arr[0] == first, "Header::X is written by the writer of kind X");
    core::mem::forget(h);
}

/// C05 `WriteHeader<Header>` (the sum-type writer) dispatches every variant to the writer of its
/// own kind: concrete headers with empty cids / token / version list, first byte and total size.
/// (The per-kind harnesses call the kind's writer directly.)
#[kani::proof]
#[kani::stub(core::slice::index::slice_index_fail, stub_slice_index_fail)]
#[kani::unwind(6)]
fn c05_hdr_enum_dispatch() {
    let d = ConnectionId::default();
    dispatch_case(Header::VN(LongHeaderBuilder::with_cid(d, d).vn(Vec::new())), 0x80, 7);
    dispatch_case(Header::Retry(LongHeaderBuilder::with_cid(d, d).retry(Vec::new(), [0u8; 16])), 0xf0, 23);
    dispatch_case(Header::Initial(LongHeaderBuilder::with_cid(d, d).initial(Vec::new())), 0xc0, 8);
    dispatch_case(Header::ZeroRtt(LongHeaderBuilder::with_cid(d, d).zero_rtt()), 0xd0, 7);
    dispatch_case(Header::Handshake(LongHeaderBuilder::with_cid(d, d).handshake()), 0xe0, 7);
    dispatch_case(Header::OneRtt(OneRttHeader::new(SpinBit::One, d)), 0x60, 1);
    kani::cover!(true, "all six variants written");
}

// ------------------------------------------------------------------------------------------------
// packet type, packet number wire length

/// C05 packet type: every Type (5 long kinds, 1-RTT with either spin) is written in
/// encoding_size() bytes (5 / 1), with the RFC first byte and version, and be_packet_type maps the
/// bytes back to the same Type whatever follows.
#[kani::proof]
#[kani::stub(core::slice::index::slice_index_fail, stub_slice_index_fail)]
#[kani::unwind(6)]
fn c05_hdr_packet_type_roundtrip() {
    let k: u8 = kani::any();
    kani::assume(k < 6);
    let spin = any_spin();
    let (ty, first, version) = match k {
        0 => (Type::Long(LongType::V1(Ver1::INITIAL)), 0xc0u8, 1u32),
        1 => (Type::Long(LongType::V1(Ver1::ZERO_RTT)), 0xd0, 1),
        2 => (Type::Long(LongType::V1(Ver1::HANDSHAKE)), 0xe0, 1),
        3 => (Type::Long(LongType::V1(Ver1::RETRY)), 0xf0, 1),
        4 => (Type::Long(LongType::VersionNegotiation), 0x80, 0),
        _ => (Type::Short(OneRtt(spin)), if spin == SpinBit::One { 0x60 } else { 0x40 }, 0),
    };
    let size = ty.encoding_size();
    assert!(size == if k < 5 { 5 } else { 1 });
    let mut arr: [u8; 8] = kani::any();
    let total: usize = kani::any();
    kani::assume(total >= size && total <= 8);
    {
        let mut buf: &mut [u8] = &mut arr[..size];
        buf.put_packet_type(&ty);
        assert!(buf.is_empty(), "bytes written == Type::encoding_size()");
    }
    assert!(arr[0] == first, "RFC 9000 §17.2 / §17.3 first byte");
    if k < 5 {
        assert!(arr[1] == 0 && arr[2] == 0 && arr[3] == 0 && arr[4] == version as u8, "Version");
    }
    match be_packet_type(&arr[..total]) {
        Ok((rest, back)) => {
            assert!(back == ty, "type survives");
            assert!(total - rest.len() == size, "only the type's own bytes are consumed");
        }
        Err(e) => {
            core::mem::forget(e);
            panic!("written type does not parse")
        }
    }
    // First-byte completion as PacketWriter::encrypt_and_protect_packet does it for long data packets
    // (Initial / 0-RTT / Handshake): the low 2 bits become pn_len - 1, reserved bits stay 0, the
    // form / fixed / type bits are untouched, and the type still reads back.
    if k < 3 {
        let pn_len = any_pn_len();
        encode_long_first_byte(&mut arr[0], pn_len);
        assert!(arr[0] == first | (pn_len as u8 - 1), "Packet Number Length bits = pn_len - 1, reserved bits 0");
        match LongSpecificBits::from(arr[0]).pn_len() {
            Ok(n) => assert!(n as usize == pn_len, "pn_len read back from the first byte"),
            Err(e) => {
                core::mem::forget(e);
                panic!("reserved bits set by the encoder")
            }
        }
        match be_packet_type(&arr[..total]) {
            Ok((_, back)) => assert!(back == ty, "first-byte completion does not disturb the type bits"),
            Err(e) => {
                core::mem::forget(e);
                panic!("type no longer parses")
            }
        }
        kani::cover!(pn_len == 4 && k == 2);
    }
    kani::cover!(k == 4);
    kani::cover!(k == 3 && total == 8);
}

/// C05 packet number on the wire (the numeric round trip is C07): put_packet_number writes exactly
/// PacketNumber::size() bytes, they are the low size() bytes of the value in big-endian order,
/// SpecificBits::from_pn / with_pn_len encode size() - 1, and take_pn_len(size()) reads exactly those
/// bytes back into the same variant.
#[kani::proof]
#[kani::stub(core::slice::index::slice_index_fail, stub_slice_index_fail)]
#[kani::unwind(6)]
fn c05_hdr_pn_wire_length() {
    let which: u8 = kani::any();
    kani::assume(which < 4);
    let raw: u32 = kani::any();
    let (pn, n) = match which {
        0 => (PacketNumber::U8(raw as u8), 1usize),
        1 => (PacketNumber::U16(raw as u16), 2),
        2 => (PacketNumber::U24(raw), 3), // in-memory value may carry 32 bits (C07 note): only 24 go out
        _ => (PacketNumber::U32(raw), 4),
    };
    assert!(pn.size() == n);
    let mut arr: [u8; 6] = kani::any();
    {
        let mut buf: &mut [u8] = &mut arr[..n];
        buf.put_packet_number(pn);
        assert!(buf.is_empty(), "bytes written == PacketNumber::size()");
    }
    // big-endian low n bytes
    let j: usize = kani::any();
    kani::assume(j < n);
    assert!(arr[j] == (raw >> (8 * (n - 1 - j))) as u8, "byte j == bits of the value, network order");
    assert!(*LongSpecificBits::from_pn(&pn) == n as u8 - 1 && *LongSpecificBits::with_pn_len(n) == n as u8 - 1);
    assert!(*ShortSpecificBits::from_pn(&pn) == n as u8 - 1);
    let total: usize = kani::any();
    kani::assume(total >= n && total <= 6);
    match take_pn_len(n as u8)(&arr[..total]) {
        Ok((rest, back)) => {
            assert!(total - rest.len() == n, "decoder consumes exactly size() bytes");
            assert!(back.size() == n, "same width");
            let masked = if n == 4 { raw } else { raw & ((1u32 << (8 * n)) - 1) };
            let same = match back {
                PacketNumber::U8(x) => x as u32 == masked,
                PacketNumber::U16(x) => x as u32 == masked,
                PacketNumber::U24(x) => x == masked,
                PacketNumber::U32(x) => x == masked,
            };
            assert!(same, "wire-visible value survives");
        }
        Err(_) => panic!("written packet number does not parse"),
    }
    kani::cover!(n == 3 && raw > 0x00ff_ffff);
    kani::cover!(n == 4 && total == 6);
}

// ------------------------------------------------------------------------------------------------
// reset token, addresses, preferred address

/// C05 stateless reset token: 16 bytes, identity layout, decodes back.
#[kani::proof]
#[kani::stub(core::slice::index::slice_index_fail, stub_slice_index_fail)]
#[kani::unwind(6)]
fn c05_hdr_reset_token_roundtrip() {
    let raw: [u8; 16] = kani::any();
    let tok = ResetToken::new(&raw);
    let size = tok.encoding_size();
    assert!(size == 16);
    let mut arr: [u8; 18] = kani::any();
    let total: usize = kani::any();
    kani::assume(total >= size && total <= 18);
    {
        let mut buf: &mut [u8] = &mut arr[..size];
        buf.put_reset_token(&tok);
        assert!(buf.is_empty(), "bytes written == encoding_size()");
    }
    let j: usize = kani::any();
    kani::assume(j < 16);
    assert!(arr[j] == raw[j], "token byte j at position j");
    match be_reset_token(&arr[..total]) {
        Ok((rest, back)) => {
            assert!(rest.len() == total - 16);
            assert!(back[j] == raw[j], "token survives");
        }
        Err(_) => panic!("written token does not parse"),
    }
    kani::cover!(total == 18);
}

fn any_socket_addr(v6: bool) -> std::net::SocketAddr {
    let port: u16 = kani::any();
    if v6 {
        let ip: [u8; 16] = kani::any();
        std::net::SocketAddr::new(std::net::IpAddr::V6(std::net::Ipv6Addr::from(ip)), port)
    } else {
        let ip: [u8; 4] = kani::any();
        std::net::SocketAddr::new(std::net::IpAddr::V4(std::net::Ipv4Addr::from(ip)), port)
    }
}

/// Port(16) then the address octets, at `at`.
fn wire_addr<const N: usize>(arr: &[u8; N], at: usize, a: &std::net::SocketAddr) {
    assert!(arr[at] == (a.port() >> 8) as u8 && arr[at + 1] == a.port() as u8, "port, big endian, first");
    match a.ip() {
        std::net::IpAddr::V4(ip) => {
            let o = ip.octets();
            assert!(arr[at + 2] == o[0] && arr[at + 3] == o[1] && arr[at + 4] == o[2] && arr[at + 5] == o[3]);
        }
        std::net::IpAddr::V6(ip) => {
            let o = ip.octets();
            let j: usize = kani::any();
            kani::assume(j < 16);
            assert!(arr[at + 2 + j] == o[j], "IPv6 octet j");
        }
    }
}

fn addr_same(back: &std::net::SocketAddr, orig: &std::net::SocketAddr) {
    assert!(back.port() == orig.port(), "port survives");
    match (back.ip(), orig.ip()) {
        (std::net::IpAddr::V4(a), std::net::IpAddr::V4(b)) => assert!(u32::from(a) == u32::from(b), "IPv4 survives"),
        (std::net::IpAddr::V6(a), std::net::IpAddr::V6(b)) => assert!(u128::from(a) == u128::from(b), "IPv6 survives"),
        _ => panic!("address family changed"),
    }
}

/// C05 socket address: encoding_size() == bytes written (6 / 18, <= max_encoding_size()), layout
/// port(16) then the IP, decodes back (both families).
#[kani::proof]
#[kani::stub(core::slice::index::slice_index_fail, stub_slice_index_fail)]
#[kani::unwind(18)]
fn c05_hdr_socket_addr_roundtrip() {
    let v6: bool = kani::any();
    let family = if v6 { Family::V6 } else { Family::V4 };
    let one = if v6 { 18usize } else { 6 };
    let a = any_socket_addr(v6);
    assert!(a.encoding_size() == one && a.encoding_size() <= a.max_encoding_size());
    let mut arr: [u8; 20] = kani::any();
    let extra: usize = kani::any();
    kani::assume(extra <= 2);
    {
        let mut buf: &mut [u8] = &mut arr[..one];
        buf.put_socket_addr(&a);
        assert!(buf.is_empty(), "bytes written == SocketAddr::encoding_size()");
    }
    wire_addr(&arr, 0, &a);
    match be_socket_addr(&arr[..one + extra], family) {
        Ok((rest, back)) => {
            assert!(rest.len() == extra, "decoder consumes exactly the bytes written");
            addr_same(&back, &a);
        }
        Err(_) => panic!("written socket address does not parse"),
    }
    kani::cover!(v6 && extra == 2);
    kani::cover!(!v6 && extra == 0);
}

/// C05 endpoint address (direct / relayed form, both addresses of one family): encoding_size() ==
/// bytes written (one or two socket addresses), agent first then outer, decodes back with the
/// relay flag.
fn rt_endpoint_addr(v6: bool) {
    let family = if v6 { Family::V6 } else { Family::V4 };
    let one = if v6 { 18usize } else { 6 };
    let a = any_socket_addr(v6);
    let b = any_socket_addr(v6);
    let relayed: bool = kani::any();
    let ep = if relayed { EndpointAddr::with_agent(a, b) } else { EndpointAddr::direct(a) };
    let size = ep.encoding_size();
    assert!(size == if relayed { 2 * one } else { one });
    let mut arr: [u8; 38] = kani::any();
    let extra: usize = kani::any();
    kani::assume(extra <= 2);
    {
        let mut buf: &mut [u8] = &mut arr[..size];
        buf.put_endpoint_addr(ep);
        assert!(buf.is_empty(), "bytes written == EndpointAddr::encoding_size()");
    }
    wire_addr(&arr, 0, &a);
    if relayed {
        wire_addr(&arr, one, &b);
    }
    match be_endpoint_addr(&arr[..size + extra], relayed as u8, family) {
        Ok((rest, back)) => {
            assert!(rest.len() == extra, "decoder consumes exactly the bytes written");
            match back {
                EndpointAddr::Direct { addr } => {
                    assert!(!relayed);
                    addr_same(&addr, &a);
                }
                EndpointAddr::Agent { agent, outer } => {
                    assert!(relayed);
                    addr_same(&agent, &a);
                    addr_same(&outer, &b);
                }
            }
        }
        Err(_) => panic!("written endpoint address does not parse"),
    }
    kani::cover!(relayed && extra == 2);
    kani::cover!(!relayed);
}

#[kani::proof]
#[kani::stub(core::slice::index::slice_index_fail, stub_slice_index_fail)]
#[kani::unwind(6)]
fn c05_hdr_endpoint_addr_v4_roundtrip() {
    rt_endpoint_addr(false);
}

#[kani::proof]
#[kani::stub(core::slice::index::slice_index_fail, stub_slice_index_fail)]
#[kani::unwind(18)]
fn c05_hdr_endpoint_addr_v6_roundtrip() {
    rt_endpoint_addr(true);
}

/// C05 preferred_address transport parameter value (RFC 9000 §18.2 figure 22):
/// IPv4(32) port(16) IPv6(128) port(16) CIDLength(8) CID StatelessResetToken(128);
/// encoding_size() == 41 + cid length == bytes written; decodes back.
#[kani::proof]
#[kani::stub(core::slice::index::slice_index_fail, stub_slice_index_fail)]
#[kani::unwind(6)]
fn c05_hdr_preferred_address_roundtrip() {
    let ip4: [u8; 4] = kani::any();
    let port4: u16 = kani::any();
    let ip6: [u8; 16] = kani::any();
    let port6: u16 = kani::any();
    let cid = any_cid();
    let raw_tok: [u8; 16] = kani::any();
    let pa = PreferredAddress::new(
        std::net::SocketAddrV4::new(ip4.into(), port4),
        std::net::SocketAddrV6::new(ip6.into(), port6, 0, 0),
        cid,
        ResetToken::new(&raw_tok),
    );
    let size = pa.encoding_size();
    let cl = cid.len as usize;
    assert!(size == 6 + 18 + 1 + cl + 16, "announced size == RFC layout size");
    let mut arr: [u8; 63] = kani::any();
    let extra: usize = kani::any();
    kani::assume(extra <= 2);
    {
        let mut buf: &mut [u8] = &mut arr[..size];
        buf.put_preferred_address(&pa);
        assert!(buf.is_empty(), "bytes written == encoding_size()");
    }
    assert!(arr[0] == ip4[0] && arr[1] == ip4[1] && arr[2] == ip4[2] && arr[3] == ip4[3], "IPv4 address first");
    assert!(arr[4] == (port4 >> 8) as u8 && arr[5] == port4 as u8, "IPv4 port");
    let j: usize = kani::any();
    kani::assume(j < 16);
    assert!(arr[6 + j] == ip6[j], "IPv6 address");
    assert!(arr[22] == (port6 >> 8) as u8 && arr[23] == port6 as u8, "IPv6 port");
    let p = wire_cid(&arr, 24, &cid);
    assert!(arr[p + j] == raw_tok[j], "reset token after the cid");
    assert!(p + 16 == size);
    match be_preferred_address(&arr[..size + extra]) {
        Ok((rest, back)) => {
            assert!(rest.len() == extra, "decoder consumes exactly the bytes written");
            let o4 = back.address_v4().ip().octets();
            assert!(o4[0] == ip4[0] && o4[1] == ip4[1] && o4[2] == ip4[2] && o4[3] == ip4[3]);
            assert!(back.address_v4().port() == port4);
            assert!(back.address_v6().ip().octets()[j] == ip6[j]);
            assert!(back.address_v6().port() == port6);
            cid_same(&back.connection_id(), &cid);
            assert!(back.stateless_reset_token()[j] == raw_tok[j]);
        }
        Err(_) => panic!("written preferred address does not parse"),
    }
    kani::cover!(cl == 20 && extra == 2);
    kani::cover!(cl == 0);
}
