// Kani harnesses compiled inside qbase::time (overlay, cfg(kani) only).
// Property C17, idle timeout "not before": one `IdleTimer::health()` call from an ARBITRARY timer
// state (last effective communication / idle start: none or any instant in the past hour;
// heartbeat count; max_idle_timeout / defer_idle_timeout / heartbeat interval arbitrary) with a
// symbolic clock (`tokio::time::Instant::now` stubbed by the harness-owned virtual clock):
//   Err(TimeOut)  =>  max_idle_timeout != 0  and  MORE than max_idle_timeout has elapsed since the
//                     idle period began (idle_begin_at), and that idle period had begun before this call;
//   and conversely, once the idle period has lasted longer than a non-zero max_idle_timeout and no
//   heartbeat is due, the verdict IS TimeOut ("closed after the idle timeout").
// Plus: effective traffic (on_sent / on_rcvd of an EffectivePayload packet) ends the idle period;
// the negotiated timeout is the smaller non-zero advertised value.
use super::*;

static mut CLOCK: Option<Instant> = None;

/// Stub for `tokio::time::Instant::now`.
fn sym_now() -> Instant {
    unsafe { CLOCK.unwrap() }
}

fn stub_mutex_lock<T: ?Sized>(m: &std::sync::Mutex<T>) -> std::sync::LockResult<std::sync::MutexGuard<'_, T>> {
    match m.try_lock() {
        Ok(g) => Ok(g),
        Err(std::sync::TryLockError::Poisoned(p)) => Err(p),
        Err(std::sync::TryLockError::WouldBlock) => panic!("self-deadlock: mutex already held"),
    }
}

fn any_dur(max_s: u64) -> Duration {
    let secs: u64 = kani::any();
    let nanos: u32 = kani::any();
    kani::assume(secs <= max_s && nanos < 1_000_000_000);
    Duration::new(secs, nanos)
}

/// Start the virtual clock at an arbitrary instant at least two hours after the zero instant.
fn start_clock() -> Instant {
    let zero: std::time::Instant = unsafe { core::mem::zeroed() };
    let up = any_dur(1 << 40);
    kani::assume(up.as_secs() >= 7_200);
    let t = Instant::from_std(zero) + up;
    unsafe { CLOCK = Some(t) };
    t
}

fn any_past(now: Instant) -> Option<Instant> {
    if kani::any() { Some(now - any_dur(3_600)) } else { None }
}

fn any_config() -> IdleConfig {
    IdleConfig {
        max_idle_timeout: any_dur(1 << 32),
        defer_idle_timeout: any_dur(1 << 32),
        heartbeat_interval: any_dur(1 << 20),
    }
}

#[kani::proof]
#[kani::unwind(4)]
#[kani::stub(tokio::time::Instant::now, sym_now)]
fn c17_idle_health_not_before() {
    let now = start_clock();
    let cfg = any_config();
    let max_idle = cfg.max_idle_timeout;
    let defer = cfg.defer_idle_timeout;
    let hb = cfg.heartbeat_interval;
    let config = ArcIdleConfig(Arc::new(RwLock::new(cfg)));
    let last = any_past(now);
    let idle_begin = any_past(now);
    // (the heartbeat counter only scales the heartbeat interval; Duration * u32 with both symbolic
    // is a 96-bit multiply + division by 10^9: kept to small counts)
    let heartbeat_times: u32 = kani::any();
    kani::assume(heartbeat_times < 4);
    let mut timer = IdleTimer { idle_config: config, heartbeat_times, last_effective_comm: last, idle_begin_at: idle_begin };

    let verdict = timer.health();

    let since_last = last.map(|t| now - t);
    let idle_for = idle_begin.map(|t| now - t);
    match verdict {
        Err(TimeOut) => {
            assert!(max_idle != Duration::ZERO, "idle timeout disabled (0): never times out");
            assert!(idle_begin.is_some(), "the idle period had begun before this check");
            assert!(idle_for.unwrap() > max_idle, "not before: MORE than max_idle_timeout has elapsed since the idle period began");
            assert!(timer.idle_begin_at == idle_begin);
        }
        Ok(ping) => {
            let starts_idle = since_last.is_some_and(|e| e > defer) && idle_begin.is_none();
            let hb_due = since_last.is_some_and(|e| e <= defer && e > hb * (heartbeat_times + 1));
            assert!(ping.is_some() == (starts_idle || hb_due), "a PING is sent exactly when the idle period starts or a heartbeat is due");
            if starts_idle {
                assert!(timer.idle_begin_at == Some(now), "the idle period starts now");
            } else {
                assert!(timer.idle_begin_at == idle_begin);
            }
            assert!(timer.heartbeat_times == heartbeat_times + if hb_due { 1 } else { 0 });
            if !starts_idle && !hb_due {
                assert!(!(max_idle != Duration::ZERO && idle_for.is_some_and(|d| d > max_idle)), "after: an idle period longer than max_idle_timeout is reported as TimeOut");
            }
        }
    }
    assert!(timer.last_effective_comm == last);
    kani::cover!(verdict.is_err(), "timed out");
    kani::cover!(verdict.is_ok() && idle_for.is_some_and(|d| d == max_idle) && max_idle != Duration::ZERO, "exactly at the limit: not yet");
    kani::cover!(matches!(verdict, Ok(Some(_))) && idle_begin.is_none(), "last heartbeat, idle period starts");
    core::mem::forget(timer);
}

#[kani::proof]
#[kani::unwind(4)]
#[kani::stub(tokio::time::Instant::now, sym_now)]
fn c17_idle_traffic_resets() {
    let now = start_clock();
    let config = ArcIdleConfig(Arc::new(RwLock::new(any_config())));
    let last = any_past(now);
    let idle_begin = any_past(now);
    let mut timer = IdleTimer { idle_config: config, heartbeat_times: kani::any(), last_effective_comm: last, idle_begin_at: idle_begin };
    let effective: bool = kani::any();
    let content = if effective { PacketContent::EffectivePayload } else if kani::any() { PacketContent::JustPing } else { PacketContent::NonAckEliciting };
    if kani::any() {
        timer.on_sent(content);
        if effective {
            assert!(timer.idle_begin_at.is_none() && timer.last_effective_comm == Some(now) && timer.heartbeat_times == 0, "effective traffic ends the idle period");
        } else {
            assert!(timer.idle_begin_at == idle_begin && timer.last_effective_comm == last, "sending non-effective packets does not defer the idle timeout");
        }
    } else {
        timer.on_rcvd(content);
        if effective {
            assert!(timer.idle_begin_at.is_none() && timer.last_effective_comm == Some(now) && timer.heartbeat_times == 0, "effective traffic ends the idle period");
        } else {
            assert!(timer.last_effective_comm == last);
            assert!(timer.idle_begin_at == idle_begin.map(|_| now), "any packet from the peer restarts a running idle period, never starts or ends one");
        }
    }
    kani::cover!(effective && idle_begin.is_some(), "idle period ended by traffic");
    core::mem::forget(timer);
}

#[kani::proof]
#[kani::unwind(4)]
fn c17_idle_negotiate() {
    let mut cfg = any_config();
    let local = cfg.max_idle_timeout;
    let remote = any_dur(1 << 32);
    cfg.negotiate_max_idle_timeout(remote);
    let z = Duration::ZERO;
    let expect = if remote == z { local } else if local == z { remote } else if local < remote { local } else { remote };
    assert!(cfg.max_idle_timeout == expect, "effective idle timeout == the smaller non-zero advertised value (0 = disabled)");
    let hb = cfg.heartbeat_interval;
    assert!(hb >= Duration::from_secs(1) && hb <= Duration::from_secs(30));
    if expect != z {
        assert!(hb == Duration::from_secs(1) || hb == Duration::from_secs(30) || hb == expect / 2, "heartbeat at half the idle timeout, clamped to [1 s, 30 s]");
    }
    kani::cover!(expect == remote && local != z && remote != z, "peer's smaller value wins");
    kani::cover!(expect == z, "disabled on both sides");
}
