// Kani harness compiled *inside* qbase::frame::new_connection_id (overlay injection, cfg(kani) only), because
// the frame's fields are private to that module and its public constructor cannot produce every
// value (the constructor draws a random reset token). Property C05: see frames_c05.rs for the harness shape and the helpers
// (`encode_exact`, `skip_type`, `done`, the verified `model_be_varint`).
use super::*;
#[allow(unused_imports)]
use crate::frame::{
    FrameType, GetFrameType,
    verif_frames_c05::{
        any_cid, any_nat_type, any_socket_addr, any_varint, cid_eq, done, encode_exact, model_be_varint, skip_type,
        stub_slice_index_fail,
    },
};

fn body() {
    let sequence = any_varint();
    let retire_prior_to = any_varint();
    // RFC 9000 §19.15: retire_prior_to <= sequence and a non-empty cid, anything else is rejected
    // by the decoder (asserted in C03) and never built by the constructor's callers.
    kani::assume(retire_prior_to <= sequence);
    let token: [u8; RESET_TOKEN_SIZE] = kani::any();
    let f = NewConnectionIdFrame { sequence, retire_prior_to, id: any_cid(1), reset_token: ResetToken::new(&token) };
    let mut arr = [0u8; 54];
    let n = encode_exact(&f, &mut arr);
    let rest = skip_type(&arr[..n], f.frame_type());
    let back = done(be_new_connection_id_frame(rest));
    assert!(back.sequence == sequence, "sequence survives");
    assert!(back.retire_prior_to == retire_prior_to, "retire_prior_to survives");
    assert!(cid_eq(&back.id, &f.id), "connection id survives");
    let k: usize = kani::any();
    kani::assume(k < RESET_TOKEN_SIZE);
    assert!(back.reset_token[k] == token[k], "reset token survives");
    kani::cover!(n == 54, "maximum size: 8-byte varints, 20-byte cid");
    kani::cover!(f.id.len == 1 && n == 1 + 1 + 1 + 1 + 1 + 16, "minimum size");
    kani::cover!(sequence.into_u64() > (1 << 40) && retire_prior_to == sequence);
}

/// C05 NEW_CONNECTION_ID, any sequence >= retire_prior_to, cid length 1..=20, any token (quick tier: be_varint replaced by its verified model).
#[kani::proof]
#[kani::stub(core::slice::index::slice_index_fail, stub_slice_index_fail)]
#[kani::unwind(22)]
#[kani::stub(crate::varint::be_varint, model_be_varint)]
fn c05_new_connection_id_roundtrip() {
    body()
}

/// C05 NEW_CONNECTION_ID, any sequence >= retire_prior_to, cid length 1..=20, any token (thorough tier: the real nom be_varint).
#[kani::proof]
#[kani::stub(core::slice::index::slice_index_fail, stub_slice_index_fail)]
#[kani::unwind(22)]
fn c05_new_connection_id_roundtrip_real() {
    body()
}
