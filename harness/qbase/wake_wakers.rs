// C16 — `WakerVec` / `Wakers` (qbase/src/util/wakers.rs). Compiled inside qbase::util::wakers.
// Multi-waiter registry: register(waker) (deduplicated by will_wake) / wake_all / Drop wakes all.
use core::task::{Context, Poll};

use super::*;

include!("wake_common.rs");
use vwk::{waker, wakes};

const K: usize = 3;

/// Two tasks; a symbolic subset registers (task 0 possibly twice: deduplicated), then wake_all:
/// exactly the registered tasks are woken, once each; a second wake_all wakes nobody; tasks
/// registered afterwards are woken by Drop.
#[kani::proof]
#[kani::unwind(6)]
fn c16_wakervec_schedule() {
    let mut wv: WakerVec<2> = WakerVec::new();
    let w = [waker(0), waker(1)];
    let r0: bool = kani::any();
    let r0_twice: bool = kani::any();
    let r1: bool = kani::any();
    if r0 {
        wv.register(&w[0]);
    }
    if r1 {
        wv.register(&w[1]);
    }
    if r0 && r0_twice {
        wv.register(&w[0]);
    }
    let before = [wakes(0), wakes(1)];
    wv.wake_all();
    assert!(wakes(0) == before[0] + if r0 { 1 } else { 0 }, "wake_all wakes a registered task exactly once");
    assert!(wakes(1) == before[1] + if r1 { 1 } else { 0 }, "wake_all wakes a registered task exactly once and nobody else");
    wv.wake_all();
    assert!(wakes(0) == before[0] + if r0 { 1 } else { 0 } && wakes(1) == before[1] + if r1 { 1 } else { 0 }, "registrations are consumed");
    kani::cover!(r0 && r0_twice && r1, "both registered, one twice");
    kani::cover!(!r0 && r1, "only the second task registered");
    // closing (dropping) the registry wakes every sleeper
    let late: bool = kani::any();
    if late {
        wv.register(&w[1]);
    }
    let before = [wakes(0), wakes(1)];
    drop(wv);
    assert!(wakes(0) == before[0]);
    assert!(wakes(1) == before[1] + if late { 1 } else { 0 }, "drop wakes a registered task");
}

/// `Wakers::combine_with`: each polling task is registered, the inner poll sees the combined
/// waker; invoking the combined waker (by value or by ref) wakes every registered task.
#[kani::proof]
#[kani::unwind(8)]
fn c16_wakers_combine() {
    let wakers: Arc<Wakers<4>> = Arc::new(Wakers::new());
    let w = [waker(0), waker(1)];
    let n: usize = kani::any();
    kani::assume(n >= 1 && n <= 2);
    let mut stored: Option<core::task::Waker> = None;
    let mut t = 0;
    while t < 2 {
        if t < n {
            let mut cx = Context::from_waker(&w[t]);
            let r: Poll<()> = wakers.combine_with(&mut cx, |cx2| {
                stored = Some(cx2.waker().clone());
                Poll::Pending
            });
            assert!(r.is_pending());
        }
        t += 1;
    }
    let before = [wakes(0), wakes(1)];
    let by_ref: bool = kani::any();
    let combined = stored.unwrap();
    if by_ref {
        combined.wake_by_ref();
        core::mem::forget(combined);
    } else {
        combined.wake();
    }
    assert!(wakes(0) == before[0] + 1, "first task woken through the combined waker");
    assert!(wakes(1) == before[1] + if n == 2 { 1 } else { 0 }, "second task woken iff it polled");
    kani::cover!(n == 2 && by_ref, "two tasks, wake_by_ref");
    kani::cover!(n == 2 && !by_ref, "two tasks, wake");
    // a second invocation wakes nobody (registrations are consumed)
    wakers.wake_all();
    assert!(wakes(0) == before[0] + 1 && wakes(1) == before[1] + if n == 2 { 1 } else { 0 });
    core::mem::forget(wakers);
}

/// Smallest instance (feasibility probe): one registration, one wake_all.
#[kani::proof]
#[kani::unwind(4)]
fn c16_wakervec_min() {
    let mut wv: WakerVec<1> = WakerVec::new();
    let w0 = waker(0);
    let r0: bool = kani::any();
    if r0 {
        wv.register(&w0);
    }
    let before = wakes(0);
    wv.wake_all();
    assert!(wakes(0) == before + if r0 { 1 } else { 0 });
    kani::cover!(r0, "registered");
    core::mem::forget(wv);
}
