// C16 — `WakerVec` / `Wakers` (qbase/src/util/wakers.rs). Compiled inside qbase::util::wakers.
// Multi-waiter registry: register(waker) (deduplicated by will_wake) / wake_all / Drop wakes all.
use core::task::{Context, Poll};

use super::*;

include!("wake_common.rs");
use vwk::{waker, wakes};

/// Stub for `std::sync::Mutex::lock`: one CAS (`try_lock`) instead of the futex spin/wait loop.
/// A lock that is already held would be a self-deadlock in the real code: reported, not hidden.
fn stub_mutex_lock<T: ?Sized>(m: &std::sync::Mutex<T>) -> std::sync::LockResult<std::sync::MutexGuard<'_, T>> {
    match m.try_lock() {
        Ok(g) => Ok(g),
        Err(std::sync::TryLockError::Poisoned(p)) => Err(p),
        Err(std::sync::TryLockError::WouldBlock) => panic!("self-deadlock: mutex already held"),
    }
}

/// One task: register (or not), wake_all wakes it exactly once iff registered.
#[kani::proof]
#[kani::unwind(4)]
fn c16_wakervec_one_task() {
    let mut wv: WakerVec<1> = WakerVec::new();
    let w0 = waker(0);
    let r0: bool = kani::any();
    if r0 {
        wv.register(&w0);
    }
    let before = wakes(0);
    wv.wake_all();
    assert!(wakes(0) == before + if r0 { 1 } else { 0 });
    kani::cover!(r0, "registered");
    kani::cover!(!r0, "not registered");
    core::mem::forget(wv);
}

/// A registration is consumed by wake_all (a second wake_all wakes nobody); a re-registration is
/// honoured by the next wake_all. (Concrete call sequence: SmallVec's union representation makes
/// symbolic call patterns with more than one register/wake_all pair run out of memory.)
#[kani::proof]
#[kani::unwind(4)]
fn c16_wakervec_consumed_rearm() {
    let mut wv: WakerVec<1> = WakerVec::new();
    let w0 = waker(0);
    let before = wakes(0);
    wv.register(&w0);
    wv.wake_all();
    assert!(wakes(0) == before + 1);
    wv.wake_all();
    assert!(wakes(0) == before + 1, "registrations are consumed");
    wv.register(&w0);
    wv.wake_all();
    assert!(wakes(0) == before + 2, "re-registration after wake_all is honoured");
    kani::cover!(true, "reached");
    core::mem::forget(wv);
}

/// A task that registers twice (re-poll without having been woken) is woken ONCE (will_wake dedup).
#[kani::proof]
#[kani::unwind(4)]
fn c16_wakervec_dedup() {
    let mut wv: WakerVec<2> = WakerVec::new();
    let w0 = waker(0);
    wv.register(&w0);
    wv.register(&w0);
    let before = wakes(0);
    wv.wake_all();
    assert!(wakes(0) == before + 1, "registered twice, woken once");
    kani::cover!(true, "reached");
    core::mem::forget(wv);
}

/// Two tasks registered: wake_all wakes both, once each.
#[kani::proof]
#[kani::unwind(4)]
fn c16_wakervec_two_tasks() {
    let mut wv: WakerVec<2> = WakerVec::new();
    let w0 = waker(0);
    let w1 = waker(1);
    wv.register(&w0);
    wv.register(&w1);
    let before = [wakes(0), wakes(1)];
    wv.wake_all();
    assert!(wakes(0) == before[0] + 1 && wakes(1) == before[1] + 1, "wake_all wakes every registered task exactly once");
    kani::cover!(true, "reached");
    core::mem::forget(wv);
}

/// Closing (dropping) the registry wakes a registered sleeper.
#[kani::proof]
#[kani::unwind(4)]
fn c16_wakervec_drop_wakes() {
    let mut wv: WakerVec<1> = WakerVec::new();
    let w0 = waker(0);
    let r0: bool = kani::any();
    if r0 {
        wv.register(&w0);
    }
    let before = wakes(0);
    drop(wv);
    assert!(wakes(0) == before + if r0 { 1 } else { 0 }, "drop wakes a registered task");
    kani::cover!(r0, "registered");
}

/// `Wakers::combine_with`: the polling task is registered, the inner poll sees the combined
/// waker; invoking the combined waker (by value or by ref) wakes the registered task, once.
#[kani::proof]
#[kani::unwind(4)]
#[kani::stub(std::sync::Mutex::lock, stub_mutex_lock)]
fn c16_wakers_combine() {
    let wakers: Arc<Wakers<2>> = Arc::new(Wakers::new());
    let w0 = waker(0);
    let mut stored: Option<core::task::Waker> = None;
    let mut cx = Context::from_waker(&w0);
    let r: Poll<()> = wakers.combine_with(&mut cx, |cx2| {
        stored = Some(cx2.waker().clone());
        Poll::Pending
    });
    assert!(r.is_pending());
    let before = wakes(0);
    let by_ref: bool = kani::any();
    let combined = stored.unwrap();
    if by_ref {
        combined.wake_by_ref();
    } else {
        combined.clone().wake();
    }
    core::mem::forget(combined);
    assert!(wakes(0) == before + 1, "task woken through the combined waker");
    kani::cover!(by_ref, "wake_by_ref");
    kani::cover!(!by_ref, "wake");
    // a second invocation wakes nobody (registrations are consumed)
    wakers.wake_all();
    assert!(wakes(0) == before + 1);
    core::mem::forget(wakers);
}
