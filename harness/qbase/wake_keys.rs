// C16/C17 — `KeysState<K>` (ArcKeys / ArcZeroRttKeys / GetRemoteKeys) and the Pending/Invalid part of
// `OneRttKeysState` (qbase/src/packet/keys.rs). Compiled inside qbase::packet::keys.
// KeysState is generic over the key type; the protocol (poll / set / get / invalid) never looks
// inside the keys, so it is instantiated with K = u8 (no rustls objects needed).
use core::{future::Future, pin::Pin, task::{Context, Poll}};

use super::*;

include!("wake_common.rs");
use vwk::{waker, wakes};

const STEPS: usize = 5;

#[kani::proof]
#[kani::unwind(7)]
fn c16_keys_schedule() {
    let mut st: KeysState<u8> = KeysState::Pending(None);
    let w = waker(0);
    let mut cx = Context::from_waker(&w);
    let mut asleep = false;
    let mut wakes_at_poll = wakes(0);
    let mut set_to: Option<u8> = None; // ghost
    let mut invalidated = false; // ghost
    let mut i = 0;
    while i < STEPS {
        let choice: u8 = kani::any();
        kani::assume(choice < 4);
        match choice {
            0 => {
                let r = Pin::new(&mut st).poll(&mut cx);
                wakes_at_poll = wakes(0);
                asleep = r.is_pending();
                match r {
                    Poll::Pending => assert!(set_to.is_none() && !invalidated, "Pending only while keys are neither set nor retired"),
                    Poll::Ready(Some(k)) => assert!(!invalidated && set_to == Some(k), "the keys that were set"),
                    Poll::Ready(None) => assert!(invalidated, "None only after invalidation"),
                }
            }
            1 => {
                // contract of set(): called at most once and never after invalidation
                kani::assume(set_to.is_none() && !invalidated);
                let k: u8 = kani::any();
                st.set(k);
                set_to = Some(k);
            }
            2 => {
                let had = st.invalid();
                if !invalidated {
                    assert!(had == set_to, "invalid() hands back the keys iff they were ready");
                } else {
                    assert!(had.is_none());
                }
                invalidated = true;
            }
            _ => {
                let got = st.get().copied();
                assert!(got == if invalidated { None } else { set_to }, "get(): keys iff ready");
            }
        }
        i += 1;
    }
    let woken = wakes(0) != wakes_at_poll;
    kani::cover!(asleep && woken && set_to.is_some() && !invalidated, "sleeper woken by set");
    kani::cover!(asleep && woken && invalidated && set_to.is_none(), "sleeper woken by invalid");
    kani::cover!(asleep && !woken, "still legitimately asleep");
    if asleep && !woken {
        assert!(set_to.is_none() && !invalidated, "no lost wake-up: keys set / retired while the waiter sleeps unwoken");
        assert!(Pin::new(&mut st).poll(&mut cx).is_pending());
    }
    if invalidated {
        assert!(matches!(Pin::new(&mut st).poll(&mut cx), Poll::Ready(None)), "retired keys: every poll completes with None");
    }
    core::mem::forget(st);
}

/// Through the real Arc<Mutex<..>> wrappers: GetRemoteKeys future of ArcZeroRttKeys-style state.
#[kani::proof]
#[kani::unwind(5)]
fn c16_keys_arc_wrapper() {
    let m: Mutex<KeysState<u8>> = Mutex::new(KeysState::Pending(None));
    let w = waker(0);
    let mut cx = Context::from_waker(&w);
    let mut fut = GetRemoteKeys(&m);
    assert!(Pin::new(&mut fut).poll(&mut cx).is_pending());
    let before = wakes(0);
    let by_set: bool = kani::any();
    let k: u8 = kani::any();
    if by_set {
        m.lock().unwrap().set(k);
    } else {
        m.lock().unwrap().invalid();
    }
    assert!(wakes(0) == before + 1, "set / invalid wakes the registered waiter exactly once");
    let r = Pin::new(&mut fut).poll(&mut cx);
    assert!(r == Poll::Ready(if by_set { Some(k) } else { None }));
    kani::cover!(by_set, "set");
    kani::cover!(!by_set, "invalid");
    core::mem::forget(m);
}

/// 1-RTT keys: the Ready state needs rustls `Secrets` (no public constructor), so only the
/// Pending -> Invalid half is reachable here: poll registers, invalid() wakes, later polls -> None.
#[kani::proof]
#[kani::unwind(5)]
fn c16_one_rtt_keys_invalid() {
    let keys = ArcOneRttKeys::new_pending();
    let w = waker(0);
    let mut cx = Context::from_waker(&w);
    let npolls: u8 = kani::any();
    kani::assume(npolls <= 2);
    let mut j = 0;
    while j < npolls {
        let mut fut = keys.get_remote_keys();
        let r = Pin::new(&mut fut).poll(&mut cx);
        assert!(r.is_pending());
        core::mem::forget(r); // no drop glue over dyn rustls key objects
        j += 1;
    }
    let before = wakes(0);
    let had = keys.invalid();
    assert!(had.is_none());
    core::mem::forget(had);
    assert!(wakes(0) == before + if npolls > 0 { 1 } else { 0 }, "invalid() wakes the registered waiter");
    let mut fut = keys.get_remote_keys();
    let r = Pin::new(&mut fut).poll(&mut cx);
    assert!(matches!(r, Poll::Ready(None)), "after invalidation the waiter completes with None");
    core::mem::forget(r);
    let l = keys.get_local_keys();
    assert!(l.is_none());
    core::mem::forget(l);
    kani::cover!(npolls == 2, "re-polled before invalidation");
    kani::cover!(npolls == 0, "never polled");
    core::mem::forget(keys);
}
