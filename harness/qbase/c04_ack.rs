// Kani harnesses compiled inside qbase::frame::ack (overlay, cfg(kani) only).  Property C04.
//
// AckFrame::iter() is the only interpretation of the ACK Range fields in the code base; its three
// consumers walk every packet number of every yielded range:
//   * qconnection/src/space.rs  Ack{Initial,Handshake,Data}Space::recv_frame:
//       `ack_frame.iter().flat_map(|r| r.rev()).collect::<Vec<_>>()`          (memory AND time)
//   * qrecovery RcvdJournal::on_rcvd_ack: `iter().flat_map(|r| r.clone()).filter(..).collect()` (time)
//   * qcongestion PacketSpace::on_ack_rcvd: `for range in iter() { for pn in range.rev() {..} }` (time)
// so the ghost cost of one ACK frame is `total` = sum over yielded ranges of (end - start + 1),
// computed here by the REAL iterator.
//
// (copied from harness/qbase/ack_iter.rs c04_ack_iter_* and extended; that file belongs to C10)
use super::*;

const M62: u64 = 1u64 << 62;

fn any_varint() -> VarInt {
    let x: u64 = kani::any();
    kani::assume(x < M62);
    VarInt::from_u64(x).unwrap()
}

/// An ACK frame with exactly N (gap, range) pairs, every field an arbitrary varint.
fn any_frame<const N: usize>() -> AckFrame {
    let mut ranges = Vec::new();
    let mut i = 0;
    while i < N {
        ranges.push((any_varint(), any_varint()));
        i += 1;
    }
    AckFrame::new(any_varint(), any_varint(), any_varint(), ranges, None)
}

/// RFC 9000 §19.3.1 well-formedness ("If any computed packet number is negative, an endpoint MUST
/// generate a connection error of type FRAME_ENCODING_ERROR").
/// Returns the smallest acknowledged number if well-formed.
fn well_formed(f: &AckFrame) -> Option<u64> {
    let largest = f.largest.into_u64();
    let first = f.first_range.into_u64();
    if first > largest {
        return None;
    }
    let mut smallest = largest - first;
    let mut i = 0;
    while i < f.ranges.len() {
        let gap = f.ranges[i].0.into_u64();
        let len = f.ranges[i].1.into_u64();
        // largest_i = smallest - gap - 2 ; smallest_i = largest_i - len   (all < 2^62: no overflow)
        if gap + 2 > smallest || len > smallest - gap - 2 {
            return None;
        }
        smallest = smallest - gap - 2 - len;
        i += 1;
    }
    Some(smallest)
}

/// Every field value in [0, 2^62): iterating must not overflow, every range is inside
/// 0..=largest, ranges strictly descend with at least one unacknowledged number between them, the
/// iterator yields exactly 1 + N ranges with the RFC's values and the ghost cost is <= largest + 1.
fn iter_any<const N: usize>(assume_well_formed: bool) {
    let f = any_frame::<N>();
    let wf = well_formed(&f);
    // the REAL gate (applied by frame::io::complete_frame to every ACK frame read from a packet) must
    // coincide with the reference notion of well-formedness ...
    assert!(f.is_well_formed() == wf.is_some(), "AckFrame::is_well_formed <=> no range reaches below packet number 0");
    // ... and is iter's precondition
    if assume_well_formed {
        kani::assume(f.is_well_formed());
    }
    let largest = f.largest();
    let mut total: u64 = 0;
    let mut n = 0usize;
    let mut prev_start = largest;
    for r in f.iter() {
        let (s, e) = (*r.start(), *r.end());
        assert!(s <= e && e <= largest, "range inside 0..=largest");
        // (already reported above if violated; keeps the oracle arithmetic below overflow-free)
        kani::assume(s <= e && e <= largest);
        if n == 0 {
            assert!(e == largest && largest - s == f.first_range(), "first range: largest - First ACK Range ..= largest");
        } else {
            assert!(e < prev_start && prev_start - e >= 2, "strictly descending, disjoint, >= 1 unacknowledged number between");
            kani::assume(e < prev_start && prev_start - e >= 2);
            assert!(prev_start - e - 2 == f.ranges[n - 1].0.into_u64(), "Gap");
            assert!(e - s == f.ranges[n - 1].1.into_u64(), "ACK Range Length");
        }
        total += e - s + 1;
        prev_start = s;
        n += 1;
    }
    assert!(n == N + 1, "exactly 1 + ACK Range Count ranges");
    assert!(total <= largest + 1, "work bound: numbers enumerated <= largest + 1");
    if let Some(smallest) = wf {
        assert!(prev_start == smallest);
    }
    kani::cover!(n == N + 1 && prev_start == 0, "frame reaches packet number 0");
    kani::cover!(total > (1u64 << 61), "huge but legitimate cumulative acknowledgement");
}

// (The harnesses that ran `iter` on frames with ARBITRARY fields exposed genuine defect F-C04-ack-negative-range:
// nothing validated First ACK Range / Gap / Range between the wire and `iter`, which underflowed. The
// repair in /repo gates every received ACK frame; well-formedness is now `iter`'s
// established precondition: the repair in /repo adds `AckFrame::is_well_formed` and applies it in
// `frame::io::complete_frame`. The harnesses below tie the real predicate to the reference notion for ALL
// field values (<= 2 extra ranges) and show that `iter` is safe under it.)

// ---- passing twins: well-formed frames ------------------------------------------------------------
#[kani::proof]
#[kani::unwind(5)]
fn c04_ackiter_wellformed_r0() {
    iter_any::<0>(true);
}

#[kani::proof]
#[kani::unwind(5)]
fn c04_ackiter_wellformed_r1() {
    iter_any::<1>(true);
}

#[kani::proof]
#[kani::unwind(5)]
fn c04_ackiter_wellformed_r2() {
    iter_any::<2>(true);
}

fn parse_all(bytes: &[u8]) -> AckFrame {
    let (rest, f) = ack_frame_with_ecn(Ecn::None)(bytes).unwrap();
    assert!(rest.is_empty());
    f
}

/// Ill-formed ACK frames are caught by the gate `AckFrame::is_well_formed`, which `frame::io::complete_frame`
/// applies to every ACK frame read from a packet (`nom::combinator::verify`; the dispatcher side is
/// C03's c03_complete_frame_ack_gate). The inner parser `ack_frame_with_ecn` itself still accepts them (the
/// repository's unit test `test_read_ack_frame` pins that with an ill-formed frame). On the pinned tree nothing
/// between the wire and `AckFrame::iter` validated these fields (debug: subtract-with-overflow panic;
/// release: one wrapped "range" of up to 2^62 numbers collected into a Vec): genuine defect, fixed in /repo.
#[kani::proof]
#[kani::unwind(10)]
fn c04_ackparse_rejects_illformed() {
    // (a) Largest=0, Delay=0, Count=0, First ACK Range=1
    let f = parse_all(&[0x00, 0x00, 0x00, 0x01]);
    assert!(!f.is_well_formed(), "first_range > largest must be refused by the gate");
    core::mem::forget(f);
    // (b) Largest=5, Delay=0, Count=1, First=0, Gap=4, Range=0   (gap + 2 > smallest = 5)
    let f = parse_all(&[0x05, 0x00, 0x01, 0x00, 0x04, 0x00]);
    assert!(!f.is_well_formed(), "a gap reaching below packet number 0 must be refused by the gate");
    core::mem::forget(f);
    // (c) Largest=0, Delay=0, Count=1, First=0, Gap=0, Range=2^62-1 (the 13-byte payload of the report)
    let bytes: [u8; 13] = [0x00, 0x00, 0x01, 0x00, 0x00, 0xff, 0xff, 0xff, 0xff, 0xff, 0xff, 0xff, 0xff];
    let f = parse_all(&bytes[..]);
    assert!(!f.is_well_formed(), "a range reaching below packet number 0 must be refused by the gate");
    core::mem::forget(f);
    // (d) the boundary: Largest=5, First=1, Gap=2, Range=0 -> ranges 4..=5 and 0..=0: legal
    let f = parse_all(&[0x05, 0x00, 0x01, 0x01, 0x02, 0x00]);
    assert!(f.is_well_formed() && well_formed(&f) == Some(0));
    {
        let mut it = f.iter();
        let a = it.next().unwrap();
        let b = it.next().unwrap();
        assert!(*a.start() == 4 && *a.end() == 5 && *b.start() == 0 && *b.end() == 0 && it.next().is_none());
    }
    core::mem::forget(f);
    kani::cover!(true, "all four witnesses decided");
}

/// A well-formed frame of 18 bytes acknowledging 2^62 packet numbers (Largest = First ACK Range =
/// 2^62-1) is accepted by the parser; its ghost cost is 2^62 (c04_ackiter_wellformed_r0's bound
/// `largest + 1` is tight). It is the input of the pending harness c04_p_rcvd_on_ack_work_bounded.
#[kani::proof]
#[kani::unwind(10)]
fn c04_ackparse_accepts_max_cumulative() {
    let f = parse_all(&[0xff, 0xff, 0xff, 0xff, 0xff, 0xff, 0xff, 0xff, 0x00, 0x00, 0xff, 0xff, 0xff, 0xff, 0xff, 0xff, 0xff, 0xff]);
    assert!(f.largest() == M62 - 1 && f.first_range() == M62 - 1 && f.ranges().is_empty());
    assert!(well_formed(&f) == Some(0));
    let mut it = f.iter();
    let r = it.next().unwrap();
    assert!(*r.start() == 0 && *r.end() == M62 - 1 && it.next().is_none());
    kani::cover!(true, "parsed");
}

