// Kani harnesses compiled inside qbase::sid (overlay injection, cfg(kani) only).
// Property C12: StreamId arithmetic (role / direction / index packing) that every limit and
// direction check is built on, and the two shipped concurrency strategies (sid/handy.rs).
use super::*;
use crate::varint::VARINT_MAX;

fn any_role() -> Role {
    if kani::any() { Role::Client } else { Role::Server }
}
fn any_dir() -> Dir {
    if kani::any() { Dir::Bi } else { Dir::Uni }
}

/// For every role, direction and index <= 2^60-1: `new` packs them as RFC 9000 §2.1 says
/// (bit 0 = initiator, bit 1 = direction, rest = index), the accessors invert it, the value is a
/// legal VarInt, the VarInt conversions are lossless, and `next_unchecked` is "same kind, index+1".
#[kani::proof]
fn c12_stream_id_fields() {
    let role = any_role();
    let dir = any_dir();
    let id: u64 = kani::any();
    kani::assume(id <= MAX_STREAMS_LIMIT);
    let sid = StreamId::new(role, dir, id);
    assert!(sid.role() == role && sid.dir() == dir && sid.id() == id);
    let raw: u64 = sid.into();
    assert!(raw == (id << 2) | ((dir as u64) << 1) | (role as u64));
    assert!(raw <= VARINT_MAX);
    let v: VarInt = sid.into();
    assert!(v.into_u64() == raw);
    assert!(StreamId::from(v) == sid);
    let next = unsafe { sid.next_unchecked() };
    assert!(next.role() == role && next.dir() == dir && next.id() == id + 1);
    assert!(sid < next);
    kani::cover!(id == MAX_STREAMS_LIMIT && role == Role::Server && dir == Dir::Uni, "largest stream id");
}

/// Every 62-bit wire value decodes to a StreamId whose (role, dir, index) re-pack to the same
/// value; within one kind the order of ids is the order of indices (what `sid < cursor` relies on).
#[kani::proof]
fn c12_stream_id_from_wire() {
    let a: u64 = kani::any();
    let b: u64 = kani::any();
    kani::assume(a <= VARINT_MAX && b <= VARINT_MAX);
    let sa = StreamId::from(VarInt::from_u64(a).unwrap());
    let sb = StreamId::from(VarInt::from_u64(b).unwrap());
    assert!(sa.id() <= MAX_STREAMS_LIMIT);
    assert!(StreamId::new(sa.role(), sa.dir(), sa.id()) == sa);
    if sa.role() == sb.role() && sa.dir() == sb.dir() {
        assert!((sa < sb) == (sa.id() < sb.id()));
        assert!((sa == sb) == (sa.id() == sb.id()));
    }
    kani::cover!(sa.role() == sb.role() && sa.dir() == sb.dir() && sa < sb);
    kani::cover!(sa.role() != sb.role());
}

/// ConsistentConcurrency: accepting streams and STREAMS_BLOCKED never change the limit; every
/// ended stream raises the limit of its own direction by exactly one (so the number of streams
/// available to the peer stays constant) and never touches the other direction.
#[kani::proof]
fn c12_handy_consistent_step() {
    let bi: u64 = kani::any();
    let uni: u64 = kani::any();
    kani::assume(bi < VARINT_MAX && uni < VARINT_MAX);
    let mut c = handy::ConsistentConcurrency::new(bi, uni);
    let dir = any_dir();
    let x: u64 = kani::any();
    assert!(c.on_accept_streams(dir, x).is_none());
    assert!(c.on_streams_blocked(dir, x).is_none());
    let r = c.on_end_of_stream(dir, x);
    let old = if dir == Dir::Bi { bi } else { uni };
    assert!(r == Some(old + 1), "limit grows by exactly one per ended stream");
    // the other direction is untouched: its next end-of-stream still starts from its own value
    let other = if dir == Dir::Bi { Dir::Uni } else { Dir::Bi };
    let r2 = c.on_end_of_stream(other, x);
    assert!(r2 == Some(if dir == Dir::Bi { uni } else { bi } + 1));
    kani::cover!(dir == Dir::Uni);
}

/// DemandConcurrency: only STREAMS_BLOCKED changes the limit, to (reported limit + 1).
/// Bound: reported value < 2^62-1 (for 2^62-1 the `+ 1` leaves the VarInt range — see the
/// pending harness c12_remote_blocked_demand_any_pending in sid_remote.rs).
#[kani::proof]
fn c12_handy_demand_step() {
    let mut c = handy::DemandConcurrency;
    let dir = any_dir();
    let x: u64 = kani::any();
    kani::assume(x <= VARINT_MAX);
    assert!(c.on_accept_streams(dir, x).is_none());
    assert!(c.on_end_of_stream(dir, x).is_none());
    assert!(c.on_streams_blocked(dir, x) == Some(x + 1));
    kani::cover!(x == VARINT_MAX, "largest value the STREAMS_BLOCKED parser lets through");
}
