// Helper compiled inside qbase::param (overlay, cfg(kani) only). NO proof fn here.
// Property C11, stream-set level (configuration clause): the DataStreams harnesses in
// qrecovery (c11s_streams.rs) need the shared transport-parameter state `Parameters` in the
// situations the stream-creation paths distinguish:
//   * remote parameters received AND authenticated (state CLIENT_READY|SERVER_READY, remembered
//     parameters dropped — exactly the post-state `recv_remote_params` /
//     `initial_scid_from_peer_need_equal` establish; those two are C18's subject),
//   * client before that, with remembered server parameters (0-RTT),
//   * before that without remembered parameters.
// Reaching the first situation through the public API needs two connection-id parameters in the
// peer's set (authenticate_cids), which does not fit the 4-entry map model together with the
// parameters under test; the state is therefore built directly (fields are private to this module).
use std::sync::Arc;

use super::*;

impl Parameters {
    /// Client side. `server`: Some(p) = the server's parameters were received and authenticated.
    pub fn c11s_client(client: ClientParameters, server: Option<ServerParameters>, remembered: Option<ServerParameters>) -> Self {
        let mut p = Parameters::new_client(client, remembered, ConnectionId::default());
        if let Some(s) = server {
            p.server = Arc::new(s);
            p.state = Self::CLIENT_READY | Self::SERVER_READY;
            // (what recv_remote_params does once the connection ids are authenticated)
            if let Some(r) = p.remembered.take() {
                std::mem::forget(r);
            }
        }
        p
    }

    /// Server side. `client`: Some(p) = the client's parameters were received and authenticated.
    pub fn c11s_server(server: ServerParameters, client: Option<ClientParameters>) -> Self {
        let mut p = Parameters::new_server(server);
        if let Some(c) = client {
            p.client = Arc::new(c);
            p.state = Self::CLIENT_READY | Self::SERVER_READY;
        }
        p
    }

    /// Number of tasks parked on "remote parameters ready".
    pub fn c11s_parked(&self) -> usize {
        self.wakers.len()
    }
}

impl ArcParameters {
    /// Replacement for `ArcParameters::lock_guard` in the qrecovery stream-creation harnesses: the
    /// real one clones the stored connection error on the Err path, which CBMC walks although no
    /// connection error exists there. This version ASSERTS that the parameters are alive.
    pub fn c11s_stub_lock_guard(&self) -> Result<ParametersGuard<'_>, Error> {
        let guard = self.0.lock().unwrap();
        assert!(guard.is_ok(), "no connection error in this harness");
        Ok(ParametersGuard(guard))
    }
}

// Lookup stub for the typed parameter sets (`core::Parameters<Role>::get`), see the comment on the
// lookup stubs in harness/qrecovery/c11s_streams.rs: answers from the values the harness registered
// with `c11s_set_typed` — the SAME values it put into the real set — keyed by the id that is asked for.
// (It lives here because Kani only accepts a stub whose `Role` parameter is impl-level like the
// original's.)
static mut C11S_TYPED: Option<(u64, u64, u64, u64, u64)> = None;

impl ArcParameters {
    /// (bidi_local, bidi_remote, uni, max_streams_bidi, max_streams_uni) of the typed set under test
    pub fn c11s_set_typed(vals: (u64, u64, u64, u64, u64)) {
        unsafe { C11S_TYPED = Some(vals) };
    }
}

impl<Role> self::core::Parameters<Role> {
    pub fn c11s_stub_get<V>(&self, id: ParameterId) -> Option<V>
    where
        V: TryFrom<ParameterValue>,
    {
        let t = match unsafe { C11S_TYPED } {
            Some(t) => t,
            None => panic!("no typed parameter set is looked at in this harness"),
        };
        let x = match id {
            ParameterId::InitialMaxStreamDataBidiLocal => t.0,
            ParameterId::InitialMaxStreamDataBidiRemote => t.1,
            ParameterId::InitialMaxStreamDataUni => t.2,
            ParameterId::InitialMaxStreamsBidi => t.3,
            ParameterId::InitialMaxStreamsUni => t.4,
            _ => panic!("a parameter that is no flow-control / stream-count parameter was requested"),
        };
        ParameterValue::VarInt(crate::varint::VarInt::from_u64(x).unwrap()).try_into().ok()
    }
}

