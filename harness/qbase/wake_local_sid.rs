// C16 — `LocalStreamIds::{poll_alloc_sid, increase_limit / recv_max_streams_frame}`
// (qbase/src/sid/local_sid.rs). Compiled inside qbase::sid::local_sid.
// `wakers: [VecDeque<Waker>; 2]` is the container model (import swap). Two waiting tasks.
use core::task::{Context, Poll};

use super::*;

include!("wake_common.rs");
use vwk::{waker, wakes};

static mut WRITTEN_RAISED: u32 = 0;
/// Stub for `ArcSendWakers::wake_all_by` (the connection-level fan-out over a BTreeMap<Pathway,
/// ArcSendWaker>; the BTreeMap search code is what CBMC cannot get through). Records the call.
fn stub_wake_all_by(_this: &ArcSendWakers, signals: Signals) {
    assert!(signals == Signals::WRITTEN);
    unsafe { WRITTEN_RAISED += 1 };
}

static mut BLOCKED_SENT: u32 = 0;
static mut BLOCKED_LAST: Option<StreamsBlockedFrame> = None;

#[derive(Clone)]
struct BlockedSink;
impl SendFrame<StreamsBlockedFrame> for BlockedSink {
    fn send_frame<I: IntoIterator<Item = StreamsBlockedFrame>>(&self, iter: I) {
        for f in iter {
            unsafe {
                BLOCKED_SENT += 1;
                BLOCKED_LAST = Some(f);
            }
        }
    }
}

const DIRS: [Dir; 2] = [Dir::Bi, Dir::Uni];

struct St {
    ids: LocalStreamIds<BlockedSink>,
    role: Role,
    max: [u64; 2],     // ghost
    unalloc: [u64; 2], // ghost
    asleep_on: [Option<Dir>; 2],
    wakes_at_poll: [u32; 2],
    granted: bool,
}

/// Task T polls for a stream id of direction D (both compile-time constants, so that
/// `self.wakers[dir as usize]` is an access at a concrete index for CBMC).
fn poll_step<const T: usize, const D: usize>(st: &mut St) {
    let dir = DIRS[D];
    if let Some(d) = st.asleep_on[T] {
        // a sleeping task re-polls the same allocation
        kani::assume(d == dir);
    }
    let w = waker(T);
    let mut cx = Context::from_waker(&w);
    let sent_before = unsafe { BLOCKED_SENT };
    let r = st.ids.poll_alloc_sid(&mut cx, dir);
    st.wakes_at_poll[T] = wakes(T);
    match r {
        Poll::Pending => {
            assert!(st.unalloc[D] >= st.max[D], "Pending only when the limit is exhausted");
            st.asleep_on[T] = Some(dir);
            assert!(unsafe { BLOCKED_SENT } == sent_before + 1, "one STREAMS_BLOCKED per blocked poll");
            assert!(unsafe { BLOCKED_LAST } == Some(StreamsBlockedFrame::with(dir, VarInt::from_u64(st.max[D]).unwrap())));
        }
        Poll::Ready(Some(sid)) => {
            assert!(st.unalloc[D] < st.max[D]);
            assert!(sid == StreamId::new(st.role, dir, st.unalloc[D]), "the next unused id of that direction");
            st.unalloc[D] += 1;
            st.asleep_on[T] = None;
            st.granted = true;
            assert!(unsafe { BLOCKED_SENT } == sent_before);
        }
        Poll::Ready(None) => {
            assert!(false, "ids not exhausted within MAX_STREAMS_LIMIT");
        }
    }
}

fn limit_step<const D: usize>(st: &mut St) {
    let dir = DIRS[D];
    let val: u64 = kani::any();
    kani::assume(val <= MAX_STREAMS_LIMIT);
    let raised_before = unsafe { WRITTEN_RAISED };
    if kani::any() {
        st.ids.increase_limit(dir, val);
    } else {
        st.ids.recv_max_streams_frame(MaxStreamsFrame::with(dir, VarInt::from_u64(val).unwrap()));
    }
    // streams opened beyond the (0-RTT rejected) limit become sendable: the sending tasks are told
    let expect_written = val > st.max[D] && st.max[D] < st.unalloc[D];
    assert!(unsafe { WRITTEN_RAISED } == raised_before + if expect_written { 1 } else { 0 });
    if val > st.max[D] {
        st.max[D] = val;
    }
}

fn local_sid_schedule<const K: usize>() {
    let role = if kani::any() { Role::Client } else { Role::Server };
    let mut ids = LocalStreamIds::new(role, 0, 0, BlockedSink, ArcSendWakers::new());
    // arbitrary pre-state (unallocated may exceed max after a 0-RTT rejection)
    let m0: u64 = kani::any();
    let m1: u64 = kani::any();
    let u0: u64 = kani::any();
    let u1: u64 = kani::any();
    kani::assume(m0 <= MAX_STREAMS_LIMIT && m1 <= MAX_STREAMS_LIMIT);
    kani::assume(u0 <= MAX_STREAMS_LIMIT && u1 <= MAX_STREAMS_LIMIT);
    ids.max = [m0, m1];
    ids.unallocated = [u0, u1];
    let mut st = St {
        ids,
        role,
        max: [m0, m1],
        unalloc: [u0, u1],
        asleep_on: [None, None],
        wakes_at_poll: [wakes(0), wakes(1)],
        granted: false,
    };

    let mut i = 0;
    while i < K {
        let choice: u8 = kani::any();
        kani::assume(choice < 6);
        match choice {
            0 => poll_step::<0, 0>(&mut st),
            1 => poll_step::<0, 1>(&mut st),
            2 => poll_step::<1, 0>(&mut st),
            3 => poll_step::<1, 1>(&mut st),
            4 => limit_step::<0>(&mut st),
            _ => limit_step::<1>(&mut st),
        }
        assert!(st.ids.max[0] == st.max[0] && st.ids.max[1] == st.max[1]);
        assert!(st.ids.unallocated[0] == st.unalloc[0] && st.ids.unallocated[1] == st.unalloc[1]);
        i += 1;
    }
    let woken = [wakes(0) != st.wakes_at_poll[0], wakes(1) != st.wakes_at_poll[1]];
    let mut t = 0;
    while t < 2 {
        if let Some(dir) = st.asleep_on[t] {
            let d = dir as usize;
            if !woken[t] {
                assert!(st.unalloc[d] >= st.max[d], "no lost wake-up: a stream id became available while the opener sleeps unwoken");
            }
        }
        t += 1;
    }
    kani::cover!(st.asleep_on[0].is_some() && st.asleep_on[1].is_some() && woken[0] && woken[1], "two sleepers woken");
    kani::cover!(st.asleep_on[0] == Some(Dir::Uni) && !woken[0] && st.max[0] > m0, "limit of the other direction raised: sleeper stays asleep");
    kani::cover!(st.granted && st.asleep_on[1].is_some(), "one id granted, other task blocked");
    core::mem::forget(st);
}

#[kani::proof]
#[kani::unwind(6)]
#[kani::stub(ArcSendWakers::wake_all_by, stub_wake_all_by)]
fn c16_local_sid_schedule_k3() {
    local_sid_schedule::<3>();
}

#[kani::proof]
#[kani::unwind(6)]
#[kani::stub(ArcSendWakers::wake_all_by, stub_wake_all_by)]
fn c16_local_sid_schedule_k4() {
    local_sid_schedule::<4>();
}

#[kani::proof]
#[kani::unwind(6)]
#[kani::stub(ArcSendWakers::wake_all_by, stub_wake_all_by)]
fn c16_local_sid_schedule_k2() {
    local_sid_schedule::<2>();
}
