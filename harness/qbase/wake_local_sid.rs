// C16 — `LocalStreamIds::{poll_alloc_sid, increase_limit / recv_max_streams_frame}`
// (qbase/src/sid/local_sid.rs). Compiled inside qbase::sid::local_sid.
// `wakers: [VecDeque<Waker>; 2]` is the container model (import swap). Two waiting tasks.
use core::task::{Context, Poll};

use super::*;

include!("wake_common.rs");
use vwk::{waker, wakes};

static mut WRITTEN_RAISED: u32 = 0;
/// Stub for `ArcSendWakers::wake_all_by` (the connection-level fan-out over a BTreeMap<Pathway,
/// ArcSendWaker>; the BTreeMap search code is what CBMC cannot get through). Records the call.
fn stub_wake_all_by(_this: &ArcSendWakers, signals: Signals) {
    assert!(signals == Signals::WRITTEN);
    unsafe { WRITTEN_RAISED += 1 };
}

static mut BLOCKED_SENT: u32 = 0;
static mut BLOCKED_LAST: Option<StreamsBlockedFrame> = None;

#[derive(Clone)]
struct BlockedSink;
impl SendFrame<StreamsBlockedFrame> for BlockedSink {
    fn send_frame<I: IntoIterator<Item = StreamsBlockedFrame>>(&self, iter: I) {
        for f in iter {
            unsafe {
                BLOCKED_SENT += 1;
                BLOCKED_LAST = Some(f);
            }
        }
    }
}

const DIRS: [Dir; 2] = [Dir::Bi, Dir::Uni];

struct St {
    ids: LocalStreamIds<BlockedSink>,
    role: Role,
    max: [u64; 2],     // ghost
    unalloc: [u64; 2], // ghost
    asleep_on: [Option<Dir>; 2],
    wakes_at_poll: [u32; 2],
    granted: bool,
}

/// Task T polls for a stream id of direction D (both compile-time constants, so that
/// `self.wakers[dir as usize]` is an access at a concrete index for CBMC).
fn poll_step<const T: usize, const D: usize>(st: &mut St) {
    let dir = DIRS[D];
    if let Some(d) = st.asleep_on[T] {
        // a sleeping task re-polls the same allocation
        kani::assume(d == dir);
    }
    let w = waker(T);
    let mut cx = Context::from_waker(&w);
    let sent_before = unsafe { BLOCKED_SENT };
    let r = st.ids.poll_alloc_sid(&mut cx, dir);
    st.wakes_at_poll[T] = wakes(T);
    match r {
        Poll::Pending => {
            assert!(st.unalloc[D] >= st.max[D], "Pending only when the limit is exhausted");
            st.asleep_on[T] = Some(dir);
            assert!(unsafe { BLOCKED_SENT } == sent_before + 1, "one STREAMS_BLOCKED per blocked poll");
            assert!(unsafe { BLOCKED_LAST } == Some(StreamsBlockedFrame::with(dir, VarInt::from_u64(st.max[D]).unwrap())));
        }
        Poll::Ready(Some(sid)) => {
            assert!(st.unalloc[D] < st.max[D]);
            assert!(sid == StreamId::new(st.role, dir, st.unalloc[D]), "the next unused id of that direction");
            st.unalloc[D] += 1;
            st.asleep_on[T] = None;
            st.granted = true;
            assert!(unsafe { BLOCKED_SENT } == sent_before);
        }
        Poll::Ready(None) => {
            assert!(false, "ids not exhausted within MAX_STREAMS_LIMIT");
        }
    }
}

fn limit_step<const D: usize>(st: &mut St) {
    let dir = DIRS[D];
    let val: u64 = kani::any();
    kani::assume(val <= MAX_STREAMS_LIMIT);
    let raised_before = unsafe { WRITTEN_RAISED };
    if kani::any() {
        st.ids.increase_limit(dir, val);
    } else {
        st.ids.recv_max_streams_frame(MaxStreamsFrame::with(dir, VarInt::from_u64(val).unwrap()));
    }
    // streams opened beyond the (0-RTT rejected) limit become sendable: the sending tasks are told
    let expect_written = val > st.max[D] && st.max[D] < st.unalloc[D];
    assert!(unsafe { WRITTEN_RAISED } == raised_before + if expect_written { 1 } else { 0 });
    if val > st.max[D] {
        st.max[D] = val;
    }
}

fn local_sid_schedule<const K: usize>() {
    let role = if kani::any() { Role::Client } else { Role::Server };
    let mut ids = LocalStreamIds::new(role, 0, 0, BlockedSink, ArcSendWakers::new());
    // arbitrary pre-state (unallocated may exceed max after a 0-RTT rejection)
    let m0: u64 = kani::any();
    let m1: u64 = kani::any();
    let u0: u64 = kani::any();
    let u1: u64 = kani::any();
    kani::assume(m0 <= MAX_STREAMS_LIMIT && m1 <= MAX_STREAMS_LIMIT);
    kani::assume(u0 <= MAX_STREAMS_LIMIT && u1 <= MAX_STREAMS_LIMIT);
    ids.max = [m0, m1];
    ids.unallocated = [u0, u1];
    let mut st = St {
        ids,
        role,
        max: [m0, m1],
        unalloc: [u0, u1],
        asleep_on: [None, None],
        wakes_at_poll: [wakes(0), wakes(1)],
        granted: false,
    };

    let mut i = 0;
    while i < K {
        let choice: u8 = kani::any();
        kani::assume(choice < 6);
        match choice {
            0 => poll_step::<0, 0>(&mut st),
            1 => poll_step::<0, 1>(&mut st),
            2 => poll_step::<1, 0>(&mut st),
            3 => poll_step::<1, 1>(&mut st),
            4 => limit_step::<0>(&mut st),
            _ => limit_step::<1>(&mut st),
        }
        assert!(st.ids.max[0] == st.max[0] && st.ids.max[1] == st.max[1]);
        assert!(st.ids.unallocated[0] == st.unalloc[0] && st.ids.unallocated[1] == st.unalloc[1]);
        i += 1;
    }
    let woken = [wakes(0) != st.wakes_at_poll[0], wakes(1) != st.wakes_at_poll[1]];
    let mut t = 0;
    while t < 2 {
        if let Some(dir) = st.asleep_on[t] {
            let d = dir as usize;
            if !woken[t] {
                assert!(st.unalloc[d] >= st.max[d], "no lost wake-up: a stream id became available while the opener sleeps unwoken");
            }
        }
        t += 1;
    }
    kani::cover!(st.asleep_on[0].is_some() && st.asleep_on[1].is_some() && woken[0] && woken[1], "two sleepers woken");
    kani::cover!(st.asleep_on[0] == Some(Dir::Uni) && !woken[0] && st.max[0] > m0, "limit of the other direction raised: sleeper stays asleep");
    kani::cover!(st.granted && st.asleep_on[1].is_some(), "one id granted, other task blocked");
    core::mem::forget(st);
}

#[kani::proof]
#[kani::unwind(6)]
#[kani::stub(ArcSendWakers::wake_all_by, stub_wake_all_by)]
fn c16_local_sid_schedule_k3() {
    local_sid_schedule::<3>();
}

// ---------------------------------------------------------------------------------------------
// Inductive formulation (schedules of ANY length). Ghost `asleep_on[t] = Some(d)`: task t's last
// poll_alloc_sid(d) returned Pending and its waker has not been invoked since.
//   INV:  asleep_on[t] == Some(d)  =>  unallocated[d] >= max[d]  &&  wakers[d] contains t's waker
// INV holds initially (nobody asleep); each atomic step from ANY state satisfying INV
// re-establishes it, hence no opener ever sleeps unwoken while an id of its direction is available.
// Pre-state: arbitrary (max, unallocated) <= 2^60, each wakers[d] = arbitrary sequence of <= 2
// wakers of tasks {0,1} (duplicates allowed: a task may poll twice).

struct Pre {
    ids: LocalStreamIds<BlockedSink>,
    role: Role,
    max: [u64; 2],
    unalloc: [u64; 2],
    asleep_on: [Option<Dir>; 2],
}

fn contains_waker(q: &VecDeque<Waker>, t: usize) -> bool {
    let w = waker(t);
    let mut found = false;
    let mut i = 0;
    while i < 4 {
        if let Some(x) = q.get(i) {
            if x.will_wake(&w) {
                found = true;
            }
        }
        i += 1;
    }
    found
}

fn inv(p: &Pre) -> bool {
    let mut ok = true;
    let mut t = 0;
    while t < 2 {
        if let Some(d) = p.asleep_on[t] {
            let d = d as usize;
            if !(p.ids.unallocated[d] >= p.ids.max[d] && contains_waker(&p.ids.wakers[d], t)) {
                ok = false;
            }
        }
        t += 1;
    }
    ok
}

fn any_pre() -> Pre {
    let role = if kani::any() { Role::Client } else { Role::Server };
    let mut ids = LocalStreamIds::new(role, 0, 0, BlockedSink, ArcSendWakers::new());
    let m0: u64 = kani::any();
    let m1: u64 = kani::any();
    let u0: u64 = kani::any();
    let u1: u64 = kani::any();
    kani::assume(m0 <= MAX_STREAMS_LIMIT && m1 <= MAX_STREAMS_LIMIT);
    kani::assume(u0 <= MAX_STREAMS_LIMIT && u1 <= MAX_STREAMS_LIMIT);
    ids.max = [m0, m1];
    ids.unallocated = [u0, u1];
    // registered wakers: per direction 0..=2 entries, each of task 0 or 1
    let mut d = 0;
    while d < 2 {
        let n: usize = kani::any();
        kani::assume(n <= 2);
        let mut k = 0;
        while k < 2 {
            if k < n {
                if kani::any() {
                    ids.wakers[d].push_back(waker(0));
                } else {
                    ids.wakers[d].push_back(waker(1));
                }
            }
            k += 1;
        }
        d += 1;
    }
    let a0: u8 = kani::any();
    let a1: u8 = kani::any();
    kani::assume(a0 < 3 && a1 < 3);
    let to_dir = |a: u8| match a {
        0 => None,
        1 => Some(Dir::Bi),
        _ => Some(Dir::Uni),
    };
    let p = Pre { ids, role, max: [m0, m1], unalloc: [u0, u1], asleep_on: [to_dir(a0), to_dir(a1)] };
    kani::assume(inv(&p));
    p
}

/// One poll_alloc_sid(task T, direction D) from any INV state.
fn step_poll<const T: usize, const D: usize>() {
    let mut p = any_pre();
    let dir = DIRS[D];
    if let Some(d) = p.asleep_on[T] {
        kani::assume(d == dir); // a sleeping task re-polls the allocation it is waiting for
    }
    let before = [wakes(0), wakes(1)];
    let w = waker(T);
    let mut cx = Context::from_waker(&w);
    let sent_before = unsafe { BLOCKED_SENT };
    let r = p.ids.poll_alloc_sid(&mut cx, dir);
    match r {
        Poll::Pending => {
            assert!(p.unalloc[D] >= p.max[D], "Pending only when the limit is exhausted");
            assert!(unsafe { BLOCKED_SENT } == sent_before + 1, "one STREAMS_BLOCKED per blocked poll");
            assert!(unsafe { BLOCKED_LAST } == Some(StreamsBlockedFrame::with(dir, VarInt::from_u64(p.max[D]).unwrap())));
            assert!(p.ids.unallocated[D] == p.unalloc[D]);
            p.asleep_on[T] = Some(dir);
        }
        Poll::Ready(Some(sid)) => {
            assert!(p.unalloc[D] < p.max[D]);
            assert!(sid == StreamId::new(p.role, dir, p.unalloc[D]), "the next unused id of that direction");
            assert!(p.ids.unallocated[D] == p.unalloc[D] + 1);
            assert!(unsafe { BLOCKED_SENT } == sent_before);
            p.asleep_on[T] = None;
        }
        Poll::Ready(None) => assert!(false, "ids not exhausted within MAX_STREAMS_LIMIT"),
    }
    assert!(p.ids.max[0] == p.max[0] && p.ids.max[1] == p.max[1]);
    assert!(p.ids.unallocated[1 - D] == p.unalloc[1 - D]);
    assert!(wakes(0) == before[0] && wakes(1) == before[1], "polling wakes nobody");
    assert!(inv(&p), "INV re-established: a Pending poll leaves the task registered; other sleepers untouched");
    kani::cover!(p.asleep_on[T].is_some() && p.asleep_on[1 - T].is_some(), "both tasks asleep");
    kani::cover!(p.asleep_on[T].is_none() && p.asleep_on[1 - T] == Some(DIRS[1 - D]), "id granted while the other task sleeps on the other direction");
    core::mem::forget(p);
}

/// One increase_limit / MAX_STREAMS frame for direction D from any INV state.
fn step_limit<const D: usize>() {
    let mut p = any_pre();
    let dir = DIRS[D];
    let val: u64 = kani::any();
    kani::assume(val <= MAX_STREAMS_LIMIT);
    let before = [wakes(0), wakes(1)];
    let raised_before = unsafe { WRITTEN_RAISED };
    if kani::any() {
        p.ids.increase_limit(dir, val);
    } else {
        p.ids.recv_max_streams_frame(MaxStreamsFrame::with(dir, VarInt::from_u64(val).unwrap()));
    }
    let grew = val > p.max[D];
    assert!(p.ids.max[D] == if grew { val } else { p.max[D] }, "limit never decreases");
    assert!(p.ids.max[1 - D] == p.max[1 - D] && p.ids.unallocated[0] == p.unalloc[0] && p.ids.unallocated[1] == p.unalloc[1]);
    let expect_written = grew && p.max[D] < p.unalloc[D];
    assert!(unsafe { WRITTEN_RAISED } == raised_before + if expect_written { 1 } else { 0 });
    let mut t = 0;
    while t < 2 {
        let woken = wakes(t) != before[t];
        if p.asleep_on[t] == Some(dir) && grew {
            assert!(woken, "raising the limit wakes every opener sleeping on that direction");
        }
        if !grew {
            assert!(!woken, "a MAX_STREAMS frame that does not raise the limit wakes nobody");
        }
        if woken {
            p.asleep_on[t] = None;
        }
        t += 1;
    }
    assert!(inv(&p), "INV re-established");
    kani::cover!(grew && p.asleep_on[0].is_none() && wakes(0) != before[0] && wakes(1) != before[1], "two sleepers woken");
    kani::cover!(grew && p.asleep_on[0] == Some(DIRS[1 - D]), "limit of the other direction raised: sleeper stays asleep");
    kani::cover!(!grew && p.asleep_on[1] == Some(dir), "MAX_STREAMS that does not raise the limit is ignored");
    core::mem::forget(p);
}

#[kani::proof]
#[kani::unwind(6)]
#[kani::stub(ArcSendWakers::wake_all_by, stub_wake_all_by)]
fn c16_local_sid_step_poll_bi() {
    step_poll::<0, 0>();
}

#[kani::proof]
#[kani::unwind(6)]
#[kani::stub(ArcSendWakers::wake_all_by, stub_wake_all_by)]
fn c16_local_sid_step_poll_uni() {
    step_poll::<1, 1>();
}

#[kani::proof]
#[kani::unwind(6)]
#[kani::stub(ArcSendWakers::wake_all_by, stub_wake_all_by)]
fn c16_local_sid_step_limit_bi() {
    step_limit::<0>();
}

#[kani::proof]
#[kani::unwind(6)]
#[kani::stub(ArcSendWakers::wake_all_by, stub_wake_all_by)]
fn c16_local_sid_step_limit_uni() {
    step_limit::<1>();
}
