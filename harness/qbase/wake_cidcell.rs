// C16 — `CidCell::{borrow_cid, assign, retire, renew}` composed with the path's real
// `ArcSendWaker` (qbase/src/cid/remote_cid.rs + net/tx.rs). Compiled inside qbase::cid::remote_cid.
//
// Waiter (the path's sending task): borrow_cid(tx_waker) -> Err(CONNECTION_ID) registers the
// path's SendWaker in the cell (atomic step "check"), later wait_for(CONNECTION_ID) (atomic step
// "register/poll", proved separately in c16_sendwaker_schedule: a wake_by(x) issued after the
// check is never lost). Notifiers: assign (NEW_CONNECTION_ID arranged to this cell) and retire.
// Here the path's ArcSendWaker is used as the signal latch it is: the obligation is that every
// assign / retire that happens after a blocked borrow_cid raises CONNECTION_ID on that waker.
//
// Inductive formulation (schedules of ANY length; the K-step schedule through the Arc<Mutex<..>>
// did not finish in 400 s even for K = 2). Ghost `blocked` = "the path's last borrow_cid returned
// Err(CONNECTION_ID) and neither assign nor retire happened since".
//   INV:  blocked  =>  cell.waker is the path's ArcSendWaker  &&  no cid allocated  &&  !retired
// INV holds initially; every atomic step (borrow_cid / assign / retire / renew) from ANY state
// satisfying INV re-establishes it, and an assign / retire that ends `blocked` raises
// CONNECTION_ID on the path's SendWaker, which wakes the path's sleeping task (the SendWaker half
// of the protocol - a wake_by issued after the check is never lost - is c16_sendwaker_schedule).

use super::*;

use core::{future::Future, pin::pin, task::Context};

include!("wake_common.rs");
use vwk::{waker, wakes};

static mut RETIRE_SENT: u32 = 0;

#[derive(Clone, Debug)]
struct RetireSink;
impl SendFrame<RetireConnectionIdFrame> for RetireSink {
    fn send_frame<I: IntoIterator<Item = RetireConnectionIdFrame>>(&self, iter: I) {
        for _f in iter {
            unsafe { RETIRE_SENT += 1 };
        }
    }
}

fn retire_sent() -> u32 {
    unsafe { RETIRE_SENT }
}

/// Stub for `std::sync::Mutex::lock`: one CAS (`try_lock`) instead of the futex spin/wait loop.
fn stub_mutex_lock<T: ?Sized>(m: &std::sync::Mutex<T>) -> std::sync::LockResult<std::sync::MutexGuard<'_, T>> {
    match m.try_lock() {
        Ok(g) => Ok(g),
        Err(std::sync::TryLockError::Poisoned(p)) => Err(p),
        Err(std::sync::TryLockError::WouldBlock) => panic!("self-deadlock: mutex already held"),
    }
}

fn cid1(b: u8) -> ConnectionId {
    let mut cid = ConnectionId::default();
    cid.len = 1;
    cid.bytes[0] = b;
    cid
}

struct Pre {
    cell: CidCell<RetireSink>,
    txw: ArcSendWaker,
    n_alloc: u32,
    newest: u8,
    retired: bool,
    using: bool,
    blocked: bool,
}

/// Arbitrary reachable-shaped state: 0..=2 allocated cids (2 only while one is borrowed), retired
/// cells hold none; the registered waker is the path's (present whenever `blocked`, possibly a
/// stale registration otherwise). The path's task sleeps in wait_for(CONNECTION_ID).
fn any_pre() -> Pre {
    let n_alloc: u32 = kani::any();
    let retired: bool = kani::any();
    let using: bool = kani::any();
    let blocked: bool = kani::any();
    let stale: bool = kani::any();
    let b: [u8; 2] = kani::any();
    kani::assume(n_alloc <= 2);
    kani::assume(!(retired && n_alloc > 0));
    kani::assume(!(n_alloc == 2 && !using));
    kani::assume(!(using && n_alloc == 0 && !retired));
    kani::assume(!(blocked && (n_alloc > 0 || retired))); // INV
    let txw = ArcSendWaker::new();
    let mut allocated_cids = VecDeque::with_capacity(2);
    if n_alloc >= 1 {
        allocated_cids.push_back((1u64, cid1(b[0])));
    }
    if n_alloc >= 2 {
        allocated_cids.push_back((0u64, cid1(b[1])));
    }
    let cell = CidCell {
        retired_cids: RetireSink,
        allocated_cids,
        waker: if blocked || stale { Some(txw.clone()) } else { None },
        is_retired: retired,
        is_using: using,
    };
    Pre { cell, txw, n_alloc, newest: b[0], retired, using, blocked }
}

/// the cell's registered waker is the path's ArcSendWaker
fn registered(p: &Pre) -> bool {
    match p.cell.waker.as_ref() {
        Some(_) => true, // the only ArcSendWaker in the harness is the path's
        None => false,
    }
}

/// Has CONNECTION_ID been raised on the path's send waker since it parked? (a re-poll of
/// wait_for is Ready exactly then; it consumes the signal, so this is called once, at the end)
fn cid_signalled(p: &Pre) -> bool {
    let w = waker(0);
    let mut cx = Context::from_waker(&w);
    let r = {
        let fut = pin!(p.txw.wait_for(Signals::CONNECTION_ID));
        fut.poll(&mut cx)
    };
    r.is_ready()
}

/// The path's task goes to sleep on the send waker (Pending: nothing raised yet).
fn park_path(p: &Pre) {
    let w = waker(0);
    let mut cx = Context::from_waker(&w);
    let r = {
        let fut = pin!(p.txw.wait_for(Signals::CONNECTION_ID));
        fut.poll(&mut cx)
    };
    assert!(r.is_pending());
}

fn check_post(p: &Pre) {
    assert!(p.cell.allocated_cids.len() == p.n_alloc as usize && p.cell.is_retired == p.retired && p.cell.is_using == p.using);
    if p.blocked {
        assert!(registered(p) && p.n_alloc == 0 && !p.retired, "INV re-established");
    }
}

#[kani::proof]
#[kani::unwind(6)]
#[kani::stub(std::sync::Mutex::lock, stub_mutex_lock)]
fn c16_cidcell_step_borrow() {
    let mut p = any_pre();
    kani::assume(!p.using);
    park_path(&p);
    let before = wakes(0);
    match p.cell.borrow_cid(p.txw.clone()) {
        Ok(Some(cid)) => {
            assert!(!p.retired && p.n_alloc > 0 && cid.len == 1 && cid.bytes[0] == p.newest, "borrows the newest assigned cid");
            p.using = true;
            kani::cover!(true, "cid borrowed");
        }
        Ok(None) => {
            assert!(p.retired, "None only for a retired cell");
            kani::cover!(true, "retired cell");
        }
        Err(sig) => {
            assert!(sig == Signals::CONNECTION_ID);
            assert!(!p.retired && p.n_alloc == 0, "blocked only when no cid is assigned");
            p.blocked = true;
            kani::cover!(true, "blocked");
        }
    }
    assert!(wakes(0) == before && !cid_signalled(&p), "no spurious CONNECTION_ID signal");
    check_post(&p);
    core::mem::forget(p);
}

#[kani::proof]
#[kani::unwind(6)]
#[kani::stub(std::sync::Mutex::lock, stub_mutex_lock)]
fn c16_cidcell_step_assign() {
    let mut p = any_pre();
    kani::assume(!p.retired && p.n_alloc < 2);
    park_path(&p);
    let was_registered = registered(&p);
    let seq: u64 = kani::any();
    kani::assume(seq <= VARINT_MAX);
    let before = wakes(0);
    let sent = retire_sent();
    p.cell.assign(seq, cid1(kani::any()));
    if p.using {
        assert!(retire_sent() == sent);
        p.n_alloc += 1;
    } else {
        assert!(retire_sent() == sent + p.n_alloc, "every older cid is retired when the cell is not in use");
        p.n_alloc = 1;
    }
    if p.blocked {
        assert!(wakes(0) == before + 1 && cid_signalled(&p), "a cid assigned after a blocked borrow_cid wakes the path's sleeping task");
    }
    assert!((wakes(0) != before) == was_registered, "exactly the registered path is notified");
    assert!(p.cell.waker.is_none(), "registration consumed");
    kani::cover!(p.blocked, "blocked path notified by assign");
    kani::cover!(!was_registered, "nobody waiting");
    kani::cover!(p.using && p.n_alloc == 2, "cid re-assigned while borrowed");
    p.blocked = false;
    check_post(&p);
    core::mem::forget(p);
}

#[kani::proof]
#[kani::unwind(6)]
#[kani::stub(std::sync::Mutex::lock, stub_mutex_lock)]
fn c16_cidcell_step_retire() {
    let mut p = any_pre();
    park_path(&p);
    let was_registered = registered(&p);
    let before = wakes(0);
    let sent = retire_sent();
    p.cell.retire();
    if !p.retired {
        assert!(retire_sent() == sent + p.n_alloc, "retire() retires every allocated cid");
        if p.blocked {
            assert!(wakes(0) == before + 1 && cid_signalled(&p), "retiring the cell wakes the blocked path's sleeping task");
        }
        assert!((wakes(0) != before) == was_registered);
        p.n_alloc = 0;
        p.blocked = false;
    } else {
        assert!(retire_sent() == sent && wakes(0) == before, "retire is idempotent");
    }
    kani::cover!(p.retired, "second retire");
    kani::cover!(!p.retired && was_registered && wakes(0) != before, "blocked path notified by retire");
    p.retired = true;
    check_post(&p);
    core::mem::forget(p);
}

#[kani::proof]
#[kani::unwind(6)]
#[kani::stub(std::sync::Mutex::lock, stub_mutex_lock)]
fn c16_cidcell_step_renew() {
    let mut p = any_pre();
    kani::assume(p.using);
    park_path(&p);
    let before = wakes(0);
    let sent = retire_sent();
    p.cell.renew();
    p.using = false;
    if p.n_alloc > 1 {
        assert!(retire_sent() == sent + p.n_alloc - 1);
        p.n_alloc = 1;
    } else {
        assert!(retire_sent() == sent);
    }
    assert!(wakes(0) == before && !cid_signalled(&p), "no spurious CONNECTION_ID signal");
    kani::cover!(sent != retire_sent(), "older cid retired on renew");
    check_post(&p);
    core::mem::forget(p);
}
