// C16 — `CidCell::{borrow_cid, assign, retire, renew}` composed with the path's real
// `ArcSendWaker` (qbase/src/cid/remote_cid.rs + net/tx.rs). Compiled inside qbase::cid::remote_cid.
//
// Waiter (the path's sending task): borrow_cid(tx_waker) -> Err(CONNECTION_ID) registers the
// path's SendWaker in the cell (atomic step "check"), later wait_for(CONNECTION_ID) (atomic step
// "register/poll", proved separately in c16_sendwaker_schedule: a wake_by(x) issued after the
// check is never lost). Notifiers: assign (NEW_CONNECTION_ID arranged to this cell) and retire.
// Here the path's ArcSendWaker is used as the signal latch it is: the obligation is that every
// assign / retire that happens after a blocked borrow_cid raises CONNECTION_ID on that waker.
// (A task Waker stored inside the Arc<Mutex<SendWaker>> made the schedule harness explode; the
// two halves are therefore proved separately and composed by the SendWaker contract.)

use super::*;

use core::{future::Future, pin::pin, task::Context};

include!("wake_common.rs");
use vwk::{waker, wakes};

static mut RETIRE_SENT: u32 = 0;

#[derive(Clone, Debug)]
struct RetireSink;
impl SendFrame<RetireConnectionIdFrame> for RetireSink {
    fn send_frame<I: IntoIterator<Item = RetireConnectionIdFrame>>(&self, iter: I) {
        for _f in iter {
            unsafe { RETIRE_SENT += 1 };
        }
    }
}

fn retire_sent() -> u32 {
    unsafe { RETIRE_SENT }
}

fn cidcell_schedule<const K: usize>() {
    let mut cell = CidCell {
        retired_cids: RetireSink,
        allocated_cids: VecDeque::with_capacity(2),
        waker: None,
        is_retired: false,
        is_using: false,
    };
    let txw = ArcSendWaker::new();
    let cid_bit = Signals::CONNECTION_ID.bits();

    // ghost
    let mut n_alloc: u32 = 0;
    let mut newest: Option<ConnectionId> = None;
    let mut retired = false;
    let mut using = false;
    let mut blocked = false; // the last borrow_cid returned Err(CONNECTION_ID)
    let mut notified_since_block = false; // a cid was assigned / the cell retired since then
    let mut borrowed_ok = false;

    let mut i = 0;
    while i < K {
        let choice: u8 = kani::any();
        kani::assume(choice < 4);
        match choice {
            0 if !using => {
                // waiter: check (registers the path's send waker when blocked)
                match cell.borrow_cid(txw.clone()) {
                    Ok(Some(cid)) => {
                        assert!(!retired && n_alloc > 0 && newest.is_some_and(|n| n.len == cid.len && n.bytes[0] == cid.bytes[0]), "borrows the newest assigned cid");
                        using = true;
                        blocked = false;
                        borrowed_ok = true;
                    }
                    Ok(None) => {
                        assert!(retired, "None only for a retired cell");
                        blocked = false;
                    }
                    Err(sig) => {
                        assert!(sig == Signals::CONNECTION_ID);
                        assert!(!retired && n_alloc == 0, "blocked only when no cid is assigned");
                        if !blocked {
                            blocked = true;
                            notified_since_block = false;
                        }
                    }
                }
            }
            1 if !retired => {
                let seq: u64 = kani::any();
                kani::assume(seq <= VARINT_MAX);
                let mut cid = ConnectionId::default();
                cid.len = 1;
                cid.bytes[0] = kani::any();
                let before = retire_sent();
                cell.assign(seq, cid);
                if using {
                    n_alloc += 1;
                    assert!(retire_sent() == before);
                } else {
                    assert!(retire_sent() == before + n_alloc, "every older cid is retired when the cell is not in use");
                    n_alloc = 1;
                }
                newest = Some(cid);
                notified_since_block = true;
            }
            2 => {
                let before = retire_sent();
                cell.retire();
                if !retired {
                    assert!(retire_sent() == before + n_alloc, "retire() retires every allocated cid");
                } else {
                    assert!(retire_sent() == before);
                }
                retired = true;
                n_alloc = 0;
                notified_since_block = true;
            }
            3 if using => {
                // the BorrowedCid guard is dropped
                let before = retire_sent();
                cell.renew();
                using = false;
                if n_alloc > 1 {
                    assert!(retire_sent() == before + n_alloc - 1);
                    n_alloc = 1;
                }
            }
            _ => {}
        }
        assert!(cell.allocated_cids.len() == n_alloc as usize && cell.is_retired == retired && cell.is_using == using);
        i += 1;
    }
    kani::cover!(blocked && notified_since_block && n_alloc > 0, "blocked path notified by assign");
    kani::cover!(blocked && notified_since_block && retired, "blocked path notified by retire");
    kani::cover!(blocked && !notified_since_block, "still legitimately blocked");
    kani::cover!(borrowed_ok && n_alloc == 2, "cid re-assigned while borrowed");
    // The obligation towards the SendWaker protocol, at the end of every schedule (every prefix is
    // itself a schedule: disabled choices are no-op steps). The path's waker is polled only here.
    let w = waker(0);
    let mut cx = Context::from_waker(&w);
    let r = {
        let fut = pin!(txw.wait_for(Signals::CONNECTION_ID));
        fut.poll(&mut cx)
    };
    if blocked && notified_since_block {
        assert!(r.is_ready(),
            "no lost wake-up: cid assigned / cell retired after a blocked borrow_cid raises CONNECTION_ID on the path's send waker");
    }
    if !notified_since_block {
        assert!(r.is_pending(), "no spurious CONNECTION_ID signal");
        // ... and a later assign / retire of a blocked cell wakes the now sleeping path
        if blocked {
            let before = wakes(0);
            if kani::any() {
                let mut cid = ConnectionId::default();
                cid.len = 1;
                cell.assign(0, cid);
            } else {
                cell.retire();
            }
            assert!(wakes(0) == before + 1, "assign / retire wakes the sleeping path's task");
        }
    }
    core::mem::forget(cell);
}

#[kani::proof]
#[kani::unwind(6)]
fn c16_cidcell_schedule_k3() {
    cidcell_schedule::<3>();
}

#[kani::proof]
#[kani::unwind(6)]
fn c16_cidcell_schedule_k4() {
    cidcell_schedule::<4>();
}

#[kani::proof]
#[kani::unwind(6)]
fn c16_cidcell_schedule_k2() {
    cidcell_schedule::<2>();
}
