// Kani harness compiled *inside* qbase::frame::punch_hello (overlay injection, cfg(kani) only), because
// the frame's fields are private to that module and its public constructor cannot produce every
// value (u32-only constructor). Property C05: see frames_c05.rs for the harness shape and the helpers
// (`encode_exact`, `skip_type`, `done`, the verified `model_be_varint`).
use super::*;
#[allow(unused_imports)]
use crate::frame::{
    FrameType, GetFrameType,
    verif_frames_c05::{
        any_cid, any_nat_type, any_socket_addr, any_varint, cid_eq, done, encode_exact, model_be_varint, skip_type,
        stub_slice_index_fail,
    },
};

fn body() {
    let f = PunchHelloFrame { local_seq: any_varint(), remote_seq: any_varint(), probe_id: any_varint() };
    let mut arr = [0u8; 28];
    let n = encode_exact(&f, &mut arr);
    let rest = skip_type(&arr[..n], f.frame_type());
    let back = done(be_punch_hello_frame(rest));
    assert!(back.local_seq == f.local_seq, "local_seq survives");
    assert!(back.remote_seq == f.remote_seq, "remote_seq survives");
    assert!(back.probe_id == f.probe_id, "probe_id survives");
    assert!(back == f);
    kani::cover!(n == 28, "all fields 8-byte varints");
    kani::cover!(n == 7, "all fields 1-byte varints");
}

/// C05 PUNCH_HELLO, every field any varint < 2^62 (quick tier: be_varint replaced by its verified model).
#[kani::proof]
#[kani::stub(core::slice::index::slice_index_fail, stub_slice_index_fail)]
#[kani::unwind(10)]
#[kani::stub(crate::varint::be_varint, model_be_varint)]
fn c05_punch_hello_roundtrip() {
    body()
}

/// C05 PUNCH_HELLO, every field any varint < 2^62 (thorough tier: the real nom be_varint).
#[kani::proof]
#[kani::stub(core::slice::index::slice_index_fail, stub_slice_index_fail)]
#[kani::unwind(10)]
fn c05_punch_hello_roundtrip_real() {
    body()
}
