// Kani harnesses compiled *inside* qbase::frame (overlay injection, cfg(kani) only).
// Property C03, frame part: for EVERY byte string up to the stated length each frame decoder
// terminates (unwinding assertions on), never panics / overflows / reads out of bounds (Kani's
// automatic checks on the real code), never returns nom's `Failure` (which `be_frame` maps to
// `unreachable!`), and its verdict is exactly the one RFC 9000 §19 prescribes for those bytes:
// an independent reference decoding of the wire layout (`ref_varint` below: plain byte
// arithmetic, no nom) says which prefix is a complete frame and what every field is; the real
// parser must return Ok with exactly those field values and exactly that many bytes consumed, or
// an error when the reference says "truncated" / "invalid".
use super::{
    ack::ack_frame_with_ecn,
    add_address::be_add_address_frame,
    connection_close::connection_close_frame_at_layer,
    crypto::be_crypto_frame,
    data_blocked::be_data_blocked_frame,
    datagram::datagram_frame_with_flag,
    max_data::be_max_data_frame,
    max_stream_data::be_max_stream_data_frame,
    max_streams::max_streams_frame_with_dir,
    new_connection_id::be_new_connection_id_frame,
    new_token::be_new_token_frame,
    path_challenge::be_path_challenge_frame,
    path_response::be_path_response_frame,
    punch_done::be_punch_done_frame,
    punch_hello::be_punch_hello_frame,
    punch_me_now::be_punch_me_now_frame,
    remove_address::be_remove_address_frame,
    reset_stream::be_reset_stream_frame,
    retire_connection_id::be_retire_connection_id_frame,
    stop_sending::be_stop_sending_frame,
    stream::stream_frame_with_flag,
    stream_data_blocked::be_stream_data_blocked_frame,
    streams_blocked::streams_blocked_frame_with_dir,
    *,
};
use crate::{
    error::{ErrorFrameType, ErrorKind, QuicError},
    packet::r#type::{
        long::{Type as LongType, Ver1},
        short::OneRtt,
    },
    sid::MAX_STREAMS_LIMIT,
    varint::{VARINT_MAX, be_varint},
};

/// Stub for core's slice-index panic path (maintainer's perf note 2): the panic is still reported as
/// a failed check, only the message formatting is cut out of the symbolic execution.
pub(crate) fn stub_slice_index_fail(_s: usize, _e: usize, _l: usize) -> ! {
    panic!("slice index out of range")
}

/// Stub for `alloc::fmt::format` (error *texts* are irrelevant; DESIGN.md §2.3 `no_fmt`).
pub(crate) fn stub_fmt(_a: core::fmt::Arguments<'_>) -> String {
    String::new()
}

/// Stub for std's `String::from_utf8_lossy` (reason phrases): std's lossy decoder is total and
/// panic-free (trusted base); running it on arbitrary symbolic bytes costs minutes per byte.
/// (Even 2 arbitrary reason bytes through the real decoder do not finish in 5 minutes.) The reason
/// *content* is checked in C05 for ASCII phrases.
pub(crate) fn stub_from_utf8_lossy(_v: &[u8]) -> std::borrow::Cow<'_, str> {
    std::borrow::Cow::Borrowed("")
}

/// Stub for `core::fmt::write` (used by `to_string()` in the error mapping).
pub(crate) fn stub_fmt_write(_o: &mut dyn core::fmt::Write, _a: core::fmt::Arguments<'_>) -> core::fmt::Result {
    Ok(())
}

// ------------------------------------------------------------------------------------------------
// reference decoding (RFC 9000 §16), independent of nom

/// Variable-length integer at `pos` of `a[..len]`: Some((value, position after it)) or None when
/// truncated.
fn ref_varint<const N: usize>(a: &[u8; N], pos: usize, len: usize) -> Option<(u64, usize)> {
    if pos >= len {
        return None;
    }
    let b0 = a[pos];
    let n = 1usize << (b0 >> 6);
    if n > len - pos {
        return None;
    }
    // loop-free on purpose (small unwind bounds in the callers)
    let mut v = (b0 & 0x3f) as u64;
    if n >= 2 {
        v = (v << 8) | a[pos + 1] as u64;
    }
    if n >= 4 {
        v = (v << 8) | a[pos + 2] as u64;
        v = (v << 8) | a[pos + 3] as u64;
    }
    if n == 8 {
        v = (v << 8) | a[pos + 4] as u64;
        v = (v << 8) | a[pos + 5] as u64;
        v = (v << 8) | a[pos + 6] as u64;
        v = (v << 8) | a[pos + 7] as u64;
    }
    Some((v, pos + n))
}

fn any_input<const N: usize>() -> ([u8; N], usize) {
    let arr: [u8; N] = kani::any();
    let len: usize = kani::any();
    kani::assume(len <= N);
    (arr, len)
}

/// The error of an inner parser is never nom's `Failure` (be_frame: `unreachable!`).
fn not_failure<E>(e: &nom::Err<E>) {
    assert!(!matches!(e, nom::Err::Failure(_)), "inner frame parsers never return nom Failure");
}

/// Check a parser verdict against the reference: `expect` = Some(end) when `a[..end]` is a complete
/// valid frame body. Returns the decoded value when both agree on success.
fn verdict<'a, T>(r: nom::IResult<&'a [u8], T>, len: usize, expect: Option<usize>) -> Option<T> {
    match r {
        Ok((remain, v)) => {
            assert!(remain.len() <= len, "never reads outside the buffer");
            match expect {
                Some(end) => {
                    assert!(len - remain.len() == end, "consumes exactly the frame's bytes");
                    Some(v)
                }
                None => panic!("truncated / invalid frame accepted"),
            }
        }
        Err(e) => {
            not_failure(&e);
            assert!(expect.is_none(), "complete valid frame rejected");
            core::mem::forget(e);
            None
        }
    }
}

// ------------------------------------------------------------------------------------------------
// varint, frame type

/// C03 be_varint on every byte string of length 0..=9: value and consumption per RFC 9000 §16;
/// truncated input -> Incomplete(exactly the number of missing bytes), never Error / Failure.
#[kani::proof]
#[kani::stub(core::slice::index::slice_index_fail, stub_slice_index_fail)]
#[kani::unwind(10)]
fn c03_varint_any_bytes() {
    let (arr, len) = any_input::<9>();
    match be_varint(&arr[..len]) {
        Ok((remain, v)) => match ref_varint(&arr, 0, len) {
            Some((x, end)) => {
                assert!(v.into_u64() == x && x <= VARINT_MAX);
                assert!(remain.len() == len - end);
                kani::cover!(end == 8 && x == VARINT_MAX);
                kani::cover!(end == 1);
            }
            None => panic!("truncated varint accepted"),
        },
        Err(nom::Err::Incomplete(needed)) => {
            assert!(ref_varint(&arr, 0, len).is_none());
            let want = if len == 0 { 1 } else { (1usize << (arr[0] >> 6)) - len };
            match needed {
                nom::Needed::Size(n) => assert!(n.get() == want),
                nom::Needed::Unknown => panic!("needed size is known"),
            }
            kani::cover!(len == 7);
            kani::cover!(len == 0);
        }
        Err(e) => {
            core::mem::forget(e);
            panic!("be_varint only ever reports Incomplete")
        }
    }
}

fn any_packet_type() -> Type {
    let k: u8 = kani::any();
    match k % 6 {
        0 => Type::Long(LongType::V1(Ver1::INITIAL)),
        1 => Type::Long(LongType::V1(Ver1::ZERO_RTT)),
        2 => Type::Long(LongType::V1(Ver1::HANDSHAKE)),
        3 => Type::Long(LongType::V1(Ver1::RETRY)),
        4 => Type::Long(LongType::VersionNegotiation),
        _ => Type::Short(OneRtt::from(kani::any::<u8>())),
    }
}

/// RFC 9000 Table 3 "Pkts" column (+ RFC 9221 DATAGRAM: 0-RTT/1-RTT; gm-quic's traversal
/// extension frames: 0-RTT/1-RTT), written down independently: bit 0 = Initial, 1 = Handshake,
/// 2 = 0-RTT, 3 = 1-RTT.
fn spec_pkts(code: u64) -> u8 {
    const I: u8 = 1;
    const H: u8 = 2;
    const Z: u8 = 4;
    const O: u8 = 8;
    match code {
        0x00 | 0x01 => I | H | Z | O,
        0x02 | 0x03 => I | H | O,
        0x04 | 0x05 => Z | O,
        0x06 => I | H | O,
        0x07 => O,
        0x08..=0x0f => Z | O,
        0x10..=0x1a => Z | O,
        0x1b => O,
        0x1c => I | H | Z | O,
        0x1d => Z | O,
        0x1e => O,
        0x30 | 0x31 => Z | O,
        0x3d7e90..=0x3d7e96 => Z | O,
        _ => 0,
    }
}

fn known_code(code: u64) -> bool {
    code <= 0x1e || code == 0x30 || code == 0x31 || (code >= 0x3d7e90 && code <= 0x3d7e96)
}

/// C03 frame type, total over every 62-bit value: `FrameType::try_from` accepts exactly the 38
/// assigned code points, the accepted type maps back to the same code point
/// (`VarInt::from(FrameType)`), everything else is `InvalidType(value)`; `belongs_to` is total and
/// equals RFC 9000 Table 3 for every packet type (incl. Retry / Version Negotiation: nothing).
#[kani::proof]
#[kani::stub(core::slice::index::slice_index_fail, stub_slice_index_fail)]
#[kani::unwind(10)]
fn c03_frame_type_total() {
    let x: u64 = kani::any();
    kani::assume(x <= VARINT_MAX);
    let v = unsafe { VarInt::from_u64_unchecked(x) };
    match FrameType::try_from(v) {
        Ok(ty) => {
            assert!(known_code(x), "unknown frame type accepted");
            let back: VarInt = ty.into();
            assert!(back == v, "type -> code point inverts code point -> type");
            let pt = any_packet_type();
            let bit = match pt {
                Type::Long(LongType::V1(t)) if t == Ver1::INITIAL => 1u8,
                Type::Long(LongType::V1(t)) if t == Ver1::HANDSHAKE => 2,
                Type::Long(LongType::V1(t)) if t == Ver1::ZERO_RTT => 4,
                Type::Short(_) => 8,
                _ => 0,
            };
            assert!(ty.belongs_to(pt) == (spec_pkts(x) & bit != 0), "RFC 9000 Table 3");
            // specs(): ack-eliciting / congestion / probing / flow-control marks of Table 3
            let s = ty.specs();
            assert!(s.contain(Spec::NonAckEliciting) == matches!(x, 0x00 | 0x02 | 0x03 | 0x1c | 0x1d | 0x3d7e95 | 0x3d7e96));
            assert!(s.contain(Spec::FlowControlled) == (x >= 0x08 && x <= 0x0f));
            assert!(s.contain(Spec::ProbeNewPath) == matches!(x, 0x00 | 0x18 | 0x1a | 0x1b));
            kani::cover!(x == 0x3d7e96);
            kani::cover!(x == 0x1d && bit == 1, "app close in Initial: not allowed");
            kani::cover!(x == 0x0f && bit == 4);
        }
        Err(e) => {
            assert!(!known_code(x), "assigned frame type rejected");
            assert!(e == Error::InvalidType(v));
            kani::cover!(x == 0x1f);
            kani::cover!(x == 0x3d7e97);
            kani::cover!(x == VARINT_MAX);
            core::mem::forget(e);
        }
    }
}

/// C03 be_frame_type on every byte string of length 0..=8: it is exactly be_varint followed by
/// FrameType::try_from; truncated -> Error(IncompleteType), unknown -> Error(InvalidType(value));
/// never Incomplete (be_frame's `?` conversion has `unreachable!` there) and never Failure.
#[kani::proof]
#[kani::stub(core::slice::index::slice_index_fail, stub_slice_index_fail)]
#[kani::unwind(10)]
#[kani::stub(alloc::fmt::format, stub_fmt)]
fn c03_frame_type_any_bytes() {
    let (arr, len) = any_input::<8>();
    let reference = ref_varint(&arr, 0, len);
    match be_frame_type(&arr[..len]) {
        Ok((remain, ty)) => match reference {
            Some((x, end)) => {
                assert!(known_code(x));
                assert!(remain.len() == len - end);
                let back: VarInt = ty.into();
                assert!(back.into_u64() == x);
                kani::cover!(end == 4 && x == 0x3d7e90);
                kani::cover!(end == 8 && x == 1, "non-minimal encoding of PING accepted");
            }
            None => panic!("truncated frame type accepted"),
        },
        Err(nom::Err::Error(e)) => {
            match &e {
                Error::IncompleteType(_) => assert!(reference.is_none()),
                Error::InvalidType(v) => match reference {
                    Some((x, _)) => assert!(v.into_u64() == x && !known_code(x)),
                    None => panic!("InvalidType for a truncated varint"),
                },
                _ => panic!("unexpected error variant"),
            }
            kani::cover!(matches!(e, Error::IncompleteType(_)));
            kani::cover!(matches!(e, Error::InvalidType(_)));
            core::mem::forget(e);
        }
        Err(e) => {
            core::mem::forget(e);
            panic!("be_frame_type reports only nom::Err::Error")
        }
    }
}

// ------------------------------------------------------------------------------------------------
// frames made of varints only

/// Reference: k consecutive varints starting at 0. Returns values and end position.
fn ref_varints<const N: usize, const K: usize>(a: &[u8; N], len: usize) -> Option<([u64; K], usize)> {
    let mut vals = [0u64; K];
    let mut pos = 0;
    let mut i = 0;
    while i < K {
        match ref_varint(a, pos, len) {
            Some((v, p)) => {
                vals[i] = v;
                pos = p;
            }
            None => return None,
        }
        i += 1;
    }
    Some((vals, pos))
}

fn p_max_data<const N: usize>() {
    let (arr, len) = any_input::<N>();
    let r = ref_varints::<N, 1>(&arr, len);
    if let Some(f) = verdict(be_max_data_frame(&arr[..len]), len, r.map(|x| x.1)) {
        assert!(f.max_data() == r.unwrap().0[0]);
        kani::cover!(len == N && f.max_data() > 0xffff);
    }
}

fn p_data_blocked<const N: usize>() {
    let (arr, len) = any_input::<N>();
    let r = ref_varints::<N, 1>(&arr, len);
    if let Some(f) = verdict(be_data_blocked_frame(&arr[..len]), len, r.map(|x| x.1)) {
        assert!(f.limit() == r.unwrap().0[0]);
        kani::cover!(len == 1);
    }
}

fn p_retire_cid<const N: usize>() {
    let (arr, len) = any_input::<N>();
    let r = ref_varints::<N, 1>(&arr, len);
    if let Some(f) = verdict(be_retire_connection_id_frame(&arr[..len]), len, r.map(|x| x.1)) {
        assert!(f.sequence() == r.unwrap().0[0]);
        kani::cover!(len == 2);
    }
}

fn p_remove_address<const N: usize>() {
    let (arr, len) = any_input::<N>();
    let r = ref_varints::<N, 1>(&arr, len);
    if let Some(f) = verdict(be_remove_address_frame(&arr[..len]), len, r.map(|x| x.1)) {
        assert!(f.seq_num.into_u64() == r.unwrap().0[0]);
        kani::cover!(len == 4);
    }
}

/// MAX_STREAMS: values above 2^60-1 are an error (RFC 9000 §19.11: FRAME_ENCODING_ERROR).
fn p_max_streams<const N: usize>() {
    let (arr, len) = any_input::<N>();
    let dir = if kani::any() { Dir::Bi } else { Dir::Uni };
    let r = ref_varints::<N, 1>(&arr, len);
    let expect = match r {
        Some((v, end)) if v[0] <= MAX_STREAMS_LIMIT => Some(end),
        _ => None,
    };
    kani::cover!(r.is_some() && expect.is_none(), "over-limit MAX_STREAMS");
    if let Some(f) = verdict(max_streams_frame_with_dir(dir)(&arr[..len]), len, expect) {
        let v = unsafe { VarInt::from_u64_unchecked(r.unwrap().0[0]) };
        assert!(f == MaxStreamsFrame::with(dir, v));
        kani::cover!(dir == Dir::Uni && len == 8);
    }
}

fn p_streams_blocked<const N: usize>() {
    let (arr, len) = any_input::<N>();
    let dir = if kani::any() { Dir::Bi } else { Dir::Uni };
    let r = ref_varints::<N, 1>(&arr, len);
    // RFC 9000 §19.14: values above 2^60-1 are an error, as for MAX_STREAMS (unbounded on the pinned tree:
    // genuine defect, fixed in /repo)
    let expect = match r {
        Some((v, end)) if v[0] <= MAX_STREAMS_LIMIT => Some(end),
        _ => None,
    };
    if let Some(f) = verdict(streams_blocked_frame_with_dir(dir)(&arr[..len]), len, expect) {
        let v = unsafe { VarInt::from_u64_unchecked(r.unwrap().0[0]) };
        assert!(f == StreamsBlockedFrame::with(dir, v));
        kani::cover!(dir == Dir::Bi && len == 8);
    }
}

fn p_reset_stream<const N: usize>() {
    let (arr, len) = any_input::<N>();
    let r = ref_varints::<N, 3>(&arr, len);
    if let Some(f) = verdict(be_reset_stream_frame(&arr[..len]), len, r.map(|x| x.1)) {
        let v = r.unwrap().0;
        let sid: u64 = f.stream_id().into();
        assert!(sid == v[0] && f.app_error_code() == v[1] && f.final_size() == v[2]);
        kani::cover!(len == N);
        kani::cover!(len == 3);
    }
}

fn p_stop_sending<const N: usize>() {
    let (arr, len) = any_input::<N>();
    let r = ref_varints::<N, 2>(&arr, len);
    if let Some(f) = verdict(be_stop_sending_frame(&arr[..len]), len, r.map(|x| x.1)) {
        let v = r.unwrap().0;
        let sid: u64 = f.stream_id().into();
        assert!(sid == v[0] && f.app_err_code() == v[1]);
        kani::cover!(len == N);
    }
}

fn p_max_stream_data<const N: usize>() {
    let (arr, len) = any_input::<N>();
    let r = ref_varints::<N, 2>(&arr, len);
    if let Some(f) = verdict(be_max_stream_data_frame(&arr[..len]), len, r.map(|x| x.1)) {
        let v = r.unwrap().0;
        let sid: u64 = f.stream_id().into();
        assert!(sid == v[0] && f.max_stream_data() == v[1]);
        kani::cover!(len == N);
    }
}

fn p_stream_data_blocked<const N: usize>() {
    let (arr, len) = any_input::<N>();
    let r = ref_varints::<N, 2>(&arr, len);
    if let Some(f) = verdict(be_stream_data_blocked_frame(&arr[..len]), len, r.map(|x| x.1)) {
        let v = r.unwrap().0;
        let sid: u64 = f.stream_id().into();
        assert!(sid == v[0] && f.maximum_stream_data() == v[1]);
        kani::cover!(len == N);
    }
}

fn p_punch_hello<const N: usize>() {
    let (arr, len) = any_input::<N>();
    let r = ref_varints::<N, 3>(&arr, len);
    if let Some(f) = verdict(be_punch_hello_frame(&arr[..len]), len, r.map(|x| x.1)) {
        let v = r.unwrap().0;
        assert!(f.local_seq() == v[0] as u32 && f.remote_seq() == v[1] as u32 && f.probe_id() == v[2] as u32);
        kani::cover!(len == N);
    }
}

fn p_punch_done<const N: usize>() {
    let (arr, len) = any_input::<N>();
    let r = ref_varints::<N, 3>(&arr, len);
    if let Some(f) = verdict(be_punch_done_frame(&arr[..len]), len, r.map(|x| x.1)) {
        let v = r.unwrap().0;
        assert!(f.local_seq() == v[0] as u32 && f.remote_seq() == v[1] as u32 && f.probe_id() == v[2] as u32);
        kani::cover!(len == N);
    }
}

// ------------------------------------------------------------------------------------------------
// fixed-size byte fields

/// PATH_CHALLENGE / PATH_RESPONSE: exactly 8 bytes.
fn p_path_frames<const N: usize>() {
    let (arr, len) = any_input::<N>();
    let expect = if len >= 8 { Some(8) } else { None };
    if kani::any() {
        if let Some(f) = verdict(be_path_challenge_frame(&arr[..len]), len, expect) {
            let mut i = 0;
            while i < 8 {
                assert!(f[i] == arr[i]);
                i += 1;
            }
            kani::cover!(len == N);
        }
    } else if let Some(f) = verdict(be_path_response_frame(&arr[..len]), len, expect) {
        let mut i = 0;
        while i < 8 {
            assert!(f[i] == arr[i]);
            i += 1;
        }
        kani::cover!(len == 8);
    }
}

/// NEW_CONNECTION_ID: seq, retire_prior_to <= seq, cid length 1..=20, cid, 16-byte token
/// (RFC 9000 §19.15: anything else is a FRAME_ENCODING_ERROR).
fn p_new_connection_id<const N: usize>() {
    let (arr, len) = any_input::<N>();
    let mut expect = None;
    let mut fields = (0u64, 0u64, 0usize, 0usize);
    if let Some((v, p)) = ref_varints::<N, 2>(&arr, len) {
        if v[1] <= v[0] && p < len {
            let cl = arr[p] as usize;
            if cl >= 1 && cl <= 20 && len - (p + 1) >= cl + 16 {
                expect = Some(p + 1 + cl + 16);
                fields = (v[0], v[1], p + 1, cl);
            }
        }
    }
    if let Some(f) = verdict(be_new_connection_id_frame(&arr[..len]), len, expect) {
        assert!(f.sequence() == fields.0 && f.retire_prior_to() == fields.1);
        assert!(f.connection_id().len as usize == fields.3);
        let probe: usize = kani::any();
        if probe < fields.3 {
            assert!(f.connection_id().bytes[probe] == arr[fields.2 + probe]);
        }
        let t: usize = kani::any();
        kani::assume(t < 16);
        let tok: &[u8; 16] = f.reset_token();
        assert!(tok[t] == arr[fields.2 + fields.3 + t]);
        kani::cover!(len == N && fields.3 > 1);
        kani::cover!(fields.0 > 63);
    }
}

/// ADD_ADDRESS: seq, port(16), ip(32|128), tire, nat type (0..=5).
/// The NAT type must be in 0..=5 as a full varint (values >= 0x100 used to be truncated with `as u8`:
/// genuine defect, fixed in /repo; `c03_nat_type_range` keeps the 2-byte-varint case explicit).
fn p_add_address<const N: usize>() {
    let (arr, len) = any_input::<N>();
    let v6: bool = kani::any();
    let fam = if v6 { Family::V6 } else { Family::V4 };
    let alen = if v6 { 18 } else { 6 };
    let mut expect = None;
    let mut fields = (0u64, 0usize, 0u64, 0u64);
    if let Some((seq, p)) = ref_varint(&arr, 0, len) {
        if len - p >= alen {
            if let Some((tire, q)) = ref_varint(&arr, p + alen, len) {
                if let Some((nat, e)) = ref_varint(&arr, q, len) {
                    if nat <= 5 {
                        expect = Some(e);
                        fields = (seq, p, tire, nat);
                    }
                }
            }
        }
    }
    if let Some(f) = verdict(be_add_address_frame(fam)(&arr[..len]), len, expect) {
        assert!(f.seq_num() == fields.0 as u32 && f.tire() == fields.2 as u32);
        assert!(f.nat_type() as u8 == fields.3 as u8);
        let p = fields.1;
        assert!(f.port() == u16::from_be_bytes([arr[p], arr[p + 1]]));
        match f.ip() {
            std::net::IpAddr::V4(ip) => {
                assert!(!v6);
                assert!(ip.octets() == [arr[p + 2], arr[p + 3], arr[p + 4], arr[p + 5]]);
            }
            std::net::IpAddr::V6(ip) => {
                assert!(v6);
                let o = ip.octets();
                let k: usize = kani::any();
                kani::assume(k < 16);
                assert!(o[k] == arr[p + 2 + k]);
            }
        }
        kani::cover!(v6);
        kani::cover!(!v6 && len == 9);
    }
}

/// PUNCH_ME_NOW: local_seq, remote_seq, port, ip, tire, nat type.
fn p_punch_me_now<const N: usize>() {
    let (arr, len) = any_input::<N>();
    let v6: bool = kani::any();
    let fam = if v6 { Family::V6 } else { Family::V4 };
    let alen = if v6 { 18 } else { 6 };
    let mut expect = None;
    let mut fields = (0u64, 0u64, 0usize, 0u64, 0u64);
    if let Some((v, p)) = ref_varints::<N, 2>(&arr, len) {
        if len - p >= alen {
            if let Some((tire, q)) = ref_varint(&arr, p + alen, len) {
                if let Some((nat, e)) = ref_varint(&arr, q, len) {
                    if nat <= 5 {
                        expect = Some(e);
                        fields = (v[0], v[1], p, tire, nat);
                    }
                }
            }
        }
    }
    if let Some(f) = verdict(be_punch_me_now_frame(fam)(&arr[..len]), len, expect) {
        assert!(f.local_seq() == fields.0 as u32 && f.remote_seq() == fields.1 as u32);
        assert!(f.tire() == fields.3 as u32 && f.nat_type() as u8 == fields.4 as u8);
        let p = fields.2;
        assert!(f.address().port() == u16::from_be_bytes([arr[p], arr[p + 1]]));
        assert!(f.address().is_ipv6() == v6);
        if let std::net::IpAddr::V4(ip) = f.address().ip() {
            assert!(ip.octets() == [arr[p + 2], arr[p + 3], arr[p + 4], arr[p + 5]]);
        }
        kani::cover!(v6);
        kani::cover!(!v6 && len == 10);
    }
}

// ------------------------------------------------------------------------------------------------
// length-prefixed byte fields

/// NEW_TOKEN: length varint + that many bytes.
fn p_new_token<const N: usize>() {
    let (arr, len) = any_input::<N>();
    let mut expect = None;
    let mut fields = (0usize, 0usize);
    if let Some((tl, p)) = ref_varint(&arr, 0, len) {
        if tl <= (len - p) as u64 {
            expect = Some(p + tl as usize);
            fields = (p, tl as usize);
        }
    }
    if let Some(f) = verdict(be_new_token_frame(&arr[..len]), len, expect) {
        assert!(f.token().len() == fields.1);
        let k: usize = kani::any();
        if k < fields.1 {
            assert!(f.token()[k] == arr[fields.0 + k]);
        }
        kani::cover!(fields.1 == N - 1);
        kani::cover!(fields.1 == 0, "empty token parses (rejected later by the token registry)");
        core::mem::forget(f);
    }
}

/// CONNECTION_CLOSE 0x1d: error code, reason length, reason bytes (any bytes: lossy UTF-8).
fn p_close_app<const N: usize>(real_lossy: bool) {
    let (arr, len) = any_input::<N>();
    let mut expect = None;
    let mut fields = (0u64, 0usize, 0usize);
    if let Some((code, p)) = ref_varint(&arr, 0, len) {
        if let Some((rl, q)) = ref_varint(&arr, p, len) {
            if rl <= (len - q) as u64 {
                expect = Some(q + rl as usize);
                fields = (code, q, rl as usize);
            }
        }
    }
    if let Some(f) = verdict(connection_close_frame_at_layer(Layer::App)(&arr[..len]), len, expect) {
        match &f {
            ConnectionCloseFrame::App(a) => {
                assert!(a.error_code() == fields.0);
                // ASCII reason survives byte for byte
                if real_lossy && fields.2 == 1 && arr[fields.1] < 0x80 {
                    assert!(a.reason().len() == 1 && a.reason().as_bytes()[0] == arr[fields.1]);
                }
                kani::cover!(fields.2 == 0);
                kani::cover!(fields.2 >= 2);
            }
            _ => panic!("layer changed"),
        }
        core::mem::forget(f);
    }
}

fn known_error_code(c: u64) -> bool {
    c <= 0x10 || (c >= 0x100 && c <= 0x1ff)
}

/// CONNECTION_CLOSE 0x1c: error code (must be a registered transport error code), frame type
/// (must be a known frame type), reason length, reason bytes.
fn p_close_quic<const N: usize>() {
    let (arr, len) = any_input::<N>();
    let mut expect = None;
    let mut fields = (0u64, 0u64, 0usize);
    if let Some((code, p)) = ref_varint(&arr, 0, len) {
        if known_error_code(code) {
            if let Some((fty, q)) = ref_varint(&arr, p, len) {
                if known_code(fty) {
                    if let Some((rl, e)) = ref_varint(&arr, q, len) {
                        if rl <= (len - e) as u64 {
                            expect = Some(e + rl as usize);
                            fields = (code, fty, rl as usize);
                        }
                    }
                }
            }
        }
    }
    if let Some(f) = verdict(connection_close_frame_at_layer(Layer::Quic)(&arr[..len]), len, expect) {
        match &f {
            ConnectionCloseFrame::Quic(q) => {
                assert!(VarInt::from(q.error_kind()).into_u64() == fields.0);
                assert!(VarInt::from(q.frame_type()).into_u64() == fields.1);
                kani::cover!(fields.2 >= 1);
                kani::cover!(fields.0 == 0x1ff);
            }
            _ => panic!("layer changed"),
        }
        core::mem::forget(f);
    }
}

// ------------------------------------------------------------------------------------------------
// ACK

/// ACK (0x02 / 0x03): largest, delay, range count, first range, count x (gap, length), [3 ECN counts].
/// A range count larger than what the bytes hold is an error (the loop stops at the first
/// missing varint: work is bounded by the input length, not by the attacker's count).
fn p_ack<const N: usize, const MAXR: usize>() {
    let (arr, len) = any_input::<N>();
    let ecn = if kani::any() { Ecn::Exist } else { Ecn::None };
    let mut expect = None;
    let mut head = [0u64; 4];
    let mut pairs = [(0u64, 0u64); MAXR];
    let mut ecnv = [0u64; 3];
    if let Some((h, mut pos)) = ref_varints::<N, 4>(&arr, len) {
        head = h;
        let count = h[2];
        if count <= MAXR as u64 {
            let mut ok = true;
            let mut i = 0;
            while i < MAXR {
                if ok && (i as u64) < count {
                    match ref_varint(&arr, pos, len) {
                        Some((g, p1)) => match ref_varint(&arr, p1, len) {
                            Some((a, p2)) => {
                                pairs[i] = (g, a);
                                pos = p2;
                            }
                            None => ok = false,
                        },
                        None => ok = false,
                    }
                }
                i += 1;
            }
            if ok && ecn == Ecn::Exist {
                let mut j = 0;
                while j < 3 {
                    if ok {
                        match ref_varint(&arr, pos, len) {
                            Some((c, p)) => {
                                ecnv[j] = c;
                                pos = p;
                            }
                            None => ok = false,
                        }
                    }
                    j += 1;
                }
            }
            if ok {
                expect = Some(pos);
            }
        }
        // count > MAXR: 2*count varints cannot fit in N - 4 bytes (MAXR = (N-4)/2) -> error
    }
    if let Some(f) = verdict(ack_frame_with_ecn(ecn)(&arr[..len]), len, expect) {
        assert!(f.largest() == head[0] && f.delay() == head[1] && f.first_range() == head[3]);
        assert!(f.ranges().len() as u64 == head[2]);
        let mut i = 0;
        while i < MAXR {
            if (i as u64) < head[2] {
                let (g, a) = f.ranges()[i];
                assert!(g.into_u64() == pairs[i].0 && a.into_u64() == pairs[i].1);
            }
            i += 1;
        }
        match f.ecn() {
            Some(e) => {
                assert!(ecn == Ecn::Exist);
                assert!(e.ect0() == ecnv[0] && e.ect1() == ecnv[1] && e.ce() == ecnv[2]);
            }
            None => assert!(ecn == Ecn::None),
        }
        kani::cover!(head[2] == MAXR as u64 && ecn == Ecn::None, "as many ranges as the bound allows");
        kani::cover!(head[2] == 0 && ecn == Ecn::Exist);
        core::mem::forget(f);
    } else {
        kani::cover!(head[2] > MAXR as u64, "a range count beyond what the bytes hold is just an error");
    }
}

// ------------------------------------------------------------------------------------------------
// STREAM / CRYPTO / DATAGRAM headers

/// STREAM header for every flag combination. offset + length > 2^62-1 is an error (RFC 9000 §19.8).
fn p_stream<const N: usize>() {
    let (arr, len) = any_input::<N>();
    let off = if kani::any() { Offset::NonZero } else { Offset::Zero };
    let l = if kani::any() { Len::Explicit } else { Len::Omit };
    let fin = if kani::any() { Fin::Yes } else { Fin::No };
    let mut expect = None;
    let mut fields = (0u64, 0u64, 0u64);
    if let Some((sid, p)) = ref_varint(&arr, 0, len) {
        let o = if off == Offset::NonZero { ref_varint(&arr, p, len) } else { Some((0, p)) };
        if let Some((offset, q)) = o {
            let ll = if l == Len::Explicit { ref_varint(&arr, q, len) } else { Some(((len - q) as u64, q)) };
            if let Some((length, e)) = ll {
                if offset + length <= VARINT_MAX {
                    expect = Some(e);
                    fields = (sid, offset, length);
                }
            }
        }
    }
    if let Some(f) = verdict(stream_frame_with_flag(off, l, fin)(&arr[..len]), len, expect) {
        let sid: u64 = f.stream_id().into();
        assert!(sid == fields.0 && f.offset() == fields.1 && f.len() as u64 == fields.2);
        assert!(f.is_fin() == (fin == Fin::Yes));
        assert!(f.range().end == fields.1 + fields.2 && f.range().end <= VARINT_MAX);
        kani::cover!(off == Offset::NonZero && l == Len::Explicit && fin == Fin::Yes);
        kani::cover!(l == Len::Omit && fields.2 > 0);
    } else {
        kani::cover!(len == N && off == Offset::NonZero && l == Len::Explicit, "offset + length overflow rejected");
    }
}

/// CRYPTO header. `strict` = the RFC 9000 §19.6 rule (offset + length <= 2^62-1) as oracle (always
/// used now; `false` = the rule the pinned tree implemented by mistake, 2*offset <= 2^62-1).
fn p_crypto<const N: usize>(strict: bool) {
    let (arr, len) = any_input::<N>();
    let mut expect = None;
    let mut fields = (0u64, 0u64);
    if let Some((v, e)) = ref_varints::<N, 2>(&arr, len) {
        let ok = if strict { v[0] + v[1] <= VARINT_MAX } else { v[0] + v[0] <= VARINT_MAX };
        if ok {
            expect = Some(e);
            fields = (v[0], v[1]);
        }
    }
    if let Some(f) = verdict(be_crypto_frame(&arr[..len]), len, expect) {
        assert!(f.offset() == fields.0 && f.len() == fields.1);
        kani::cover!(len == N);
    }
}

/// DATAGRAM header: with length (0x31) a varint; without (0x30) the rest of the packet.
fn p_datagram<const N: usize>() {
    let (arr, len) = any_input::<N>();
    let with_len: bool = kani::any();
    let r = if with_len { ref_varint(&arr, 0, len) } else { Some((len as u64, 0)) };
    if let Some(f) = verdict(datagram_frame_with_flag(with_len as u8)(&arr[..len]), len, r.map(|x| x.1)) {
        assert!(f.encode_len() == with_len && f.len().into_u64() == r.unwrap().0);
        kani::cover!(with_len && len == 8);
        kani::cover!(!with_len && len == 0);
    }
}

// ------------------------------------------------------------------------------------------------
// Verified model of `be_varint` (see frames_c05.rs for the rationale): the real bit-level nom
// parser costs 20-40 s of solver time per call. `model_be_varint` is proved equal to it on every
// input (`c03_varint_model_equivalence`); the quick tier runs the frame-parser harnesses with the
// model stubbed in, the thorough tier runs the SAME bodies on the real parser (`*_real`) and on
// larger byte bounds.

pub(crate) fn model_be_varint(input: &[u8]) -> nom::IResult<&[u8], VarInt> {
    if input.is_empty() {
        return Err(nom::Err::Incomplete(nom::Needed::new(1)));
    }
    let b0 = input[0];
    let n = 1usize << (b0 >> 6);
    if input.len() < n {
        return Err(nom::Err::Incomplete(nom::Needed::new(n - input.len())));
    }
    // loop-free on purpose: harnesses with the model stubbed in can use small unwind bounds
    let mut v = (b0 & 0x3f) as u64;
    if n >= 2 {
        v = (v << 8) | input[1] as u64;
    }
    if n >= 4 {
        v = (v << 8) | input[2] as u64;
        v = (v << 8) | input[3] as u64;
    }
    if n == 8 {
        v = (v << 8) | input[4] as u64;
        v = (v << 8) | input[5] as u64;
        v = (v << 8) | input[6] as u64;
        v = (v << 8) | input[7] as u64;
    }
    // SAFETY: v < 2^62 (6 + 7*8 bits)
    Ok((&input[n..], unsafe { VarInt::from_u64_unchecked(v) }))
}

/// C03: the model equals the real `be_varint` — same value, same remaining slice, same
/// `Incomplete(Needed)` — on every byte string of length 0..=16.
#[kani::proof]
#[kani::stub(core::slice::index::slice_index_fail, stub_slice_index_fail)]
#[kani::unwind(10)]
fn c03_varint_model_equivalence() {
    let (arr, len) = any_input::<16>();
    let input = &arr[..len];
    match (be_varint(input), model_be_varint(input)) {
        (Ok((r1, v1)), Ok((r2, v2))) => {
            assert!(v1 == v2, "same value");
            assert!(r1.len() == r2.len() && r1.as_ptr() == r2.as_ptr(), "same remaining slice");
            kani::cover!(r1.len() == 8 && len == 16);
        }
        (Err(nom::Err::Incomplete(n1)), Err(nom::Err::Incomplete(n2))) => {
            assert!(n1 == n2, "same number of missing bytes");
            kani::cover!(len == 7);
            kani::cover!(len == 0);
        }
        (a, b) => {
            core::mem::forget(a);
            core::mem::forget(b);
            panic!("model and real be_varint disagree")
        }
    }
}

/// `dual!(quick_name, real_name, unwind, body)`: registers `body` with the verified be_varint model
/// stubbed in (quick tier) and on the real nom parser (thorough tier).
macro_rules! dual {
    ($(#[$doc:meta])* $quick:ident, $real:ident, $unwind:expr, $unwind_real:expr, $body:block) => {
        $(#[$doc])*
        #[kani::proof]
        #[kani::stub(core::slice::index::slice_index_fail, stub_slice_index_fail)]
#[kani::stub(core::slice::index::slice_index_fail, stub_slice_index_fail)]
        #[kani::unwind($unwind)]
        #[kani::stub(crate::varint::be_varint, model_be_varint)]
        #[kani::stub(alloc::fmt::format, stub_fmt)]
        fn $quick() $body

        $(#[$doc])*
        #[kani::proof]
        #[kani::stub(core::slice::index::slice_index_fail, stub_slice_index_fail)]
#[kani::stub(core::slice::index::slice_index_fail, stub_slice_index_fail)]
        #[kani::unwind($unwind_real)]
        #[kani::stub(alloc::fmt::format, stub_fmt)]
        fn $real() $body
    };
}

/// stubbed only (larger byte bounds, thorough tier)
macro_rules! modelled {
    ($(#[$doc:meta])* $name:ident, $unwind:expr, $body:block) => {
        $(#[$doc])*
        #[kani::proof]
        #[kani::stub(core::slice::index::slice_index_fail, stub_slice_index_fail)]
#[kani::stub(core::slice::index::slice_index_fail, stub_slice_index_fail)]
        #[kani::unwind($unwind)]
        #[kani::stub(crate::varint::be_varint, model_be_varint)]
        #[kani::stub(alloc::fmt::format, stub_fmt)]
        fn $name() $body
    };
}

// ------------------------------------------------------------------------------------------------
// registered harnesses

dual! {
    /// C03 MAX_DATA, DATA_BLOCKED, RETIRE_CONNECTION_ID, REMOVE_ADDRESS, MAX_STREAMS,
    /// STREAMS_BLOCKED on every input of <= 8 bytes.
    c03_single_varint_parsers, c03_single_varint_parsers_real, 10, 10, {
        let which: u8 = kani::any();
        match which % 6 {
            0 => p_max_data::<8>(),
            1 => p_data_blocked::<8>(),
            2 => p_retire_cid::<8>(),
            3 => p_remove_address::<8>(),
            4 => p_max_streams::<8>(),
            _ => p_streams_blocked::<8>(),
        }
    }
}

dual! {
    /// C03 RESET_STREAM, STOP_SENDING, MAX_STREAM_DATA, STREAM_DATA_BLOCKED on every input of <= 8 bytes.
    c03_stream_ctl_parsers, c03_stream_ctl_parsers_real, 10, 10, {
        let which: u8 = kani::any();
        match which % 4 {
            0 => p_reset_stream::<8>(),
            1 => p_stop_sending::<8>(),
            2 => p_max_stream_data::<8>(),
            _ => p_stream_data_blocked::<8>(),
        }
    }
}

dual! {
    /// C03 PUNCH_HELLO, PUNCH_DONE on every input of <= 8 bytes.
    c03_punch_parsers, c03_punch_parsers_real, 10, 10, {
        if kani::any() {
            p_punch_hello::<8>()
        } else {
            p_punch_done::<8>()
        }
    }
}

/// C03 PATH_CHALLENGE / PATH_RESPONSE on every input of <= 10 bytes.
#[kani::proof]
#[kani::stub(core::slice::index::slice_index_fail, stub_slice_index_fail)]
#[kani::unwind(12)]
fn c03_path_parsers() {
    p_path_frames::<10>()
}

dual! {
    /// C03 NEW_CONNECTION_ID on every input of <= 24 bytes (cid up to 5 bytes with 1-byte varints).
    c03_new_connection_id_parser, c03_new_connection_id_parser_real, 22, 22, { p_new_connection_id::<24>() }
}

dual! {
    /// C03 ADD_ADDRESS (v4 / v6) on every input of <= 22 bytes whose NAT-type varint is < 256.
    c03_add_address_parser, c03_add_address_parser_real, 18, 18, { p_add_address::<22>() }
}

dual! {
    /// C03 PUNCH_ME_NOW (v4 / v6) on every input of <= 24 bytes whose NAT-type varint is < 256.
    c03_punch_me_now_parser, c03_punch_me_now_parser_real, 18, 18, { p_punch_me_now::<24>() }
}

dual! {
    /// C03 NEW_TOKEN on every input of <= 8 bytes.
    c03_new_token_parser, c03_new_token_parser_real, 12, 12, { p_new_token::<8>() }
}

/// C03 CONNECTION_CLOSE (0x1d) and (0x1c) on every input of <= 8 bytes (reason: any bytes; std's
/// from_utf8_lossy stubbed, be_varint model).
#[kani::proof]
#[kani::stub(core::slice::index::slice_index_fail, stub_slice_index_fail)]
#[kani::unwind(10)]
#[kani::stub(crate::varint::be_varint, model_be_varint)]
#[kani::stub(alloc::fmt::format, stub_fmt)]
#[kani::stub(std::string::String::from_utf8_lossy, stub_from_utf8_lossy)]
fn c03_close_parsers() {
    if kani::any() {
        p_close_app::<8>(false)
    } else {
        p_close_quic::<8>()
    }
}

/// Same on the real nom be_varint (thorough).
#[kani::proof]
#[kani::stub(core::slice::index::slice_index_fail, stub_slice_index_fail)]
#[kani::unwind(10)]
#[kani::stub(alloc::fmt::format, stub_fmt)]
#[kani::stub(std::string::String::from_utf8_lossy, stub_from_utf8_lossy)]
fn c03_close_parsers_real() {
    if kani::any() {
        p_close_app::<8>(false)
    } else {
        p_close_quic::<8>()
    }
}

dual! {
    /// C03 ACK (both types) on every input of <= 8 bytes (up to 2 ranges).
    c03_ack_parser, c03_ack_parser_real, 6, 10, { p_ack::<8, 2>() }
}

dual! {
    /// C03 STREAM header (all 8 flag combinations) on every input of <= 8 bytes.
    c03_stream_parser, c03_stream_parser_real, 10, 10, { p_stream::<8>() }
}

dual! {
    /// C03 CRYPTO and DATAGRAM headers on every input of <= 8 bytes. CRYPTO oracle = RFC 9000
    /// §19.6 (offset + length <= 2^62-1).
    c03_crypto_datagram_parsers, c03_crypto_datagram_parsers_real, 10, 10, {
        if kani::any() {
            p_crypto::<8>(true)
        } else {
            p_datagram::<8>()
        }
    }
}

// ---- larger byte bounds (thorough tier, be_varint model) ----

modelled! {
    /// C03 single-varint frames on every input of <= 9 bytes; two-varint frames <= 16; three-varint
    /// frames <= 24 (every field can be an 8-byte varint).
    c03_varint_frames_parsers_wide, 10, {
        let which: u8 = kani::any();
        match which % 12 {
            0 => p_max_data::<9>(),
            1 => p_data_blocked::<9>(),
            2 => p_retire_cid::<9>(),
            3 => p_remove_address::<9>(),
            4 => p_max_streams::<9>(),
            5 => p_streams_blocked::<9>(),
            6 => p_reset_stream::<24>(),
            7 => p_stop_sending::<16>(),
            8 => p_max_stream_data::<16>(),
            9 => p_stream_data_blocked::<16>(),
            10 => p_punch_hello::<24>(),
            _ => p_punch_done::<24>(),
        }
    }
}

modelled! {
    /// C03 NEW_CONNECTION_ID on every input of <= 40 bytes (cid up to 20 bytes).
    c03_new_connection_id_parser_n40, 22, { p_new_connection_id::<40>() }
}

modelled! {
    /// C03 ADD_ADDRESS <= 36 bytes / PUNCH_ME_NOW <= 44 bytes (all fields at maximum width, IPv6).
    c03_address_parsers_wide, 18, {
        if kani::any() {
            p_add_address::<36>()
        } else {
            p_punch_me_now::<44>()
        }
    }
}

/// C03 NEW_TOKEN, CONNECTION_CLOSE (both layers) on every input of <= 16 bytes (thorough;
/// from_utf8_lossy stubbed).
#[kani::proof]
#[kani::stub(core::slice::index::slice_index_fail, stub_slice_index_fail)]
#[kani::unwind(20)]
#[kani::stub(crate::varint::be_varint, model_be_varint)]
#[kani::stub(alloc::fmt::format, stub_fmt)]
#[kani::stub(std::string::String::from_utf8_lossy, stub_from_utf8_lossy)]
fn c03_length_prefixed_parsers_n16() {
    let which: u8 = kani::any();
    match which % 3 {
        0 => p_new_token::<16>(),
        1 => p_close_app::<16>(false),
        _ => p_close_quic::<16>(),
    }
}

modelled! {
    /// C03 ACK (both types) on every input of <= 16 bytes (up to 6 ranges).
    c03_ack_parser_n16, 9, { p_ack::<16, 6>() }
}

modelled! {
    /// C03 STREAM header on every input of <= 24 bytes; CRYPTO (offset + length <= 2^62-1) <= 16; DATAGRAM <= 16.
    c03_data_header_parsers_wide, 10, {
        let which: u8 = kani::any();
        match which % 3 {
            0 => p_stream::<24>(),
            1 => p_crypto::<16>(true),
            _ => p_datagram::<16>(),
        }
    }
}

// ---- former defects (fixed in /repo; the harnesses stay so that a regression is reported) ----

/// C03 (genuine defect on the pinned tree, fixed in /repo): `NatType::try_from(VarInt)` truncated the
/// wire value with `as u8`, so ADD_ADDRESS / PUNCH_ME_NOW with NAT type 0x100, 0x101, ... decoded as
/// Blocked, FullCone, ... instead of being rejected.
#[kani::proof]
#[kani::stub(core::slice::index::slice_index_fail, stub_slice_index_fail)]
#[kani::unwind(10)]
#[kani::stub(crate::varint::be_varint, model_be_varint)]
fn c03_nat_type_range() {
    let (arr, len) = any_input::<12>();
    // seq(1) port+ipv4(6) tire(1) nat(2): a 2-byte NAT type
    kani::assume(len == 10 && arr[0] < 0x40 && arr[7] < 0x40 && arr[8] >> 6 == 1);
    let nat = (((arr[8] & 0x3f) as u64) << 8) | arr[9] as u64;
    match be_add_address_frame(Family::V4)(&arr[..len]) {
        Ok((_, f)) => {
            kani::cover!(true, "parsed");
            assert!(nat <= 5, "NAT type outside 0..=5 accepted");
            assert!(f.nat_type() as u64 == nat);
        }
        Err(e) => {
            core::mem::forget(e);
        }
    }
}

/// C03 (genuine defect on the pinned tree, fixed in /repo): be_crypto_frame checked `offset + offset`
/// instead of `offset + length` against 2^62-1: it accepted CRYPTO headers whose offset + length exceeds
/// 2^62-1 (RFC 9000 §19.6: FRAME_ENCODING_ERROR or CRYPTO_BUFFER_EXCEEDED) and rejected valid
/// ones with offset >= 2^61.
#[kani::proof]
#[kani::stub(core::slice::index::slice_index_fail, stub_slice_index_fail)]
#[kani::unwind(10)]
#[kani::stub(crate::varint::be_varint, model_be_varint)]
fn c03_crypto_offset_check() {
    p_crypto::<16>(true)
}

// ------------------------------------------------------------------------------------------------
// error mapping

fn any_known_frame_type() -> FrameType {
    let k: u8 = kani::any();
    match k % 6 {
        0 => FrameType::Ping,
        1 => FrameType::Ack(Ecn::Exist),
        2 => FrameType::Stream(Offset::NonZero, Len::Explicit, Fin::No),
        3 => FrameType::NewConnectionId,
        4 => FrameType::Datagram(1),
        _ => FrameType::PunchMeNow(Family::V6),
    }
}

/// C03 frame::Error -> QuicError: the connection error kind RFC 9000 prescribes, and the offending
/// frame type is carried over. (§12.4: no frames -> PROTOCOL_VIOLATION; unknown type ->
/// FRAME_ENCODING_ERROR; §19: malformed / truncated frame -> FRAME_ENCODING_ERROR.)
/// `WrongType` is only required here to map into {FRAME_ENCODING_ERROR, PROTOCOL_VIOLATION};
/// the exact RFC kind is the pending twin below.
#[kani::proof]
#[kani::stub(core::slice::index::slice_index_fail, stub_slice_index_fail)]
#[kani::unwind(4)]
#[kani::stub(core::fmt::write, stub_fmt_write)]
fn c03_error_mapping() {
    let fty = any_known_frame_type();
    let which: u8 = kani::any();
    let (e, kind, carried): (Error, ErrorKind, FrameType) = match which % 6 {
        0 => (Error::NoFrames, ErrorKind::ProtocolViolation, FrameType::Padding),
        1 => (Error::IncompleteType(String::new()), ErrorKind::FrameEncoding, FrameType::Padding),
        2 => {
            let v = unsafe { VarInt::from_u64_unchecked(kani::any::<u32>() as u64) };
            (Error::InvalidType(v), ErrorKind::FrameEncoding, FrameType::Padding)
        }
        3 => (Error::IncompleteFrame(fty, String::new()), ErrorKind::FrameEncoding, fty),
        4 => (Error::ParseError(fty, String::new()), ErrorKind::FrameEncoding, fty),
        _ => {
            let q: QuicError = Error::WrongType(fty, any_packet_type()).into();
            assert!(q.kind() == ErrorKind::FrameEncoding || q.kind() == ErrorKind::ProtocolViolation);
            assert!(q.frame_type() == ErrorFrameType::V1(fty));
            kani::cover!(true, "wrong-type branch");
            core::mem::forget(q);
            return;
        }
    };
    let q: QuicError = e.into();
    assert!(q.kind() == kind, "connection error kind prescribed by RFC 9000");
    assert!(q.frame_type() == ErrorFrameType::V1(carried));
    kani::cover!(kind == ErrorKind::ProtocolViolation);
    kani::cover!(carried == FrameType::PunchMeNow(Family::V6));
    core::mem::forget(q);
}

/// C03 (OPEN KNOWN FINDING F-C03-wrong-type-kind — the repo's own unit test
/// `frame::error::tests::test_error_conversion_to_transport_error` pins the current mapping, so it cannot be
/// repaired without editing the suite): RFC 9000 §12.4 "An endpoint MUST treat receipt of a
/// frame in a packet type that is not permitted as a connection error of type PROTOCOL_VIOLATION";
/// `From<frame::Error> for QuicError` maps `WrongType` to FRAME_ENCODING_ERROR.
#[kani::proof]
#[kani::stub(core::slice::index::slice_index_fail, stub_slice_index_fail)]
#[kani::unwind(4)]
#[kani::stub(core::fmt::write, stub_fmt_write)]
fn c03_error_mapping_wrong_type() {
    let fty = any_known_frame_type();
    let q: QuicError = Error::WrongType(fty, any_packet_type()).into();
    kani::cover!(true, "reached");
    assert!(q.kind() == ErrorKind::ProtocolViolation, "frame in a forbidden packet type -> PROTOCOL_VIOLATION");
    core::mem::forget(q);
}
