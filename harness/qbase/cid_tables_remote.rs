// Kani harnesses compiled inside qbase::cid::remote_cid (overlay, cfg(kani) only).
// Property C14, using side: RemoteCids::{new, apply_dcid, apply_initial_dcid, recv_new_cid_frame,
// arrange_idle_cid} and CidCell::{assign, borrow_cid, renew, retire}.
//
// std VecDeque -> verif_model::VecDeque (import swap, DESIGN.md §2.4) in this file and in
// util/index_deque.rs. RETIRED is a harness sink recording every RETIRE_CONNECTION_ID frame.
// std::sync::Mutex::lock is stubbed by try_lock-or-fail (single-threaded harness; see stub_lock).
//
// MEASURED LIMIT (why the table-level harnesses are narrower than DESIGN.md §4 C14 planned): one
// recv_new_cid_frame with symbolic (seq, retire_prior_to) that may take the retire_prior_to branch
// -- drain_to + a for-loop over ready_cells + arrange_idle_cid's loop, each containing
// CidCell::assign's while-loop over the container model's constant-trip loops -- did not finish
// symbolic execution + SAT in 1200 s even from the fresh single-path state (1.0 M SSA steps,
// unwind 6 = model CAP 4 + 2 applied to every nesting level). What IS checked here:
//   * the per-path cell (CidCell) by one inductive step from an arbitrary valid cell state;
//   * the table for NEW_CONNECTION_ID frames that do not retire (retire_prior_to <= table offset):
//     limit test, discard of stale numbers, storage by sequence number under reordering and
//     duplication, immediate hand-out of the next unassigned id to a waiting path;
// The retire_prior_to branch of the TABLE (switching the paths, "jumping retire") is outside the claim.
// The cid announced for sequence s is cid_of(s), so "which cid" is checkable as a number.
use super::*;

fn stub_fmt(_a: core::fmt::Arguments<'_>) -> String {
    String::new()
}

fn stub_token() -> ResetToken {
    ResetToken::default()
}

/// std::sync::Mutex::lock without the futex spin/park slow path: the harness is single-threaded, so
/// a lock that is not immediately available would be a self-deadlock of the real code and is
/// reported as a failure (not assumed away).
fn stub_lock<T: ?Sized>(m: &Mutex<T>) -> std::sync::LockResult<std::sync::MutexGuard<'_, T>> {
    match m.try_lock() {
        Ok(g) => Ok(g),
        Err(_) => panic!("mutex already held in a single-threaded harness: self-deadlock"),
    }
}

fn cid_of(k: u64) -> ConnectionId {
    let b = k.to_be_bytes();
    let mut bytes = [0u8; crate::cid::MAX_CID_SIZE];
    bytes[0] = b[0];
    bytes[1] = b[1];
    bytes[2] = b[2];
    bytes[3] = b[3];
    bytes[4] = b[4];
    bytes[5] = b[5];
    bytes[6] = b[6];
    bytes[7] = b[7];
    ConnectionId { len: 8, bytes }
}

fn num_of(cid: &ConnectionId) -> u64 {
    assert!(cid.len == 8);
    let b = &cid.bytes;
    u64::from_be_bytes([b[0], b[1], b[2], b[3], b[4], b[5], b[6], b[7]])
}

// ------------------------------------------------------------------------------------------------
// RETIRED sink: which sequence numbers got a RETIRE_CONNECTION_ID, and was any sent twice

const WIN: u64 = 16;
static mut RET_MASK: u32 = 0;
static mut RET_DUP: bool = false;
static mut RET_COUNT: u32 = 0;

#[derive(Clone, Debug)]
struct Sink;

impl SendFrame<RetireConnectionIdFrame> for Sink {
    fn send_frame<I: IntoIterator<Item = RetireConnectionIdFrame>>(&self, iter: I) {
        for f in iter {
            let s = f.sequence();
            assert!(s < WIN);
            unsafe {
                if RET_MASK & (1 << s) != 0 {
                    RET_DUP = true;
                }
                RET_MASK |= 1 << s;
                RET_COUNT += 1;
            }
        }
    }
}

fn retired(s: u64) -> bool {
    unsafe { RET_MASK & (1 << s) != 0 }
}
fn ret_count() -> u32 {
    unsafe { RET_COUNT }
}

type Table = RemoteCids<Sink>;
type Cell = ArcCidCell<Sink>;

/// (is_retired, is_using, number of cids held, newest held seq, oldest held seq)
fn cell_view(c: &Cell) -> (bool, bool, usize, u64, u64) {
    let g = c.0.lock().unwrap();
    let n = g.allocated_cids.len();
    let (newest, oldest) = if n > 0 {
        (g.allocated_cids[0].0, g.allocated_cids[n - 1].0)
    } else {
        (u64::MAX, u64::MAX)
    };
    (g.is_retired, g.is_using, n, newest, oldest)
}

fn cell_holds(c: &Cell, s: u64) -> bool {
    let g = c.0.lock().unwrap();
    let mut i = 0;
    let mut found = false;
    while i < g.allocated_cids.len() {
        if g.allocated_cids[i].0 == s {
            found = true;
        }
        i += 1;
    }
    found
}

/// G1..G8 over a table with the (at most two) path cells c0, c1.
fn check_g(t: &Table, c0: &Cell, c1: Option<&Cell>, maxseq: u64) {
    // G1: no sequence number is retired twice
    assert!(!unsafe { RET_DUP }, "C14: one RETIRE_CONNECTION_ID per abandoned id, never a duplicate");
    // G2: table cursors agree (cells in ready_cells are indexed by the sequence number they were given)
    assert!(t.cursor == t.ready_cells.largest(), "cursor == next ready index");
    assert!(t.ready_cells.offset() == t.cid_deque.offset(), "both deques slide together");
    assert!(t.cursor >= t.cid_deque.offset() && t.cursor <= t.cid_deque.largest().max(t.cid_deque.offset()));
    let (r0, u0, n0, new0, old0) = cell_view(c0);
    let (r1, u1, n1, new1, old1) = match c1 {
        Some(c) => cell_view(c),
        None => (true, false, 0, u64::MAX, u64::MAX),
    };
    // G3: each path uses one id at a time: more than one id is only held while the older one is
    //     still borrowed by a packet being assembled; an abandoned path holds none
    assert!(if r0 { n0 == 0 } else { u0 || n0 <= 1 });
    assert!(if r1 { n1 == 0 } else { u1 || n1 <= 1 });
    // G4: the id a path exposes was issued by the peer, was handed to this path only, is below the
    //     cursor and has not been retired towards the peer
    if n0 > 0 {
        assert!(new0 < t.cursor && !retired(new0) && !retired(old0));
    }
    if n1 > 0 {
        assert!(new1 < t.cursor && !retired(new1) && !retired(old1));
        if n0 > 0 {
            assert!(new0 != new1 && new0 != old1 && old0 != new1 && old0 != old1, "an id is never assigned to two paths");
        }
    }
    // G5: every sequence number below the cursor is either retired towards the peer or still held
    //     by exactly the path it was assigned to; nothing at/above the cursor has been retired
    let s: u64 = kani::any();
    kani::assume(s <= maxseq);
    let held = cell_holds(c0, s) || c1.map(|c| cell_holds(c, s)).unwrap_or(false);
    if s < t.cursor {
        assert!(retired(s) != held, "below the cursor: retired xor in use");
    } else {
        assert!(!retired(s) && !held, "at/above the cursor: untouched");
    }
    // G6: honours retire-prior-to by switching whenever a replacement exists: if a path still exposes
    //     an id below the table offset (the peer asked to retire it) and is not in the middle of a
    //     packet, or waits without any id, then no unassigned id is available
    let avail = matches!(t.cid_deque.get(t.cursor), Some(Some(_)));
    let stale0 = !r0 && !u0 && (n0 == 0 || new0 < t.cid_deque.offset());
    let stale1 = c1.is_some() && !r1 && !u1 && (n1 == 0 || new1 < t.cid_deque.offset());
    if stale0 || stale1 {
        assert!(!avail, "a path without a usable id gets the next unassigned id immediately");
    }
    // G7: the stored id of sequence s is the one the peer announced for s
    if let Some(Some((q, cid, _))) = t.cid_deque.get(s) {
        assert!(*q == s && num_of(cid) == s);
    }
}

/// A path assembles a packet: borrow_cid (the real BorrowedCid guard would call renew on drop).
fn borrow(c: &Cell) -> bool {
    let r = c.0.lock().unwrap().borrow_cid(ArcSendWaker::new());
    let (ret, _using, n, newest, _) = cell_view(c);
    match r {
        Ok(Some(cid)) => {
            assert!(!ret && n > 0 && num_of(&cid) == newest, "a path always uses the newest id it was given");
            assert!(!retired(newest), "C14: a retired id is never put on the wire");
            true
        }
        Ok(None) => {
            assert!(ret, "None only for an abandoned path");
            false
        }
        Err(sig) => {
            assert!(sig == Signals::CONNECTION_ID && !ret && n == 0, "blocks only while it has no id");
            false
        }
    }
}

// ------------------------------------------------------------------------------------------------
// T: the table

fn fresh(limit: u64) -> (Table, Cell) {
    unsafe {
        RET_MASK = 0;
        RET_DUP = false;
        RET_COUNT = 0;
    }
    let mut t: Table = RemoteCids::new(limit, Sink);
    let c0 = t.apply_dcid();
    t.apply_initial_dcid(cid_of(0), &c0);
    assert!(cell_view(&c0) == (false, false, 1, 0, 0), "the handshake path owns sequence 0");
    (t, c0)
}

// T1: K NEW_CONNECTION_ID frames with symbolic (seq, retire_prior_to) -- any order, duplicates --
// into a table that currently has NO live path cell (none applied yet / all abandoned): the table's
// own bookkeeping. (With a live cell every loop that reads cell state through Arc<Mutex<..>> is
// unrolled to the global unwind bound with all nested container-model loops: building the fresh
// one-path state alone costs 440 k SSA steps / 106 s, one frame on top of it did not finish in 1200 s.)
fn table_frames<const K: usize>() {
    unsafe {
        RET_MASK = 0;
        RET_DUP = false;
        RET_COUNT = 0;
    }
    let limit: u64 = kani::any();
    kani::assume(limit >= 2 && limit <= 3);
    let mut t: Table = RemoteCids::new(limit, Sink);
    // ghost: which sequence numbers have been stored, highest retire_prior_to seen
    let mut off: u64 = 0;
    let mut k = 0;
    while k < K {
        let seq: u64 = kani::any();
        let rpt: u64 = kani::any();
        kani::assume(rpt <= seq && seq <= 7); // rpt <= seq is enforced by the frame parser
        kani::assume(seq < off + 4 && rpt <= off + 4); // container-model capacity (window of 4 above the offset)
        let f = NewConnectionIdFrame::new(cid_of(seq), VarInt::from_u64(seq).unwrap(), VarInt::from_u64(rpt).unwrap());
        let before = ret_count();
        let len_before = t.cid_deque.len();
        let r = t.recv_new_cid_frame(f);
        if seq - rpt > limit {
            match r {
                Err(Error::Quic(e)) => {
                    assert!(e.kind() == ErrorKind::ConnectionIdLimit, "CONNECTION_ID_LIMIT_ERROR");
                    assert!(matches!(e.frame_type(), crate::error::ErrorFrameType::V1(crate::frame::FrameType::NewConnectionId)));
                }
                _ => panic!("C14: an issue that exceeds the own limit must be rejected"),
            }
            assert!(t.cid_deque.offset() == off && t.cid_deque.len() == len_before && ret_count() == before, "a rejected frame changes nothing");
        } else if seq < off {
            assert!(matches!(r, Ok(None)), "late (duplicate) frame for a retired number: ignored");
            assert!(t.cid_deque.offset() == off && t.cid_deque.len() == len_before && ret_count() == before);
        } else {
            assert!(matches!(r, Ok(Some(_))));
            let new_off = if rpt > off { rpt } else { off };
            assert!(t.cid_deque.offset() == new_off, "retire_prior_to advances the table, never moves it back");
            // no path could take them: every number in [off, new_off) is retired towards the peer right away, once
            assert!(ret_count() == before + (new_off - off) as u32, "one RETIRE_CONNECTION_ID per abandoned number");
            let s: u64 = kani::any();
            kani::assume(s <= 7);
            assert!(retired(s) == (s < new_off));
            // the id is stored under its own sequence number
            match t.cid_deque.get(seq) {
                Some(Some((q, cid, _))) => assert!(*q == seq && num_of(cid) == seq),
                _ => panic!("accepted id is stored"),
            }
            off = new_off;
        }
        assert!(!unsafe { RET_DUP }, "never two RETIRE_CONNECTION_ID for one number");
        assert!(t.cursor == off && t.ready_cells.offset() == off && t.ready_cells.is_empty(), "the cursor never points at a retired number");
        k += 1;
    }
    kani::cover!(off > 0 && ret_count() >= 2, "retire_prior_to jumped over several ids");
    core::mem::forget(t);
}

#[kani::proof]
#[kani::unwind(6)]
#[kani::stub(alloc::fmt::format, stub_fmt)]
#[kani::stub(crate::token::ResetToken::random_gen, stub_token)]
fn c14_remote_table_frames_k1() {
    table_frames::<1>();
}

#[kani::proof]
#[kani::unwind(6)]
#[kani::stub(alloc::fmt::format, stub_fmt)]
#[kani::stub(crate::token::ResetToken::random_gen, stub_token)]
fn c14_remote_table_frames_k2() {
    table_frames::<2>();
}

// ------------------------------------------------------------------------------------------------
// C: one step of the per-path cell from an arbitrary valid cell state
//   valid: abandoned => holds nothing; not borrowed => holds at most one id; borrowed => holds >= 1;
//          held sequence numbers strictly decrease from newest to oldest.

fn cell_step() {
    unsafe {
        RET_MASK = 0;
        RET_DUP = false;
        RET_COUNT = 0;
    }
    let n: usize = kani::any();
    let is_retired: bool = kani::any();
    let is_using: bool = kani::any();
    kani::assume(n <= 2);
    kani::assume(if is_retired { n == 0 && !is_using } else if is_using { n >= 1 } else { n <= 1 });
    let s_new: u64 = kani::any();
    let s_old: u64 = kani::any();
    kani::assume(s_old < s_new && s_new < 8);
    let mut cell = CidCell { retired_cids: Sink, allocated_cids: VecDeque::with_capacity(2), waker: None, is_retired, is_using };
    if n >= 1 {
        cell.allocated_cids.push_back((s_new, cid_of(s_new)));
    }
    if n >= 2 {
        cell.allocated_cids.push_back((s_old, cid_of(s_old)));
    }
    let op: u8 = kani::any();
    kani::assume(op < 4);
    match op {
        0 => {
            // RemoteCids::arrange_idle_cid hands out the next unassigned id (never to an abandoned cell:
            // it checks is_retired under the same lock first)
            kani::assume(!is_retired);
            let s: u64 = kani::any();
            kani::assume(s > s_new && s < 9);
            cell.assign(s, cid_of(s));
            assert!(cell.allocated_cids[0].0 == s, "the newest id is the one exposed");
            if is_using {
                assert!(ret_count() == 0 && cell.allocated_cids.len() == n + 1, "a borrowed id is not retired under the packet being assembled");
            } else {
                assert!(cell.allocated_cids.len() == 1, "one id at a time");
                assert!(ret_count() == n as u32 && (n == 0 || retired(s_new)), "exactly one RETIRE_CONNECTION_ID per abandoned id");
            }
            assert!(!retired(s));
        }
        1 => {
            let r = cell.borrow_cid(ArcSendWaker::new());
            match r {
                Ok(Some(cid)) => {
                    assert!(!is_retired && n >= 1 && num_of(&cid) == s_new, "borrows the newest id");
                    assert!(cell.is_using);
                }
                Ok(None) => assert!(is_retired),
                Err(sig) => assert!(sig == Signals::CONNECTION_ID && !is_retired && n == 0 && cell.waker.is_some()),
            }
            assert!(ret_count() == 0 && cell.allocated_cids.len() == n);
        }
        2 => {
            kani::assume(is_using); // BorrowedCid::drop, only exists after a successful borrow
            cell.renew();
            assert!(!cell.is_using && cell.allocated_cids.len() == 1 && cell.allocated_cids[0].0 == s_new);
            assert!(ret_count() == (n - 1) as u32 && (n < 2 || retired(s_old)), "the superseded id is retired when the packet is done");
            assert!(!retired(s_new));
        }
        _ => {
            cell.retire();
            assert!(cell.is_retired && cell.allocated_cids.is_empty());
            assert!(ret_count() == n as u32, "an abandoned path retires every id it held, once");
            if n >= 1 {
                assert!(retired(s_new));
            }
            if n >= 2 {
                assert!(retired(s_old));
            }
            cell.retire();
            assert!(ret_count() == n as u32, "idempotent");
            assert!(matches!(cell.borrow_cid(ArcSendWaker::new()), Ok(None)));
        }
    }
    assert!(!unsafe { RET_DUP });
    // validity re-established
    let m = cell.allocated_cids.len();
    assert!(if cell.is_retired { m == 0 } else if cell.is_using { m >= 1 } else { m <= 1 });
    if m >= 2 {
        assert!(cell.allocated_cids[0].0 > cell.allocated_cids[1].0);
    }
    kani::cover!(op == 0 && is_using && n == 2, "second replacement arrives while still borrowed");
    core::mem::forget(cell);
}

#[kani::proof]
#[kani::unwind(6)]
#[kani::stub(std::sync::Mutex::lock, stub_lock)]
fn c14_cell_step() {
    cell_step();
}

// pending: RFC 9000 §5.1.1 / §19.15: "After processing a NEW_CONNECTION_ID frame and adding and
// retiring active connection IDs, if the number of active connection IDs exceeds the value
// advertised in its active_connection_id_limit transport parameter, an endpoint MUST close the
// connection with an error of type CONNECTION_ID_LIMIT_ERROR."
// The table's test is `seq - retire_prior_to > limit`, which admits limit + 1 active ids
// (sequence numbers retire_prior_to ..= seq).
#[kani::proof]
#[kani::unwind(6)]
#[kani::stub(alloc::fmt::format, stub_fmt)]
#[kani::stub(std::sync::Mutex::lock, stub_lock)]
#[kani::stub(crate::token::ResetToken::random_gen, stub_token)]
fn c14_remote_limit_counts_active_ids() {
    let limit = 2;
    let (mut t, c0) = fresh(limit);
    let mut active: u64 = 1; // sequence 0
    let dup: bool = kani::any(); // NEW_CONNECTION_ID(1) delivered twice?
    let f1 = NewConnectionIdFrame::new(cid_of(1), VarInt::from_u32(1), VarInt::from_u32(0));
    if t.recv_new_cid_frame(f1).is_ok() {
        active += 1;
    }
    if dup {
        assert!(t.recv_new_cid_frame(f1).is_ok());
    }
    let f2 = NewConnectionIdFrame::new(cid_of(2), VarInt::from_u32(2), VarInt::from_u32(0));
    if t.recv_new_cid_frame(f2).is_ok() {
        active += 1;
    }
    assert!(ret_count() == 0, "nothing was retired");
    assert!(active <= limit, "RFC 9000 5.1.1: never more active peer-issued ids than the own active_connection_id_limit");
    kani::cover!(dup, "duplicate delivery");
    core::mem::forget(t);
    core::mem::forget(c0);
}

