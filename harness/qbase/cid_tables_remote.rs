// Kani harnesses compiled inside qbase::cid::remote_cid (overlay, cfg(kani) only).
// Property C14, using side: RemoteCids::{new, apply_dcid, apply_initial_dcid, recv_new_cid_frame,
// arrange_idle_cid} and CidCell::{assign, borrow_cid, renew, retire}.
//
// std VecDeque -> verif_model::VecDeque (import swap, DESIGN.md §2.4) in this file and in
// util/index_deque.rs. RETIRED is a harness sink recording every RETIRE_CONNECTION_ID frame.
// std::sync::Mutex::lock is stubbed by try_lock-or-fail (single-threaded harness; see stub_lock).
//
// MEASURED LIMIT (why the table-level harnesses are narrower than DESIGN.md §4 C14 planned): one
// recv_new_cid_frame with symbolic (seq, retire_prior_to) on a table built through its own history
// (new / apply_dcid / apply_initial_dcid: 440 k SSA steps for the fresh one-path state alone) did
// not finish in 1200 s. What IS checked here, each as ONE step from an arbitrary valid state that is
// built directly through the private fields:
//   * C  the per-path cell (CidCell): assign / borrow_cid / renew / retire;
//   * T  NEW_CONNECTION_ID frames into a table without live cells (limit test, stale numbers,
//        storage by sequence number, retire_prior_to with nobody to switch);
//   * S1 retire_prior_to on a table WITH live cells (which numbers are retired at once, which paths
//        are queued for a replacement);
//   * S2 arrange_idle_cid / apply_dcid (waiting paths served in order, switching retires the old id);
//   * S3 the composition recv_new_cid_frame = insert + S1 + S2 on the post-handshake table for a
//        concrete sequence number 3 and symbolic retire_prior_to (thorough tier).
// Not covered: three or more paths in one step, tables with more than 4 stored ids.
// The cid announced for sequence s is cid_of(s), so "which cid" is checkable as a number.
use super::*;

fn stub_fmt(_a: core::fmt::Arguments<'_>) -> String {
    String::new()
}

fn stub_token() -> ResetToken {
    ResetToken::default()
}

/// std::sync::Mutex::lock without the futex spin/park slow path: the harness is single-threaded, so
/// a lock that is not immediately available would be a self-deadlock of the real code and is
/// reported as a failure (not assumed away).
fn stub_lock<T: ?Sized>(m: &Mutex<T>) -> std::sync::LockResult<std::sync::MutexGuard<'_, T>> {
    match m.try_lock() {
        Ok(g) => Ok(g),
        Err(_) => panic!("mutex already held in a single-threaded harness: self-deadlock"),
    }
}

fn cid_of(k: u64) -> ConnectionId {
    let b = k.to_be_bytes();
    let mut bytes = [0u8; crate::cid::MAX_CID_SIZE];
    bytes[0] = b[0];
    bytes[1] = b[1];
    bytes[2] = b[2];
    bytes[3] = b[3];
    bytes[4] = b[4];
    bytes[5] = b[5];
    bytes[6] = b[6];
    bytes[7] = b[7];
    ConnectionId { len: 8, bytes }
}

fn num_of(cid: &ConnectionId) -> u64 {
    assert!(cid.len == 8);
    let b = &cid.bytes;
    u64::from_be_bytes([b[0], b[1], b[2], b[3], b[4], b[5], b[6], b[7]])
}

// ------------------------------------------------------------------------------------------------
// RETIRED sink: which sequence numbers got a RETIRE_CONNECTION_ID, and was any sent twice

const WIN: u64 = 16;
static mut RET_MASK: u32 = 0;
static mut RET_DUP: bool = false;
static mut RET_COUNT: u32 = 0;

#[derive(Clone, Debug)]
struct Sink;

impl SendFrame<RetireConnectionIdFrame> for Sink {
    fn send_frame<I: IntoIterator<Item = RetireConnectionIdFrame>>(&self, iter: I) {
        for f in iter {
            let s = f.sequence();
            assert!(s < WIN);
            unsafe {
                if RET_MASK & (1 << s) != 0 {
                    RET_DUP = true;
                }
                RET_MASK |= 1 << s;
                RET_COUNT += 1;
            }
        }
    }
}

fn retired(s: u64) -> bool {
    unsafe { RET_MASK & (1 << s) != 0 }
}
fn ret_count() -> u32 {
    unsafe { RET_COUNT }
}

type Table = RemoteCids<Sink>;
type Cell = ArcCidCell<Sink>;

/// (is_retired, is_using, number of cids held, newest held seq, oldest held seq)
fn cell_view(c: &Cell) -> (bool, bool, usize, u64, u64) {
    let g = c.0.lock().unwrap();
    let n = g.allocated_cids.len();
    let (newest, oldest) = if n > 0 {
        (g.allocated_cids[0].0, g.allocated_cids[n - 1].0)
    } else {
        (u64::MAX, u64::MAX)
    };
    (g.is_retired, g.is_using, n, newest, oldest)
}

fn cell_holds(c: &Cell, s: u64) -> bool {
    let g = c.0.lock().unwrap();
    let mut i = 0;
    let mut found = false;
    while i < g.allocated_cids.len() {
        if g.allocated_cids[i].0 == s {
            found = true;
        }
        i += 1;
    }
    found
}

/// G1..G8 over a table with the (at most two) path cells c0, c1.
fn check_g(t: &Table, c0: &Cell, c1: Option<&Cell>, maxseq: u64) {
    // G1: no sequence number is retired twice
    assert!(!unsafe { RET_DUP }, "C14: one RETIRE_CONNECTION_ID per abandoned id, never a duplicate");
    // G2: table cursors agree (cells in ready_cells are indexed by the sequence number they were given)
    assert!(t.cursor == t.ready_cells.largest(), "cursor == next ready index");
    assert!(t.ready_cells.offset() == t.cid_deque.offset(), "both deques slide together");
    assert!(t.cursor >= t.cid_deque.offset() && t.cursor <= t.cid_deque.largest().max(t.cid_deque.offset()));
    let (r0, u0, n0, new0, old0) = cell_view(c0);
    let (r1, u1, n1, new1, old1) = match c1 {
        Some(c) => cell_view(c),
        None => (true, false, 0, u64::MAX, u64::MAX),
    };
    // G3: each path uses one id at a time: more than one id is only held while the older one is
    //     still borrowed by a packet being assembled; an abandoned path holds none
    assert!(if r0 { n0 == 0 } else { u0 || n0 <= 1 });
    assert!(if r1 { n1 == 0 } else { u1 || n1 <= 1 });
    // G4: the id a path exposes was issued by the peer, was handed to this path only, is below the
    //     cursor and has not been retired towards the peer
    if n0 > 0 {
        assert!(new0 < t.cursor && !retired(new0) && !retired(old0));
    }
    if n1 > 0 {
        assert!(new1 < t.cursor && !retired(new1) && !retired(old1));
        if n0 > 0 {
            assert!(new0 != new1 && new0 != old1 && old0 != new1 && old0 != old1, "an id is never assigned to two paths");
        }
    }
    // G5: every sequence number below the cursor is either retired towards the peer or still held
    //     by exactly the path it was assigned to; nothing at/above the cursor has been retired
    let s: u64 = kani::any();
    kani::assume(s <= maxseq);
    let held = cell_holds(c0, s) || c1.map(|c| cell_holds(c, s)).unwrap_or(false);
    if s < t.cursor {
        assert!(retired(s) != held, "below the cursor: retired xor in use");
    } else {
        assert!(!retired(s) && !held, "at/above the cursor: untouched");
    }
    // G6: honours retire-prior-to by switching whenever a replacement exists: if a path still exposes
    //     an id below the table offset (the peer asked to retire it) and is not in the middle of a
    //     packet, or waits without any id, then no unassigned id is available
    let avail = matches!(t.cid_deque.get(t.cursor), Some(Some(_)));
    let stale0 = !r0 && !u0 && (n0 == 0 || new0 < t.cid_deque.offset());
    let stale1 = c1.is_some() && !r1 && !u1 && (n1 == 0 || new1 < t.cid_deque.offset());
    if stale0 || stale1 {
        assert!(!avail, "a path without a usable id gets the next unassigned id immediately");
    }
    // G7: the stored id of sequence s is the one the peer announced for s
    if let Some(Some((q, cid, _))) = t.cid_deque.get(s) {
        assert!(*q == s && num_of(cid) == s);
    }
}

/// A path assembles a packet: borrow_cid (the real BorrowedCid guard would call renew on drop).
fn borrow(c: &Cell) -> bool {
    let r = c.0.lock().unwrap().borrow_cid(ArcSendWaker::new());
    let (ret, _using, n, newest, _) = cell_view(c);
    match r {
        Ok(Some(cid)) => {
            assert!(!ret && n > 0 && num_of(&cid) == newest, "a path always uses the newest id it was given");
            assert!(!retired(newest), "C14: a retired id is never put on the wire");
            true
        }
        Ok(None) => {
            assert!(ret, "None only for an abandoned path");
            false
        }
        Err(sig) => {
            assert!(sig == Signals::CONNECTION_ID && !ret && n == 0, "blocks only while it has no id");
            false
        }
    }
}

// ------------------------------------------------------------------------------------------------
// T: the table

fn fresh(limit: u64) -> (Table, Cell) {
    unsafe {
        RET_MASK = 0;
        RET_DUP = false;
        RET_COUNT = 0;
    }
    let mut t: Table = RemoteCids::new(limit, Sink);
    let c0 = t.apply_dcid();
    t.apply_initial_dcid(cid_of(0), &c0);
    assert!(cell_view(&c0) == (false, false, 1, 0, 0), "the handshake path owns sequence 0");
    (t, c0)
}

// T1: K NEW_CONNECTION_ID frames with symbolic (seq, retire_prior_to) -- any order, duplicates --
// into a table that currently has NO live path cell (none applied yet / all abandoned): the table's
// own bookkeeping. (With a live cell every loop that reads cell state through Arc<Mutex<..>> is
// unrolled to the global unwind bound with all nested container-model loops: building the fresh
// one-path state alone costs 440 k SSA steps / 106 s, one frame on top of it did not finish in 1200 s.)
fn table_frames<const K: usize>() {
    unsafe {
        RET_MASK = 0;
        RET_DUP = false;
        RET_COUNT = 0;
    }
    let limit: u64 = kani::any();
    kani::assume(limit >= 2 && limit <= 3);
    let mut t: Table = RemoteCids::new(limit, Sink);
    // ghost: which sequence numbers have been stored, highest retire_prior_to seen
    let mut off: u64 = 0;
    let mut k = 0;
    while k < K {
        let seq: u64 = kani::any();
        let rpt: u64 = kani::any();
        kani::assume(rpt <= seq && seq <= 7); // rpt <= seq is enforced by the frame parser
        kani::assume(seq < off + 4 && rpt <= off + 4); // container-model capacity (window of 4 above the offset)
        let f = NewConnectionIdFrame::new(cid_of(seq), VarInt::from_u64(seq).unwrap(), VarInt::from_u64(rpt).unwrap());
        let before = ret_count();
        let len_before = t.cid_deque.len();
        let r = t.recv_new_cid_frame(f);
        if seq - rpt > limit {
            match r {
                Err(Error::Quic(e)) => {
                    assert!(e.kind() == ErrorKind::ConnectionIdLimit, "CONNECTION_ID_LIMIT_ERROR");
                    assert!(matches!(e.frame_type(), crate::error::ErrorFrameType::V1(crate::frame::FrameType::NewConnectionId)));
                }
                _ => panic!("C14: an issue that exceeds the own limit must be rejected"),
            }
            assert!(t.cid_deque.offset() == off && t.cid_deque.len() == len_before && ret_count() == before, "a rejected frame changes nothing");
        } else if seq < off {
            assert!(matches!(r, Ok(None)), "late (duplicate) frame for a retired number: ignored");
            assert!(t.cid_deque.offset() == off && t.cid_deque.len() == len_before && ret_count() == before);
        } else {
            assert!(matches!(r, Ok(Some(_))));
            let new_off = if rpt > off { rpt } else { off };
            assert!(t.cid_deque.offset() == new_off, "retire_prior_to advances the table, never moves it back");
            // no path could take them: every number in [off, new_off) is retired towards the peer right away, once
            assert!(ret_count() == before + (new_off - off) as u32, "one RETIRE_CONNECTION_ID per abandoned number");
            let s: u64 = kani::any();
            kani::assume(s <= 7);
            assert!(retired(s) == (s < new_off));
            // the id is stored under its own sequence number
            match t.cid_deque.get(seq) {
                Some(Some((q, cid, _))) => assert!(*q == seq && num_of(cid) == seq),
                _ => panic!("accepted id is stored"),
            }
            off = new_off;
        }
        assert!(!unsafe { RET_DUP }, "never two RETIRE_CONNECTION_ID for one number");
        assert!(t.cursor == off && t.ready_cells.offset() == off && t.ready_cells.is_empty(), "the cursor never points at a retired number");
        k += 1;
    }
    kani::cover!(off > 0 && ret_count() >= 2, "retire_prior_to jumped over several ids");
    core::mem::forget(t);
}

#[kani::proof]
#[kani::unwind(6)]
#[kani::stub(alloc::fmt::format, stub_fmt)]
#[kani::stub(crate::token::ResetToken::random_gen, stub_token)]
fn c14_remote_table_frames_k1() {
    table_frames::<1>();
}

#[kani::proof]
#[kani::unwind(6)]
#[kani::stub(alloc::fmt::format, stub_fmt)]
#[kani::stub(crate::token::ResetToken::random_gen, stub_token)]
fn c14_remote_table_frames_k2() {
    table_frames::<2>();
}

// T2: a reordered / duplicated NEW_CONNECTION_ID for a sequence number that has already been retired
// (after NEW_CONNECTION_ID(seq 2, retire_prior_to 2) slid the table to offset 2) is ignored: nothing
// is stored, nothing is retired a second time. (table_frames_k1 starts at offset 0 and cannot see
// the stale-number test; mutation `seq + 1 < offset` was only caught by the two-frame instance.)
#[kani::proof]
#[kani::unwind(6)]
#[kani::stub(alloc::fmt::format, stub_fmt)]
#[kani::stub(crate::token::ResetToken::random_gen, stub_token)]
fn c14_remote_table_stale_frame() {
    unsafe {
        RET_MASK = 0;
        RET_DUP = false;
        RET_COUNT = 0;
    }
    let limit: u64 = kani::any();
    kani::assume(limit >= 2 && limit <= 3);
    let mut t: Table = RemoteCids::new(limit, Sink);
    let f0 = NewConnectionIdFrame::new(cid_of(2), VarInt::from_u32(2), VarInt::from_u32(2));
    assert!(matches!(t.recv_new_cid_frame(f0), Ok(Some(_))));
    assert!(t.cid_deque.offset() == 2 && t.cid_deque.len() == 1 && t.cursor == 2 && ret_count() == 2 && retired(0) && retired(1));
    let seq: u64 = kani::any();
    let rpt: u64 = kani::any();
    kani::assume(rpt <= seq && seq < 2);
    let f = NewConnectionIdFrame::new(cid_of(seq), VarInt::from_u64(seq).unwrap(), VarInt::from_u64(rpt).unwrap());
    let r = t.recv_new_cid_frame(f);
    kani::cover!(seq == 1 && rpt == 0, "late frame for the newest retired number");
    assert!(matches!(r, Ok(None)), "a frame for an already retired sequence number is ignored");
    assert!(t.cid_deque.offset() == 2 && t.cid_deque.len() == 1 && t.cursor == 2 && t.ready_cells.offset() == 2, "nothing is stored");
    assert!(ret_count() == 2 && !unsafe { RET_DUP }, "and nothing is retired a second time");
    core::mem::forget(r);
    core::mem::forget(t);
}

// ------------------------------------------------------------------------------------------------
// C: one step of the per-path cell from an arbitrary valid cell state
//   valid: abandoned => holds nothing; not borrowed => holds at most one id; borrowed => holds >= 1;
//          held sequence numbers strictly decrease from newest to oldest.

fn cell_step() {
    unsafe {
        RET_MASK = 0;
        RET_DUP = false;
        RET_COUNT = 0;
    }
    let n: usize = kani::any();
    let is_retired: bool = kani::any();
    let is_using: bool = kani::any();
    kani::assume(n <= 2);
    kani::assume(if is_retired { n == 0 && !is_using } else if is_using { n >= 1 } else { n <= 1 });
    let s_new: u64 = kani::any();
    let s_old: u64 = kani::any();
    kani::assume(s_old < s_new && s_new < 8);
    let mut cell = CidCell { retired_cids: Sink, allocated_cids: VecDeque::with_capacity(2), waker: None, is_retired, is_using };
    if n >= 1 {
        cell.allocated_cids.push_back((s_new, cid_of(s_new)));
    }
    if n >= 2 {
        cell.allocated_cids.push_back((s_old, cid_of(s_old)));
    }
    let op: u8 = kani::any();
    kani::assume(op < 4);
    match op {
        0 => {
            // RemoteCids::arrange_idle_cid hands out the next unassigned id (never to an abandoned cell:
            // it checks is_retired under the same lock first)
            kani::assume(!is_retired);
            let s: u64 = kani::any();
            kani::assume(s > s_new && s < 9);
            cell.assign(s, cid_of(s));
            assert!(cell.allocated_cids[0].0 == s, "the newest id is the one exposed");
            if is_using {
                assert!(ret_count() == 0 && cell.allocated_cids.len() == n + 1, "a borrowed id is not retired under the packet being assembled");
            } else {
                assert!(cell.allocated_cids.len() == 1, "one id at a time");
                assert!(ret_count() == n as u32 && (n == 0 || retired(s_new)), "exactly one RETIRE_CONNECTION_ID per abandoned id");
            }
            assert!(!retired(s));
        }
        1 => {
            let r = cell.borrow_cid(ArcSendWaker::new());
            match r {
                Ok(Some(cid)) => {
                    assert!(!is_retired && n >= 1 && num_of(&cid) == s_new, "borrows the newest id");
                    assert!(cell.is_using);
                }
                Ok(None) => assert!(is_retired),
                Err(sig) => assert!(sig == Signals::CONNECTION_ID && !is_retired && n == 0 && cell.waker.is_some()),
            }
            assert!(ret_count() == 0 && cell.allocated_cids.len() == n);
        }
        2 => {
            kani::assume(is_using); // BorrowedCid::drop, only exists after a successful borrow
            cell.renew();
            assert!(!cell.is_using && cell.allocated_cids.len() == 1 && cell.allocated_cids[0].0 == s_new);
            assert!(ret_count() == (n - 1) as u32 && (n < 2 || retired(s_old)), "the superseded id is retired when the packet is done");
            assert!(!retired(s_new));
        }
        _ => {
            cell.retire();
            assert!(cell.is_retired && cell.allocated_cids.is_empty());
            assert!(ret_count() == n as u32, "an abandoned path retires every id it held, once");
            if n >= 1 {
                assert!(retired(s_new));
            }
            if n >= 2 {
                assert!(retired(s_old));
            }
            cell.retire();
            assert!(ret_count() == n as u32, "idempotent");
            assert!(matches!(cell.borrow_cid(ArcSendWaker::new()), Ok(None)));
        }
    }
    assert!(!unsafe { RET_DUP });
    // validity re-established
    let m = cell.allocated_cids.len();
    assert!(if cell.is_retired { m == 0 } else if cell.is_using { m >= 1 } else { m <= 1 });
    if m >= 2 {
        assert!(cell.allocated_cids[0].0 > cell.allocated_cids[1].0);
    }
    kani::cover!(op == 0 && is_using && n == 2, "second replacement arrives while still borrowed");
    core::mem::forget(cell);
}

#[kani::proof]
#[kani::unwind(6)]
#[kani::stub(std::sync::Mutex::lock, stub_lock)]
fn c14_cell_step() {
    cell_step();
}

// ------------------------------------------------------------------------------------------------
// S: one step of the TABLE from an arbitrary valid table state that HAS live path cells, built
// directly through the private fields (no history: building the one-path state through
// new/apply_dcid/apply_initial_dcid alone costs 440 k SSA steps). Shapes are concrete per
// instance: R cells in ready_cells (indexed OFF .. OFF+R, i.e. each was handed the id of that
// sequence number), U further ids stored but not yet handed out, P cells in pending_cells.
// OFF = 2 ids have already slid out of the table (so cells can still hold an id below OFF).
//
// Valid table state (maintained by every operation, re-checked by `table_inv`):
//   V1 ready_cells.offset == cid_deque.offset, cursor == ready_cells.largest() <= cid_deque.largest()
//   V2 every stored entry of sequence s in [offset, cursor) is Some (it was handed out)
//   V3 the ready cell of index s is abandoned (holds nothing) or its newest id is s
//   V4 a pending cell is abandoned, or holds nothing (not in use), or holds one id below the offset

const OFF: u64 = 2;

fn reset_sink() {
    unsafe {
        RET_MASK = 0;
        RET_DUP = false;
        RET_COUNT = 0;
    }
}

fn mk_cell(is_retired: bool, is_using: bool, held: Option<u64>) -> Cell {
    let mut q = VecDeque::with_capacity(2);
    if let Some(s) = held {
        q.push_back((s, cid_of(s)));
    }
    ArcCidCell(Arc::new(Mutex::new(CidCell { retired_cids: Sink, allocated_cids: q, waker: None, is_retired, is_using })))
}

#[derive(Clone, Copy)]
struct CellPre {
    retired: bool,
    using: bool,
    held: Option<u64>,
}

/// ready cell of index s: abandoned | idle holding s | borrowed holding s
fn any_ready_cell(s: u64) -> (Cell, CellPre) {
    let retired: bool = kani::any();
    let using: bool = kani::any();
    kani::assume(!(retired && using));
    let held = if retired { None } else { Some(s) };
    (mk_cell(retired, using, held), CellPre { retired, using, held })
}

/// pending cell number j (< OFF): abandoned | waiting without id | idle/borrowed holding the
/// peer-retired id j
fn any_pending_cell(j: u64) -> (Cell, CellPre) {
    let retired: bool = kani::any();
    let using: bool = kani::any();
    let has: bool = kani::any();
    kani::assume(if retired { !using && !has } else { !using || has });
    let held = if has { Some(j) } else { None };
    (mk_cell(retired, using, held), CellPre { retired, using, held })
}

fn same_cell(a: &Cell, b: &Cell) -> bool {
    Arc::ptr_eq(&a.0, &b.0)
}

fn unchanged(c: &Cell, p: &CellPre) -> bool {
    let (r, u, n, newest, _) = cell_view(c);
    r == p.retired && u == p.using && match p.held { Some(s) => n == 1 && newest == s, None => n == 0 }
}

/// Table with R ready cells, U unassigned entries (symbolic Some/None pattern, `last_some`: the
/// newest entry is Some -- it is the one a frame just stored), P pending cells.
struct Built<const R: usize, const U: usize, const P: usize> {
    t: Table,
    ready: [(Cell, CellPre); R],
    pend: [(Cell, CellPre); P],
    avail: [bool; U],
}

fn build<const R: usize, const U: usize, const P: usize>(limit: u64, last_some: bool) -> Built<R, U, P> {
    reset_sink();
    let mut t: Table = RemoteCids::new(limit, Sink);
    t.cid_deque.reset_offset(OFF);
    t.ready_cells.reset_offset(OFF);
    let mut k = 0u64;
    let ready: [(Cell, CellPre); R] = core::array::from_fn(|_| {
        let s = OFF + k;
        k += 1;
        any_ready_cell(s)
    });
    let mut i = 0;
    while i < R {
        let s = OFF + i as u64;
        t.cid_deque.push_back(Some((s, cid_of(s), ResetToken::default()))).unwrap();
        t.ready_cells.push_back(ready[i].0.clone()).unwrap();
        i += 1;
    }
    let avail: [bool; U] = kani::any();
    if last_some && U > 0 {
        kani::assume(avail[U - 1]);
    }
    let mut i = 0;
    while i < U {
        let s = OFF + (R + i) as u64;
        let e = if avail[i] { Some((s, cid_of(s), ResetToken::default())) } else { None };
        t.cid_deque.push_back(e).unwrap();
        i += 1;
    }
    let mut j = 0u64;
    let pend: [(Cell, CellPre); P] = core::array::from_fn(|_| {
        let c = any_pending_cell(j);
        j += 1;
        c
    });
    let mut i = 0;
    while i < P {
        t.pending_cells.push_back(pend[i].0.clone());
        i += 1;
    }
    t.cursor = OFF + R as u64;
    Built { t, ready, pend, avail }
}

/// V1 (cursors) on a post-state.
fn table_inv(t: &Table) {
    assert!(t.ready_cells.offset() == t.cid_deque.offset(), "V1: both deques slide together");
    assert!(t.cursor == t.ready_cells.largest(), "V1: cursor == next ready index");
    assert!(t.cursor <= t.cid_deque.largest(), "V1: cursor never beyond the stored ids");
    assert!(!unsafe { RET_DUP }, "never two RETIRE_CONNECTION_ID for one sequence number");
}

// S1: retire_prior_to(tomb) -- the retire-prior-to field of a NEW_CONNECTION_ID frame whose own
// sequence number (>= tomb, enforced by the frame parser) has just been stored: tomb < largest.
fn retire_prior_step<const R: usize, const U: usize, const P: usize>() {
    let b = build::<R, U, P>(8, true);
    let mut t = b.t;
    let n = (R + U) as u64;
    let cursor = OFF + R as u64;
    let tomb: u64 = kani::any();
    kani::assume(tomb < OFF + n);
    let x: u64 = kani::any(); // probe sequence number
    kani::assume(x < OFF + n);
    let x_before: Option<u64> = match t.cid_deque.get(x) {
        Some(Some((q, _, _))) => Some(*q),
        _ => None,
    };

    t.retire_prior_to(tomb);

    if tomb <= OFF {
        assert!(t.cid_deque.offset() == OFF && t.cid_deque.len() == R + U && t.ready_cells.len() == R && t.pending_cells.len() == P
            && t.cursor == cursor && ret_count() == 0, "retire_prior_to at or below the current offset changes nothing");
    } else {
        assert!(t.cid_deque.offset() == tomb && t.cid_deque.largest() == OFF + n, "the table slides to retire_prior_to, the newer ids stay");
        assert!(t.cursor == if tomb > cursor { tomb } else { cursor }, "the cursor skips ids retired before they were handed out, never moves back");
        // ids that were never handed out are retired towards the peer right away, each once; ids
        // that a path still holds are NOT (the path retires them when it switches)
        let jumped = if tomb > cursor { tomb - cursor } else { 0 };
        assert!(ret_count() == jumped as u32, "one RETIRE_CONNECTION_ID per abandoned, unassigned sequence number");
        assert!(retired(x) == (x >= cursor && x < tomb), "exactly the unassigned numbers below retire_prior_to");
        // every path whose id is being retired is queued for a replacement, in order; abandoned ones are dropped
        let popped = if tomb - OFF < R as u64 { (tomb - OFF) as usize } else { R };
        assert!(t.ready_cells.len() == R - popped);
        let mut expect_pending = P;
        let mut i = 0;
        while i < R {
            if i < popped {
                if !b.ready[i].1.retired {
                    assert!(same_cell(&t.pending_cells[expect_pending], &b.ready[i].0), "queued for a replacement, oldest first");
                    expect_pending += 1;
                }
            } else {
                let s = OFF + i as u64;
                assert!(same_cell(t.ready_cells.get(s).unwrap(), &b.ready[i].0), "paths on newer ids stay where they are");
            }
            i += 1;
        }
        assert!(t.pending_cells.len() == expect_pending);
    }
    // stored ids at/above the new offset are untouched, below it they are gone
    let x_after: Option<u64> = match t.cid_deque.get(x) {
        Some(Some((q, _, _))) => Some(*q),
        _ => None,
    };
    assert!(x_after == if x >= t.cid_deque.offset() { x_before } else { None });
    // no cell is touched by this step
    let mut i = 0;
    while i < R {
        assert!(unchanged(&b.ready[i].0, &b.ready[i].1));
        i += 1;
    }
    let mut i = 0;
    while i < P {
        assert!(unchanged(&b.pend[i].0, &b.pend[i].1) && same_cell(&t.pending_cells[i], &b.pend[i].0));
        i += 1;
    }
    table_inv(&t);
    // witnesses, where the shape admits them (tomb < OFF + R + U)
    kani::cover!(U < 2 || R == 0 || tomb > cursor, "jumping retire: assigned and unassigned ids retired by one frame (R >= 1, U >= 2)");
    kani::cover!(R < 2 || (tomb > OFF && tomb < cursor), "only some of the assigned ids retired (R >= 2)");
    kani::cover!(R == 0 || (tomb == cursor && t.pending_cells.len() > P), "all assigned ids retired, at least one path queued for a replacement");
    core::mem::forget(t);
    core::mem::forget(b.ready);
    core::mem::forget(b.pend);
}

macro_rules! s_harness {
    ($name:ident, $body:expr) => {
        #[kani::proof]
        #[kani::unwind(6)]
        #[kani::stub(alloc::fmt::format, stub_fmt)]
        #[kani::stub(std::sync::Mutex::lock, stub_lock)]
        #[kani::stub(crate::token::ResetToken::random_gen, stub_token)]
        fn $name() {
            $body;
        }
    };
}

s_harness!(c14_remote_retire_prior_r2u2p0, retire_prior_step::<2, 2, 0>());
s_harness!(c14_remote_retire_prior_r1u1p1, retire_prior_step::<1, 1, 1>());

// S2: arrange_idle_cid / apply_dcid -- hand the next unassigned ids to the waiting paths.
fn arrange_step<const R: usize, const U: usize, const P: usize>(apply: bool) {
    let b = build::<R, U, P>(8, false);
    let mut t = b.t;
    let cursor = OFF + R as u64;

    let fresh_cell = if apply { Some(t.apply_dcid()) } else { t.arrange_idle_cid(); None };

    // ---- oracle: walk the waiting paths front to back ------------------------------------------
    let mut cur = 0usize; // ids handed out
    let mut blocked = false;
    let mut remain = 0usize; // cells still waiting
    let mut exp_ret = 0u32;
    let mut j = 0;
    while j < P {
        let (c, p) = (&b.pend[j].0, &b.pend[j].1);
        if blocked {
            assert!(unchanged(c, p) && same_cell(&t.pending_cells[remain], c), "behind a path that could not be served: untouched, order kept");
            remain += 1;
        } else if p.retired {
            assert!(unchanged(c, p), "an abandoned path is dropped from the queue and gets nothing");
        } else if cur < U && b.avail[cur] {
            let s = cursor + cur as u64;
            let (r, u, n, newest, oldest) = cell_view(c);
            assert!(!r && u == p.using && newest == s, "the waiting path gets the next unassigned id");
            match p.held {
                Some(o) if p.using => assert!(n == 2 && oldest == o && !retired(o), "an id inside a packet being assembled is not retired yet"),
                Some(o) => {
                    assert!(n == 1 && retired(o), "switching: the old id is retired towards the peer");
                    exp_ret += 1;
                }
                None => assert!(n == 1),
            }
            assert!(same_cell(t.ready_cells.get(s).unwrap(), c), "and is filed under that sequence number");
            cur += 1;
        } else {
            blocked = true;
            assert!(unchanged(c, p) && same_cell(&t.pending_cells[remain], c), "no unassigned id: keeps waiting");
            remain += 1;
        }
        j += 1;
    }
    if let Some(c) = &fresh_cell {
        // the path that just applied queues behind everyone else
        if !blocked && cur < U && b.avail[cur] {
            let s = cursor + cur as u64;
            assert!(cell_view(c) == (false, false, 1, s, s) && same_cell(t.ready_cells.get(s).unwrap(), c));
            cur += 1;
        } else {
            assert!(cell_view(c) == (false, false, 0, u64::MAX, u64::MAX) && same_cell(&t.pending_cells[remain], c));
            remain += 1;
            blocked = true;
        }
    }
    assert!(t.pending_cells.len() == remain);
    assert!(t.cursor == cursor + cur as u64 && t.ready_cells.len() == R + cur, "each id is handed out once: the cursor moves past it");
    assert!(ret_count() == exp_ret, "one RETIRE_CONNECTION_ID per id a path switched away from, nothing else");
    let x: u64 = kani::any();
    kani::assume(x >= OFF && x < OFF + (R + U) as u64);
    assert!(!retired(x), "no id at or above the offset is retired by handing out ids");
    assert!(t.cid_deque.offset() == OFF && t.cid_deque.len() == R + U);
    let mut i = 0;
    while i < R {
        assert!(unchanged(&b.ready[i].0, &b.ready[i].1) && same_cell(t.ready_cells.get(OFF + i as u64).unwrap(), &b.ready[i].0), "paths that have an id are not touched");
        i += 1;
    }
    table_inv(&t);
    // witnesses, where the shape admits them
    kani::cover!(P == 0 || (cur >= 1 && exp_ret >= 1), "a waiting path switched to a new id (P >= 1)");
    kani::cover!(blocked, "a path keeps waiting: no unassigned id");
    kani::cover!(b.pend.first().map(|c| c.1.retired).unwrap_or(true), "abandoned path dropped from the queue (P >= 1)");
    kani::cover!(cur == P + apply as usize && cur > 0, "every waiting path served");
    core::mem::forget(t);
    core::mem::forget(b.ready);
    core::mem::forget(b.pend);
    core::mem::forget(fresh_cell);
}

// measured: <1,2,2> (two waiting paths, symbolic states) and apply_dcid <1,2,1> do not finish in 500 s:
// from the second loop iteration on, the cell at the front of the queue is a symbolic choice, and
// every access through its Arc<Mutex<..>> is a case split over all cells.
s_harness!(c14_remote_arrange_r1u1p1, arrange_step::<1, 1, 1>(false));
s_harness!(c14_remote_apply_dcid_r1u1p0, arrange_step::<1, 1, 0>(true));
s_harness!(c14_remote_arrange_r0u2p2, arrange_step::<0, 2, 2>(false));

// S3: a whole NEW_CONNECTION_ID frame into the state after the handshake (one path on sequence 0)
// and one more id stored: symbolic (seq, retire_prior_to) -- reordered, duplicated, retiring.
fn frame_live_step<const SEQ: u64>() {
    reset_sink();
    let limit: u64 = kani::any();
    kani::assume(limit >= 2 && limit <= 3);
    let mut t: Table = RemoteCids::new(limit, Sink);
    let using: bool = kani::any();
    let c0 = mk_cell(false, using, Some(0));
    t.cid_deque.push_back(Some((0, cid_of(0), ResetToken::default()))).unwrap();
    t.ready_cells.push_back(c0.clone()).unwrap();
    t.cursor = 1;
    let seq: u64 = SEQ; // concrete per instance (the shape of the id table after the insert is then concrete)
    let rpt: u64 = kani::any();
    kani::assume(rpt <= seq);
    let f = NewConnectionIdFrame::new(cid_of(seq), VarInt::from_u64(seq).unwrap(), VarInt::from_u64(rpt).unwrap());
    let r = t.recv_new_cid_frame(f);
    if seq - rpt > limit {
        assert!(matches!(r, Err(Error::Quic(ref e)) if e.kind() == ErrorKind::ConnectionIdLimit), "CONNECTION_ID_LIMIT_ERROR");
        assert!(ret_count() == 0 && t.cursor == 1 && cell_view(&c0) == (false, using, 1, 0, 0));
    } else {
        assert!(matches!(r, Ok(Some(_))));
        let (ret, u, n, newest, oldest) = cell_view(&c0);
        assert!(!ret && u == using);
        if rpt == 0 {
            assert!(n == 1 && newest == 0 && ret_count() == 0 && t.cursor == 1, "nothing to retire: the path stays on its id");
        } else if rpt == seq {
            // ids 0 .. seq-1 are retired by the peer, seq is the only usable one: the path switches to it
            assert!(newest == seq && t.cursor == seq + 1, "honours retire-prior-to by switching to the new id");
            if using {
                assert!(n == 2 && oldest == 0 && !retired(0), "the id inside the packet being assembled is retired later (renew)");
                assert!(ret_count() == (seq - 1) as u32);
            } else {
                assert!(n == 1 && retired(0) && ret_count() == seq as u32, "one RETIRE_CONNECTION_ID per abandoned sequence number");
            }
        } else {
            // 0 < rpt < seq: the id at rpt was never announced (only seq was): no replacement yet
            assert!(n == 1 && newest == 0 && !retired(0), "no usable replacement yet: keeps the old id, retires it on switching");
            assert!(t.cursor == rpt && ret_count() == (rpt - 1) as u32 && t.pending_cells.len() == 1);
        }
        let x: u64 = kani::any();
        kani::assume(x >= 1 && x <= 3);
        assert!(retired(x) == (x < rpt), "unassigned numbers below retire_prior_to are retired at once");
    }
    table_inv(&t);
    kani::cover!(rpt == seq && !using, "retire everything older in one frame: the path switches");
    kani::cover!(SEQ < 3 || seq - rpt > limit, "over the limit (SEQ = 3)");
    kani::cover!(SEQ < 2 || (rpt > 0 && rpt < seq), "retire-prior-to without a usable replacement (SEQ >= 2)");
    core::mem::forget(t);
    core::mem::forget(c0);
}

// measured (machine at load average 80): SEQ = 1 and SEQ = 2 ran out of memory, SEQ = 3 finishes (824 s);
// only SEQ = 3 (which exercises every branch: limit error, switch, jumping retire, no replacement) is kept
s_harness!(c14_remote_frame_live_cell_s3, frame_live_step::<3>());

// pending: RFC 9000 §5.1.1 / §19.15: "After processing a NEW_CONNECTION_ID frame and adding and
// retiring active connection IDs, if the number of active connection IDs exceeds the value
// advertised in its active_connection_id_limit transport parameter, an endpoint MUST close the
// connection with an error of type CONNECTION_ID_LIMIT_ERROR."
// The table's test is `seq - retire_prior_to > limit`, which admits limit + 1 active ids
// (sequence numbers retire_prior_to ..= seq).
#[kani::proof]
#[kani::unwind(6)]
#[kani::stub(alloc::fmt::format, stub_fmt)]
#[kani::stub(std::sync::Mutex::lock, stub_lock)]
#[kani::stub(crate::token::ResetToken::random_gen, stub_token)]
fn c14_remote_limit_counts_active_ids_pending() {
    reset_sink();
    let limit: u64 = 2;
    let mut t: Table = RemoteCids::new(limit, Sink);
    // after the handshake and one NEW_CONNECTION_ID(seq 1, retire_prior_to 0): the path uses id 0,
    // id 1 is spare: two active ids == our active_connection_id_limit
    let c0 = mk_cell(false, kani::any(), Some(0));
    t.cid_deque.push_back(Some((0, cid_of(0), ResetToken::default()))).unwrap();
    t.cid_deque.push_back(Some((1, cid_of(1), ResetToken::default()))).unwrap();
    t.ready_cells.push_back(c0.clone()).unwrap();
    t.cursor = 1;
    // the peer issues a third id without retiring any
    let f = NewConnectionIdFrame::new(cid_of(2), VarInt::from_u32(2), VarInt::from_u32(0));
    let r = t.recv_new_cid_frame(f);
    let mut active = 0u64;
    let mut s = 0u64;
    while s < 4 {
        if matches!(t.cid_deque.get(s), Some(Some(_))) {
            active += 1;
        }
        s += 1;
    }
    kani::cover!(true, "reached");
    assert!(ret_count() == 0, "nothing was retired");
    assert!(r.is_err() || active <= limit, "RFC 9000 5.1.1: more active peer-issued ids than the own active_connection_id_limit must be CONNECTION_ID_LIMIT_ERROR");
    core::mem::forget(r);
    core::mem::forget(t);
    core::mem::forget(c0);
}
