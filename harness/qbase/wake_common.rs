// Shared by the C16/C17/C19 harness files through `include!` (not a module of its own).
//
// Counting wakers built from a RawWaker vtable. Waker i (i < NW) has its own data pointer
// (so `will_wake` distinguishes tasks) and its own invocation counter WAKES[i].
// `wake` and `wake_by_ref` both count; clone/drop are no-ops (no reference counting needed:
// the data pointers are addresses of statics).
#[allow(dead_code)]
mod vwk {
    use core::task::{RawWaker, RawWakerVTable, Waker};

    pub const NW: usize = 3;
    static IDS: [u8; NW] = [0, 1, 2];
    static mut WAKES: [u32; NW] = [0; NW];

    unsafe fn vt_clone(p: *const ()) -> RawWaker {
        RawWaker::new(p, &VTABLE)
    }
    unsafe fn vt_wake(p: *const ()) {
        unsafe {
            let i = *(p as *const u8) as usize;
            WAKES[i] += 1;
        }
    }
    unsafe fn vt_drop(_p: *const ()) {}
    static VTABLE: RawWakerVTable = RawWakerVTable::new(vt_clone, vt_wake, vt_wake, vt_drop);

    /// The waker of task `i`.
    pub fn waker(i: usize) -> Waker {
        unsafe { Waker::from_raw(RawWaker::new(&IDS[i] as *const u8 as *const (), &VTABLE)) }
    }

    /// How many times task `i`'s waker has been invoked so far.
    pub fn wakes(i: usize) -> u32 {
        unsafe { WAKES[i] }
    }
}
