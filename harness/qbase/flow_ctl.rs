// Kani harnesses compiled *inside* qbase::flow (overlay injection, cfg(kani) only).
// Property C11: connection-level flow control, sending side (`SendControler` behind
// `ArcSendControler` + the `Credit` guard) and receiving side (`RecvController`).
//
// Every harness executes ONE operation (or one credit cycle) from an ARBITRARY valid controller
// state, all values full-width u64 (limits are VarInts on the wire: <= 2^62-1).
use super::*;

const VMAX: u64 = crate::varint::VARINT_MAX;

// ---- frame sinks (record what the controller emits) ---------------------------------------------
static mut BLOCKED_N: u32 = 0;
static mut BLOCKED_LAST: u64 = 0;
static mut MAXDATA_N: u32 = 0;
static mut MAXDATA_LAST: u64 = 0;
static mut WAKE_FLOW_N: u32 = 0;
static mut WAKE_OTHER_N: u32 = 0;

#[derive(Clone, Debug, Default)]
struct Sink;

impl SendFrame<DataBlockedFrame> for Sink {
    fn send_frame<I: IntoIterator<Item = DataBlockedFrame>>(&self, iter: I) {
        for f in iter {
            unsafe {
                BLOCKED_N += 1;
                BLOCKED_LAST = f.limit();
            }
        }
    }
}

impl SendFrame<MaxDataFrame> for Sink {
    fn send_frame<I: IntoIterator<Item = MaxDataFrame>>(&self, iter: I) {
        for f in iter {
            unsafe {
                MAXDATA_N += 1;
                MAXDATA_LAST = f.max_data();
            }
        }
    }
}

/// Replaces `ArcSendWakers::wake_all_by` (a BTreeMap walk over the connection's paths): counts
/// the wake-ups per signal class. The wake-up *targets* are C16's business.
fn stub_wake_all_by(_w: &ArcSendWakers, signals: Signals) {
    unsafe {
        if signals == Signals::FLOW_CONTROL {
            WAKE_FLOW_N += 1;
        } else {
            WAKE_OTHER_N += 1;
        }
    }
}

fn stub_fmt(_args: core::fmt::Arguments<'_>) -> String {
    String::new()
}

static mut CTL_PTR: *const Result<SendControler<Sink>, Error> = core::ptr::null();
static mut CTL_OWNER: *const Mutex<Result<SendControler<Sink>, Error>> = core::ptr::null();

fn register(ctl: &ArcSendControler<Sink>) {
    let mut g = ctl.0.lock().unwrap();
    unsafe {
        CTL_PTR = &mut *g as *mut _ as *const _;
        CTL_OWNER = Arc::as_ptr(&ctl.0);
    }
}

fn blocked() -> (u32, u64) {
    unsafe { (BLOCKED_N, BLOCKED_LAST) }
}
fn maxdata() -> (u32, u64) {
    unsafe { (MAXDATA_N, MAXDATA_LAST) }
}
fn wakes() -> (u32, u32) {
    unsafe { (WAKE_FLOW_N, WAKE_OTHER_N) }
}

/// Arbitrary valid sending controller: `sent_data <= max_data <= 2^62-1`, any `flow_limited`.
/// (`sent_data` includes the credit currently lent out to packet assemblers.)
fn any_send_ctl() -> (ArcSendControler<Sink>, u64, u64, bool) {
    let sent: u64 = kani::any();
    let max: u64 = kani::any();
    let fl: bool = kani::any();
    kani::assume(sent <= max && max <= VMAX);
    let ctl = ArcSendControler(Arc::new(Mutex::new(Ok(SendControler {
        sent_data: sent,
        max_data: max,
        flow_limited: fl,
        broker: Sink,
        tx_wakers: ArcSendWakers::default(),
    }))));
    register(&ctl);
    (ctl, sent, max, fl)
}

/// Read the controller's fields without going through the mutex again (each std `Mutex::lock`
/// costs CBMC several seconds). The pointer is taken once, under the lock, at construction; the
/// harness is single-threaded and holds no guard while peeking.
fn peek(ctl: &ArcSendControler<Sink>) -> (u64, u64, bool) {
    let p = unsafe { CTL_PTR };
    assert!(core::ptr::eq(Arc::as_ptr(&ctl.0), unsafe { CTL_OWNER }));
    match unsafe { &*p } {
        Ok(c) => (c.sent_data, c.max_data, c.flow_limited),
        Err(_) => unreachable!(),
    }
}

/// credit(quota) -> post_sent(a) -> drop, from an arbitrary valid state.
/// * the credit handed out is exactly min(max_data - sent_data, quota): never beyond the limit;
/// * while the credit is out the controller has charged it in full (so a concurrent credit on
///   another path cannot get the same bytes), `sent_data <= max_data` throughout;
/// * after the drop the net charge is exactly `a` (fresh bytes once, unused credit returned);
/// * DATA_BLOCKED is emitted iff the credit exhausted the limit and it had not been reported for
///   this limit yet, and it carries the current limit;
/// * returning credit wakes the FLOW_CONTROL waiters iff there is room again.
#[kani::proof]
#[kani::unwind(3)]
#[kani::stub(crate::net::tx::ArcSendWakers::wake_all_by, stub_wake_all_by)]
fn c11_send_credit_cycle() {
    let (ctl, sent, max, fl) = any_send_ctl();
    let quota: usize = kani::any();
    let room = max - sent;
    let expect = if (quota as u64) < room { quota as u64 } else { room };

    let mut credit = ctl.credit(quota).unwrap();
    let avail = credit.available();
    assert!(avail as u64 == expect, "credit == min(room under the peer's limit, quota)");
    let (s1, m1, f1) = peek(&ctl);
    assert!(s1 == sent + expect && m1 == max, "the whole credit is charged while it is lent out");
    assert!(s1 <= m1, "sent_data <= max_data while a credit is out");
    let exhausted = expect == room;
    assert!(f1 == (fl || exhausted));
    let (bn, bl) = blocked();
    assert!(bn == if exhausted && !fl { 1 } else { 0 }, "DATA_BLOCKED once per limit");
    if bn == 1 {
        assert!(bl == max, "DATA_BLOCKED carries the current limit");
    }

    let a: usize = kani::any();
    kani::assume(a <= avail);
    credit.post_sent(a);
    assert!(credit.available() == avail - a);
    drop(credit);

    let (s2, m2, f2) = peek(&ctl);
    assert!(s2 == sent + a as u64, "net charge == fresh bytes actually sent (unused credit returned)");
    assert!(m2 == max, "a credit cycle never changes the limit");
    assert!(s2 <= m2, "sent_data <= max_data after the cycle");
    assert!(f2 == f1);
    assert!(blocked().0 == bn, "returning credit emits nothing");
    let (wf, wo) = wakes();
    assert!(wo == 0);
    assert!(wf == if s2 < m2 { 1 } else { 0 }, "FLOW_CONTROL waiters woken iff room is available again");

    kani::cover!(exhausted && !fl && a < avail, "limit exhausted, DATA_BLOCKED sent, part of the credit returned");
    kani::cover!(avail == 0 && room == 0, "no room at all");
    kani::cover!(a == avail && avail > 0 && s2 == m2, "credit fully used up to the limit");
    kani::cover!(max == VMAX && sent > (1u64 << 61), "full-width values");
    core::mem::forget(ctl);
}

/// Any interleaving of any number of concurrently lent credits (several paths assembling packets
/// at the same time), as ONE inductive step on the inner controller from an arbitrary state with a
/// ghost split `sent_data == fresh + lent` (fresh = bytes really sent, lent = credit currently out):
///   take(q)        = what `ArcSendControler::credit` does under the lock (checked to be exactly
///                    this by c11_send_credit_cycle): a = min(avaliable(), q); commit(a)
///   close(x, used) = a credit of size x closes having sent `used <= x`: return_back(x - used)
///   limit(m)       = MAX_DATA
/// The split, `sent_data <= max_data` and monotonicity of the limit are preserved by every step.
/// (The two-credit scenario through the Arc<Mutex<Result<..>>> wrapper itself exhausted 18 GB in
/// CBMC's array post-processing; the wrapper is therefore covered for one credit cycle and the
/// interleaving argument is made on the inner controller.)
#[kani::proof]
#[kani::unwind(3)]
#[kani::stub(crate::net::tx::ArcSendWakers::wake_all_by, stub_wake_all_by)]
fn c11_send_ctl_inner_step() {
    let sent: u64 = kani::any();
    let max: u64 = kani::any();
    let lent: u64 = kani::any();
    kani::assume(sent <= max && max <= VMAX && lent <= sent);
    let fresh = sent - lent;
    let mut c = SendControler {
        sent_data: sent,
        max_data: max,
        flow_limited: kani::any(),
        broker: Sink,
        tx_wakers: ArcSendWakers::default(),
    };
    let op: u8 = kani::any();
    let (fresh2, lent2) = match op % 3 {
        0 => {
            let q: u64 = kani::any();
            let a = c.avaliable().min(q);
            assert!(a == if q < max - sent { q } else { max - sent });
            c.commit(a);
            kani::cover!(a > 0 && lent > 0, "a second credit is lent while one is out");
            (fresh, lent + a)
        }
        1 => {
            let x: u64 = kani::any();
            let used: u64 = kani::any();
            kani::assume(x <= lent && used <= x);
            c.return_back(x - used);
            kani::cover!(x < lent && used < x, "one of several credits closes, partly unused");
            (fresh + used, lent - x)
        }
        _ => {
            let m: u64 = kani::any();
            kani::assume(m <= VMAX);
            c.increase_limit(m);
            (fresh, lent)
        }
    };
    assert!(c.sent_data == fresh2 + lent2, "every fresh byte is charged exactly once; unused credit is returned");
    assert!(c.sent_data <= c.max_data, "never beyond the peer's limit");
    assert!(c.max_data >= max, "limit never decreases");
    core::mem::forget(c);
}

/// MAX_DATA from the peer (`recv_frame(MaxDataFrame)`), `reset_send_window` and the non-rejected
/// `revise_max_data`: the limit becomes max(old, new) — it only grows; `sent_data` is untouched;
/// the blocked flag is re-armed and FLOW_CONTROL waiters are woken iff the limit grew.
#[kani::proof]
#[kani::unwind(3)]
#[kani::stub(crate::net::tx::ArcSendWakers::wake_all_by, stub_wake_all_by)]
fn c11_send_limit_update() {
    let (ctl, sent, max, fl) = any_send_ctl();
    let m: u64 = kani::any();
    kani::assume(m <= VMAX);
    let which: u8 = kani::any();
    match which % 3 {
        0 => {
            let r = ctl.recv_frame(MaxDataFrame::new(VarInt::from_u64(m).unwrap()));
            assert!(r.is_ok());
        }
        1 => ctl.increase_limit(m),
        _ => ctl.revise_max_data(false, m),
    }
    let (s, mx, f) = peek(&ctl);
    let grew = m > max;
    assert!(mx == if grew { m } else { max }, "limit == max(old, advertised): smaller MAX_DATA is ignored");
    assert!(s == sent && s <= mx);
    assert!(f == (fl && !grew));
    assert!(wakes().0 == if grew { 1 } else { 0 } && wakes().1 == 0);
    assert!(blocked().0 == 0);
    kani::cover!(grew && fl, "blocked sender released by MAX_DATA");
    kani::cover!(!grew && m < max, "stale smaller MAX_DATA ignored");
    core::mem::forget(ctl);
}

/// What a following credit may hand out after `revise_max_data` (TLS finished; peer's real
/// `initial_max_data` = m; 0-RTT possibly rejected). Safety: everything charged so far plus the new
/// credit stays within the limit now in force.
fn revise_then_credit() {
    let (ctl, sent, max, _fl) = any_send_ctl();
    let rejected: bool = kani::any();
    let m: u64 = kani::any();
    kani::assume(m <= VMAX);
    // NOTE: no exclusion of `rejected && m < sent` — that case was a genuine defect (underflow in
    // `avaliable()`: panic / unlimited credit), repaired in /repo by "fix: reset connection-level
    // sent_data when 0-RTT is rejected"; it stays inside the claim so a regression is reported.
    ctl.revise_max_data(rejected, m);
    let (s, mx, f) = peek(&ctl);
    if rejected {
        assert!(s == 0, "0-RTT rejected: the peer discarded the data, nothing counts as sent any more (streams re-send it as fresh data)");
        assert!(mx == m, "after a 0-RTT rejection the limit is exactly the server's initial_max_data");
        assert!(!f, "blocked flag re-armed for the new limit");
    } else {
        assert!(s == sent);
        assert!(mx == if m > max { m } else { max });
    }
    assert!(s <= mx, "sent_data <= max_data after revise_max_data");
    let quota: usize = kani::any();
    let credit = ctl.credit(quota).unwrap();
    assert!(credit.available() as u64 <= mx - s, "credit after the revision stays within the limit in force");
    let (s2, mx2, _) = peek(&ctl);
    assert!(s2 == s + credit.available() as u64 && mx2 == mx && s2 <= mx2);
    kani::cover!(rejected && m < sent, "0-RTT rejected and the fresh limit is below what had been charged (former defect)");
    kani::cover!(rejected && m >= sent && m < max, "0-RTT rejected, limit shrunk but still covers what was sent");
    kani::cover!(!rejected && m > max, "handshake confirmed a larger limit");
    core::mem::forget(credit);
    core::mem::forget(ctl);
}

#[kani::proof]
#[kani::unwind(3)]
#[kani::stub(crate::net::tx::ArcSendWakers::wake_all_by, stub_wake_all_by)]
fn c11_send_revise_max_data() {
    revise_then_credit();
}



// ---- receiving side -----------------------------------------------------------------------------

/// One `on_new_rcvd(amount)` from an arbitrary valid state (rcvd <= max, max + step <= 2^62-1 —
/// the implementation's documented assumption that the advertised limit never reaches 2^62):
/// * Err(FlowControl, frame type preserved) iff rcvd + amount > max, and then nothing is emitted
///   and the advertised limit is unchanged;
/// * Ok(amount) otherwise; the advertised limit never decreases; a MAX_DATA frame is emitted iff
///   the window was extended, and carries exactly the new limit.
#[kani::proof]
#[kani::unwind(3)]
#[kani::stub(std::fmt::format, stub_fmt)]
fn c11_recv_ctl_step() {
    let rcvd: u64 = kani::any();
    let max: u64 = kani::any();
    let step: u64 = kani::any();
    kani::assume(rcvd <= max && max <= VMAX && step <= VMAX - max);
    let amount: usize = kani::any();
    kani::assume(amount as u64 <= VMAX);
    let ctl = ArcRecvController(Arc::new(Mutex::new(RecvController {
        rcvd_data: rcvd,
        max_data: max,
        step,
        broker: Sink,
    })));
    let fty = if kani::any() { FrameType::ResetStream } else { FrameType::MaxStreamData };
    let r = ctl.on_new_rcvd(fty, amount);
    let (after_rcvd, after_max) = {
        let g = ctl.0.lock().unwrap();
        (g.rcvd_data, g.max_data)
    };
    let total = rcvd + amount as u64;
    let (n, last) = maxdata();
    match r {
        Ok(v) => {
            assert!(total <= max, "accepted only within the advertised limit");
            assert!(v == amount);
            assert!(after_rcvd == total);
            let extend = total + step >= max;
            assert!(after_max == if extend { max + step } else { max });
            assert!(after_max >= max, "advertised limit never decreases");
            assert!(n == if extend { 1 } else { 0 }, "MAX_DATA emitted iff the window was extended");
            if extend {
                assert!(last == after_max, "MAX_DATA carries the new limit");
            }
            kani::cover!(extend && step > 0, "window extended");
            kani::cover!(!extend, "no update needed yet");
            kani::cover!(total == max && amount > 0, "exactly at the limit is accepted");
        }
        Err(e) => {
            assert!(total > max, "rejected only beyond the advertised limit");
            assert!(e.kind() == ErrorKind::FlowControl, "FLOW_CONTROL_ERROR");
            assert!(e.frame_type() == ErrorFrameType::V1(fty));
            assert!(after_max == max && n == 0);
            kani::cover!(total == max + 1, "one byte beyond the limit is rejected");
            core::mem::forget(e);
        }
    }
    core::mem::forget(ctl);
}

/// `RecvController::new` / `FlowController::new`: the receive limit starts at the local
/// `initial_max_data`, the send limit at the peer's (0 allowed), both sides independent.
#[kani::proof]
#[kani::unwind(3)]
#[kani::stub(crate::net::tx::ArcSendWakers::wake_all_by, stub_wake_all_by)]
fn c11_flow_controller_new() {
    let peer: u64 = kani::any();
    let local: u64 = kani::any();
    kani::assume(peer <= VMAX && local <= VMAX);
    let fc = FlowController::new(peer, local, Sink, ArcSendWakers::default());
    register(&fc.sender);
    {
        let (s, m, f) = peek(&fc.sender);
        assert!(s == 0 && m == peer && !f);
        let g = fc.recver.0.lock().unwrap();
        assert!(g.rcvd_data == 0 && g.max_data == local && g.step == local / 2);
    }
    let q: usize = kani::any();
    let c = fc.send_limit(q).unwrap();
    assert!(c.available() as u64 == if (q as u64) < peer { q as u64 } else { peer });
    kani::cover!(peer == 0 && q > 0, "zero initial_max_data: nothing may be sent");
    kani::cover!(peer != local);
    core::mem::forget(c);
    core::mem::forget(fc);
}
