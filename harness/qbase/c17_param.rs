// Kani harness compiled inside qbase::param (overlay, cfg(kani) only).
// Property C17, transport parameters: tasks waiting for the peer's parameters
// (`Parameters::poll_ready`: open_*_stream / accept_bi_stream before the handshake delivered them)
// are released by `ArcParameters::on_conn_error(e1)` — the wake-up happens in `Drop for
// Parameters` when the state is replaced by the error — and every later `lock_guard()` (the first
// statement of poll_open_* / poll_accept_bi_stream / remote_ready) returns e1; a second error does
// not replace it.
use ::core::task::{Context, Poll};

use super::*;

include!("wake_common.rs");
use vwk::{waker, wakes};

/// Work-around for a Kani 0.68 layout bug (see params_auth.rs): the goto type of the niche-encoded
/// `ParameterValue` is larger than rustc's size_of, so heap objects containing it get 64 bytes of
/// slack and deallocation is a no-op.
unsafe fn stub_alloc_slack(layout: std::alloc::Layout) -> *mut u8 {
    unsafe { std::alloc::alloc_zeroed(std::alloc::Layout::from_size_align_unchecked(layout.size() + 64, layout.align())) }
}
unsafe fn stub_dealloc_leak(_ptr: *mut u8, _layout: std::alloc::Layout) {}
unsafe fn stub_dealloc_nn_leak(_ptr: ::core::ptr::NonNull<u8>, _layout: std::alloc::Layout) {}
unsafe fn stub_realloc_nn_slack(ptr: ::core::ptr::NonNull<u8>, layout: std::alloc::Layout, new_size: usize) -> *mut u8 {
    unsafe { stub_realloc_slack(ptr.as_ptr(), layout, new_size) }
}
unsafe fn stub_realloc_slack(ptr: *mut u8, layout: std::alloc::Layout, new_size: usize) -> *mut u8 {
    unsafe {
        let new = std::alloc::alloc_zeroed(std::alloc::Layout::from_size_align_unchecked(new_size + 64, layout.align()));
        let n = if layout.size() < new_size { layout.size() } else { new_size };
        ::core::ptr::copy_nonoverlapping(ptr, new, n);
        new
    }
}
fn stub_mutex_lock<T: ?Sized>(m: &std::sync::Mutex<T>) -> std::sync::LockResult<std::sync::MutexGuard<'_, T>> {
    match m.try_lock() {
        Ok(g) => Ok(g),
        Err(std::sync::TryLockError::Poisoned(p)) => Err(p),
        Err(std::sync::TryLockError::WouldBlock) => panic!("self-deadlock: mutex already held"),
    }
}

fn any_kind() -> ErrorKind {
    let k: u8 = kani::any();
    match k % 4 {
        0 => ErrorKind::Internal,
        1 => ErrorKind::FlowControl,
        2 => ErrorKind::ProtocolViolation,
        _ => ErrorKind::None,
    }
}
fn conn_error(kind: ErrorKind) -> Error {
    Error::Quic(QuicError::with_default_fty(kind, "x"))
}

#[kani::proof]
#[kani::unwind(6)]
#[kani::stub(std::alloc::alloc, stub_alloc_slack)]
#[kani::stub(std::alloc::dealloc, stub_dealloc_leak)]
#[kani::stub(std::alloc::realloc, stub_realloc_slack)]
#[kani::stub(alloc::alloc::dealloc_nonnull, stub_dealloc_nn_leak)]
#[kani::stub(alloc::alloc::realloc_nonnull, stub_realloc_nn_slack)]
#[kani::stub(std::sync::Mutex::lock, stub_mutex_lock)]
fn c17_params_poison() {
    // a server that has not yet received the client's parameters (or a client, symmetric)
    let mut p = Parameters::new_server(ServerParameters::default());
    // (the harness keeps its own handles on the two parameter sets, so that replacing the state by
    // the error does not run the drop glue of the parameter maps: irrelevant here and expensive)
    let keep = (p.client.clone(), p.server.clone());
    let n: usize = kani::any();
    kani::assume(n <= 2);
    let w0 = waker(0);
    let w1 = waker(1);
    let mut i = 0;
    while i < 2 {
        if i < n {
            let w = if i == 0 { &w0 } else { &w1 };
            let mut cx = Context::from_waker(w);
            assert!(p.poll_ready(&mut cx) == Poll::Pending, "peer parameters not yet known: the task waits");
        }
        i += 1;
    }
    let arc = ArcParameters::from(p);
    let k1 = any_kind();
    let k2 = any_kind();
    kani::assume(k1 != k2);

    arc.on_conn_error(&conn_error(k1));
    assert!(wakes(0) == if n >= 1 { 1 } else { 0 } && wakes(1) == if n >= 2 { 1 } else { 0 }, "every task waiting for the peer's parameters is woken exactly once");
    arc.on_conn_error(&conn_error(k2));
    assert!(wakes(0) == if n >= 1 { 1 } else { 0 } && wakes(1) == if n >= 2 { 1 } else { 0 }, "a second connection error wakes nobody");
    match arc.lock_guard() {
        Err(e) => {
            assert!(e.kind() == k1, "every later access returns the connection's (first) error");
            ::core::mem::forget(e);
        }
        Ok(g) => {
            ::core::mem::forget(g);
            panic!("parameters must be poisoned");
        }
    }
    kani::cover!(n == 2, "two waiting tasks");
    kani::cover!(n == 0, "nobody waiting");
    ::core::mem::forget(arc);
    ::core::mem::forget(keep);
}
