// C16 — `Receiving<F>` / `ArcReceiving<F>` (qbase/src/lib.rs, Future impl in frame/io.rs).
// Compiled inside the crate root of qbase (overlay, cfg(kani) only).
//
// Every method of ArcReceiving holds the mutex for its whole body, so a schedule is a sequence
// of the real `Receiving` methods: poll (waiter) / recv_frame / reset (notifiers).
use core::{future::Future, pin::Pin, task::{Context, Poll}};

use super::*;

include!("wake_common.rs");
use vwk::{waker, wakes};

const K: usize = 4;

/// One symbolic schedule of K atomic steps over a `Receiving<u8>`.
/// `asleep0`: the waiter is already registered and asleep at the start.
/// `assume_triggers_away`: exclude the two suspected-defect triggers
///    (T1) poll while the state is `Pending`, (T2) recv_frame after a frame/reset was already stored.
struct Outcome {
    asleep: bool,
    notified: bool,
    woken: bool,
    first_result: Option<Result<Option<u8>, ()>>,
}

fn schedule(mut st: Receiving<u8>, asleep0: bool, assume_triggers_away: bool) -> Outcome {
    let w = waker(0);
    let mut cx = Context::from_waker(&w);
    let mut asleep = asleep0; // last poll returned Pending
    let mut wakes_at_poll = wakes(0);
    let mut notified = false; // a frame was delivered or the receiver was reset (ghost)
    let mut first_frame: Option<u8> = None;
    let mut reset_done = false;
    let mut first_result: Option<Result<Option<u8>, ()>> = None;
    let mut i = 0;
    while i < K {
        let choice: u8 = kani::any();
        kani::assume(choice < 3);
        match choice {
            0 => {
                if assume_triggers_away {
                    kani::assume(!matches!(st, Receiving::Pending));
                }
                let r = Pin::new(&mut st).poll(&mut cx);
                asleep = r.is_pending();
                wakes_at_poll = wakes(0);
                if let Poll::Ready(v) = r {
                    if reset_done {
                        assert!(v.is_err(), "after reset (close) every poll completes with the reset error");
                    }
                    if first_result.is_none() {
                        first_result = Some(v.map_err(|_| ()));
                    }
                }
            }
            1 => {
                if assume_triggers_away {
                    kani::assume(matches!(st, Receiving::Pending | Receiving::Waiting(_)));
                }
                let f: u8 = kani::any();
                st.recv_frame(f);
                if !notified {
                    first_frame = Some(f);
                }
                notified = true;
            }
            _ => {
                st.reset();
                reset_done = true;
                notified = true;
            }
        }
        i += 1;
    }
    let woken = wakes(0) != wakes_at_poll;
    // quiescence: a task that went to sleep and whose condition has been made true was woken
    if asleep && !woken {
        assert!(!notified, "no lost wake-up: frame delivered / reset while the task sleeps unwoken");
        // protocol-independent formulation: a further poll would still not complete
        let probe = Pin::new(&mut st).poll(&mut cx);
        assert!(probe.is_pending(), "sleeping unwoken task: poll would complete");
    }
    if reset_done {
        let probe = Pin::new(&mut st).poll(&mut cx);
        assert!(matches!(probe, Poll::Ready(Err(_))), "closed receiver: poll completes with the reset error, never blocks");
    }
    if let Some(Ok(Some(f))) = first_result {
        assert!(first_frame == Some(f), "the delivered frame is the first one received");
    }
    if let Some(Ok(None)) = first_result {
        assert!(false, "the first completion is never the already-read marker");
    }
    core::mem::forget(st);
    Outcome { asleep, notified, woken, first_result }
}

/// Exposes suspected defect #14: poll in the initial `Pending` state returns Pending without
/// storing the waker (`_cx` unused), so a later recv_frame/reset wakes nobody.
/// (Also reaches #14b: recv_frame on Rcvd/Read/Reset clobbers the state to `Pending`.)
#[kani::proof]
#[kani::unwind(6)]
fn c16_receiving_schedule() {
    let o = schedule(Receiving::Pending, false, false);
    kani::cover!(o.asleep && !o.notified, "still legitimately asleep");
    kani::cover!(matches!(o.first_result, Some(Ok(Some(_)))), "frame delivered to the waiter");
}

/// Concrete witness of #14 alone (no symbolic input: replayed natively as is): the task polls the
/// fresh receiver (Pending), then the frame arrives: nobody is woken, because poll never stored
/// the waker (`_cx` is unused in the `Pending` arm of `<Receiving<F> as Future>::poll`).
#[kani::proof]
#[kani::unwind(6)]
fn c16_receiving_waker_not_stored_witness() {
    let mut st: Receiving<u8> = Receiving::Pending;
    let w = waker(0);
    let mut cx = Context::from_waker(&w);
    let r = Pin::new(&mut st).poll(&mut cx);
    assert!(r.is_pending());
    let before = wakes(0);
    st.recv_frame(7);
    kani::cover!(true, "reached");
    assert!(wakes(0) == before + 1, "the frame's arrival wakes the task that polled before it");
    core::mem::forget(st);
}

/// Minimal witness of #14b alone: a frame that arrives after reset() re-opens the receiver
/// (`mem::take` leaves `Pending`, the `_ => ()` arm does not restore the state).
#[kani::proof]
#[kani::unwind(6)]
fn c16_receiving_late_frame_after_reset() {
    let mut st: Receiving<u8> = Receiving::Pending;
    st.reset();
    st.recv_frame(kani::any());
    let w = waker(0);
    let mut cx = Context::from_waker(&w);
    let r = Pin::new(&mut st).poll(&mut cx);
    kani::cover!(true, "reached");
    assert!(matches!(r, Poll::Ready(Err(_))), "closed receiver stays closed");
}

/// Twin with both triggers assumed away, from the fresh state: only notifier-first schedules remain.
#[kani::proof]
#[kani::unwind(6)]
fn c16_receiving_schedule_fresh_twin() {
    let o = schedule(Receiving::Pending, false, true);
    kani::cover!(matches!(o.first_result, Some(Ok(Some(_)))), "frame delivered to the waiter");
    kani::cover!(matches!(o.first_result, Some(Err(()))), "reset observed by the waiter");
}

/// Twin with both triggers assumed away, waiter registered (`Waiting(waker)` — the state the type
/// was designed to enter on a Pending poll) and asleep at the start.
#[kani::proof]
#[kani::unwind(6)]
fn c16_receiving_schedule_registered_twin() {
    let mut st: Receiving<u8> = Receiving::Waiting(waker(0));
    let w = waker(0);
    let mut cx = Context::from_waker(&w);
    let r = Pin::new(&mut st).poll(&mut cx);
    assert!(r.is_pending());
    assert!(matches!(st, Receiving::Waiting(_)), "a registered waiter stays registered across polls");
    let o = schedule(st, true, true);
    kani::cover!(o.asleep && o.notified && o.woken, "slept, was notified and woken");
    kani::cover!(o.asleep && !o.notified, "still legitimately asleep");
    kani::cover!(matches!(o.first_result, Some(Ok(Some(_)))), "frame delivered to the waiter");
    kani::cover!(matches!(o.first_result, Some(Err(()))), "reset observed by the waiter");
}
