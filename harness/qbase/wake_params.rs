// C16 — `Parameters::{poll_ready, recv_remote_params, initial_scid_from_peer_need_equal}` and the
// failure path (`ArcParameters::on_conn_error` replaces the state by Err, which DROPS `Parameters`,
// whose Drop impl wakes every waiter). Compiled inside qbase::param (overlay, cfg(kani) only).
//
// `ArcParameters::remote_ready` polls `lock_guard()?.poll_ready(cx)` under one lock acquisition and
// every notifier is one `lock_guard()?.method()` call, so the atomic steps are the inner `&mut
// Parameters` methods, run here on a stack value (NOTES-tracing.md, item 6).
//
// Inductive formulation (schedules of ANY length, two waiting tasks). Ghost `asleep[t]` = "task t's
// last poll_ready returned Pending and its waker has not been invoked since".
//   INV:  asleep[t]  =>  !is_remote_params_ready()  &&  wakers contains t's waker
// INV holds initially; every atomic step from ANY state satisfying INV re-establishes it; dropping
// the Parameters (connection error) wakes every registered task. (A 4-step symbolic schedule with
// the HashMap-backed parameter sets did not finish in 200 s.)
// `ClientParameters`/`ServerParameters` run over verif_model::HashMap (props [[swap]]).
use ::core::task::{Context, Poll};

use super::*;

include!("wake_common.rs");
use vwk::{waker, wakes};

/// Work-around for a Kani 0.68 layout bug: the goto type generated for the niche-encoded enum
/// `ParameterValue` (Bytes + PreferredAddress variants) is LARGER than rustc's `size_of`, so
/// `Box::new` / `Arc::new` of a value containing it (Arc<Parameters<R>>) writes past the object the
/// allocator returned (spurious "pointer outside object bounds", and the copy is corrupted).
/// Every heap object gets 64 bytes of slack; deallocation is a no-op (sizes no longer match).
/// Given up in these harnesses: detection of heap overflows < 64 bytes and of bad deallocations.
pub(crate) unsafe fn stub_alloc_slack(layout: std::alloc::Layout) -> *mut u8 {
    unsafe {
        std::alloc::alloc_zeroed(std::alloc::Layout::from_size_align_unchecked(layout.size() + 64, layout.align()))
    }
}
pub(crate) unsafe fn stub_dealloc_leak(_ptr: *mut u8, _layout: std::alloc::Layout) {}
pub(crate) unsafe fn stub_dealloc_nn_leak(_ptr: ::core::ptr::NonNull<u8>, _layout: std::alloc::Layout) {}
pub(crate) unsafe fn stub_realloc_nn_slack(ptr: ::core::ptr::NonNull<u8>, layout: std::alloc::Layout, new_size: usize) -> *mut u8 {
    unsafe { stub_realloc_slack(ptr.as_ptr(), layout, new_size) }
}
pub(crate) unsafe fn stub_realloc_slack(ptr: *mut u8, layout: std::alloc::Layout, new_size: usize) -> *mut u8 {
    unsafe {
        let new = std::alloc::alloc_zeroed(std::alloc::Layout::from_size_align_unchecked(new_size + 64, layout.align()));
        let n = if layout.size() < new_size { layout.size() } else { new_size };
        ::core::ptr::copy_nonoverlapping(ptr, new, n);
        new
    }
}

/// 1-byte connection id with a symbolic byte (the waker protocol does not depend on cid length;
/// lengths 0..=20 are covered by the C18 authenticate harnesses).
fn cid1(b: u8) -> ConnectionId {
    let mut c = ConnectionId::default();
    c.len = 1;
    c.bytes[0] = b;
    c
}

struct Pre {
    p: Parameters,
    params_in: bool,
    scid_in: bool,
    authentic: bool,
    asleep: [bool; 2],
}

fn has_waker(p: &Parameters, t: usize) -> bool {
    let w = waker(t);
    let mut found = false;
    let mut i = 0;
    while i < 3 {
        if i < p.wakers.len() && p.wakers[i].will_wake(&w) {
            found = true;
        }
        i += 1;
    }
    found
}

fn inv(p: &Parameters, asleep: &[bool; 2]) -> bool {
    (!asleep[0] || (!p.is_remote_params_ready() && has_waker(p, 0)))
        && (!asleep[1] || (!p.is_remote_params_ready() && has_waker(p, 1)))
}

/// The peer's parameter set (declares initial_source_connection_id = decl, and for a server also
/// original_destination_connection_id = odcid_decl).
fn peer_client(decl: u8) -> ClientParameters {
    let mut c = ClientParameters::new();
    ::core::mem::forget(c.set(ParameterId::InitialSourceConnectionId, cid1(decl)));
    c
}
fn peer_server(decl: u8, odcid_decl: u8) -> ServerParameters {
    let mut s = ServerParameters::new();
    ::core::mem::forget(s.set(ParameterId::InitialSourceConnectionId, cid1(decl)));
    ::core::mem::forget(s.set(ParameterId::OriginalDestinationConnectionId, cid1(odcid_decl)));
    s
}

struct Cids {
    decl: u8,
    wire: u8,
    odcid_decl: u8,
    odcid: u8,
}

/// Arbitrary state of the given role built from the private fields: each of the two events (peer
/// parameters / first Initial packet) already happened or not; 0..=2 registered wakers of tasks
/// {0,1}; if both events happened they were authentic (otherwise the second one failed and the
/// connection error dropped the Parameters); INV assumed.
fn any_pre(as_client: bool, c: &Cids, params_in: bool, scid_in: bool) -> Pre {
    let authentic = c.decl == c.wire && (!as_client || c.odcid_decl == c.odcid);
    kani::assume(!(params_in && scid_in && !authentic));
    let ready = params_in && scid_in;
    let mut wakers = Vec::with_capacity(2);
    let n: usize = kani::any();
    kani::assume(n <= 2);
    if n >= 1 {
        wakers.push(if kani::any() { waker(0) } else { waker(1) });
    }
    if n >= 2 {
        wakers.push(if kani::any() { waker(0) } else { waker(1) });
    }
    let initial_scid = if scid_in { Some(cid1(c.wire)) } else { None };
    let p = if as_client {
        let mut local = ClientParameters::new();
        ::core::mem::forget(local.set(ParameterId::InitialSourceConnectionId, cid1(0)));
        Parameters {
            state: if ready { Parameters::CLIENT_READY | Parameters::SERVER_READY } else { Parameters::CLIENT_READY },
            client: Arc::new(local),
            server: if params_in { Arc::new(peer_server(c.decl, c.odcid_decl)) } else { Arc::default() },
            remembered: None,
            requirements: Requirements::Client { initial_scid, retry_scid: None, origin_dcid: cid1(c.odcid) },
            wakers,
        }
    } else {
        let mut local = ServerParameters::new();
        ::core::mem::forget(local.set(ParameterId::InitialSourceConnectionId, cid1(0)));
        Parameters {
            state: if ready { Parameters::CLIENT_READY | Parameters::SERVER_READY } else { Parameters::SERVER_READY },
            client: if params_in { Arc::new(peer_client(c.decl)) } else { Arc::default() },
            server: Arc::new(local),
            remembered: None,
            requirements: Requirements::Server { initial_scid },
            wakers,
        }
    };
    let asleep: [bool; 2] = kani::any();
    kani::assume(inv(&p, &asleep));
    Pre { p, params_in, scid_in, authentic, asleep }
}

fn any_cids() -> Cids {
    Cids { decl: kani::any(), wire: kani::any(), odcid_decl: kani::any(), odcid: kani::any() }
}

/// waiter step: poll_ready by task 0 from any INV state (either role, any progress).
#[kani::proof]
#[kani::stub(std::alloc::alloc, stub_alloc_slack)]
#[kani::stub(std::alloc::dealloc, stub_dealloc_leak)]
#[kani::stub(std::alloc::realloc, stub_realloc_slack)]
#[kani::stub(alloc::alloc::dealloc_nonnull, stub_dealloc_nn_leak)]
#[kani::stub(alloc::alloc::realloc_nonnull, stub_realloc_nn_slack)]
#[kani::unwind(5)]
fn c16_params_step_poll() {
    let c = any_cids();
    let mut pre = any_pre(kani::any(), &c, kani::any(), kani::any());
    let ready = pre.params_in && pre.scid_in;
    assert!(pre.p.is_remote_params_ready() == ready);
    let before = [wakes(0), wakes(1)];
    let w = waker(0);
    let mut cx = Context::from_waker(&w);
    match pre.p.poll_ready(&mut cx) {
        Poll::Ready(()) => {
            assert!(ready, "Ready only once the peer's parameters are received and authenticated");
            pre.asleep[0] = false;
        }
        Poll::Pending => {
            assert!(!ready, "Pending only while the peer's parameters are not ready");
            pre.asleep[0] = true;
        }
    }
    assert!(wakes(0) == before[0] && wakes(1) == before[1], "polling wakes nobody");
    assert!(inv(&pre.p, &pre.asleep), "a Pending poll leaves the task registered; the other sleeper stays registered");
    kani::cover!(pre.asleep[0] && pre.asleep[1], "both tasks asleep");
    kani::cover!(!pre.asleep[0], "ready");
    ::core::mem::forget(pre);
}

/// notifier step: one of the two events arrives (the other one already happened or not).
fn step_event<const AS_CLIENT: bool, const PARAMS: bool>() {
    let c = any_cids();
    let other_in: bool = kani::any();
    let mut pre = if PARAMS { any_pre(AS_CLIENT, &c, false, other_in) } else { any_pre(AS_CLIENT, &c, other_in, false) };
    let before = [wakes(0), wakes(1)];
    let registered = [has_waker(&pre.p, 0), has_waker(&pre.p, 1)];
    let r = if PARAMS {
        if AS_CLIENT {
            pre.p.recv_remote_params(peer_server(c.decl, c.odcid_decl))
        } else {
            pre.p.recv_remote_params(peer_client(c.decl))
        }
    } else {
        pre.p.initial_scid_from_peer_need_equal(cid1(c.wire))
    };
    let authentic = c.decl == c.wire && (!AS_CLIENT || c.odcid_decl == c.odcid);
    let decided = other_in;
    assert!(r.is_ok() == !(decided && !authentic), "fails exactly when both events are in and a cid differs");
    assert!(pre.p.is_remote_params_ready() == (decided && authentic));
    let mut t = 0;
    while t < 2 {
        let woken = wakes(t) != before[t];
        if decided && authentic {
            assert!(woken == registered[t], "becoming ready wakes every registered task (once), nobody else");
            assert!(wakes(t) <= before[t] + 2);
            if pre.asleep[t] {
                assert!(woken, "no lost wake-up: the sleeping task is woken when the parameters become ready");
            }
        } else {
            assert!(!woken, "nobody is woken before the parameters are ready");
        }
        if woken {
            pre.asleep[t] = false;
        }
        t += 1;
    }
    if r.is_ok() {
        assert!(inv(&pre.p, &pre.asleep), "INV re-established");
    } else {
        // authentication failure -> connection error -> ArcParameters::on_conn_error replaces the
        // state by Err(e), dropping the Parameters: every sleeper is woken (c16_params_step_fail)
        kani::cover!(true, "authentication failure");
    }
    kani::cover!(decided && authentic && !pre.asleep[0] && !pre.asleep[1] && registered[0] && registered[1], "two sleepers woken by readiness");
    kani::cover!(!decided && registered[1], "first event: sleeper stays asleep");
    ::core::mem::forget(r);
    ::core::mem::forget(pre);
}

#[kani::proof]
#[kani::stub(std::alloc::alloc, stub_alloc_slack)]
#[kani::stub(std::alloc::dealloc, stub_dealloc_leak)]
#[kani::stub(std::alloc::realloc, stub_realloc_slack)]
#[kani::stub(alloc::alloc::dealloc_nonnull, stub_dealloc_nn_leak)]
#[kani::stub(alloc::alloc::realloc_nonnull, stub_realloc_nn_slack)]
#[kani::unwind(5)]
fn c16_params_step_recv_params_client() {
    step_event::<true, true>();
}

#[kani::proof]
#[kani::stub(std::alloc::alloc, stub_alloc_slack)]
#[kani::stub(std::alloc::dealloc, stub_dealloc_leak)]
#[kani::stub(std::alloc::realloc, stub_realloc_slack)]
#[kani::stub(alloc::alloc::dealloc_nonnull, stub_dealloc_nn_leak)]
#[kani::stub(alloc::alloc::realloc_nonnull, stub_realloc_nn_slack)]
#[kani::unwind(5)]
fn c16_params_step_recv_params_server() {
    step_event::<false, true>();
}

#[kani::proof]
#[kani::stub(std::alloc::alloc, stub_alloc_slack)]
#[kani::stub(std::alloc::dealloc, stub_dealloc_leak)]
#[kani::stub(std::alloc::realloc, stub_realloc_slack)]
#[kani::stub(alloc::alloc::dealloc_nonnull, stub_dealloc_nn_leak)]
#[kani::stub(alloc::alloc::realloc_nonnull, stub_realloc_nn_slack)]
#[kani::unwind(5)]
fn c16_params_step_scid_client() {
    step_event::<true, false>();
}

#[kani::proof]
#[kani::stub(std::alloc::alloc, stub_alloc_slack)]
#[kani::stub(std::alloc::dealloc, stub_dealloc_leak)]
#[kani::stub(std::alloc::realloc, stub_realloc_slack)]
#[kani::stub(alloc::alloc::dealloc_nonnull, stub_dealloc_nn_leak)]
#[kani::stub(alloc::alloc::realloc_nonnull, stub_realloc_nn_slack)]
#[kani::unwind(5)]
fn c16_params_step_scid_server() {
    step_event::<false, false>();
}

/// failure step: the connection error drops the Parameters (`*guard = Err(e)` in
/// ArcParameters::on_conn_error); Drop wakes every registered task.
#[kani::proof]
#[kani::stub(std::alloc::alloc, stub_alloc_slack)]
#[kani::stub(std::alloc::dealloc, stub_dealloc_leak)]
#[kani::stub(std::alloc::realloc, stub_realloc_slack)]
#[kani::stub(alloc::alloc::dealloc_nonnull, stub_dealloc_nn_leak)]
#[kani::stub(alloc::alloc::realloc_nonnull, stub_realloc_nn_slack)]
#[kani::unwind(5)]
fn c16_params_step_fail() {
    let c = any_cids();
    let pre = any_pre(true, &c, false, kani::any());
    let before = [wakes(0), wakes(1)];
    let registered = [has_waker(&pre.p, 0), has_waker(&pre.p, 1)];
    let Pre { p, asleep, .. } = pre;
    drop(p);
    let mut t = 0;
    while t < 2 {
        assert!((wakes(t) != before[t]) == registered[t], "failing the parameters wakes every registered task");
        if asleep[t] {
            assert!(wakes(t) != before[t], "no sleeper is left behind when the connection fails");
        }
        t += 1;
    }
    kani::cover!(asleep[0] && asleep[1], "two sleepers woken by the failure");
}
