// Kani harnesses compiled inside qbase::cid::local_cid (overlay, cfg(kani) only).  Property C04.
//
// Work and error kinds of the issuing side for peer-controlled numbers:
//   * LocalCids::set_limit(l): l = the peer's active_connection_id_limit transport parameter
//     (qconnection/src/builder.rs apply_parameters -> local_cids.set_limit(..)); issues one
//     connection ID (gen_unique_cid = a router insertion + a NEW_CONNECTION_ID frame + a 16-byte
//     reset token) per loop iteration.
//   * LocalCids::recv_retire_cid_frame: RETIRE_CONNECTION_ID with any 62-bit sequence number.
//
// The inner std VecDeque of IndexDeque is replaced by verif_model::VecDeque (import swap).
// ISSUED is a counting sink (pattern of harness/qbase/cid_tables_local.rs, property C14).
use core::cell::Cell;

use super::*;
use crate::param::core::{ParameterId, ParameterValue};

fn stub_fmt(_a: core::fmt::Arguments<'_>) -> String {
    String::new()
}

fn stub_token() -> ResetToken {
    ResetToken::default()
}

const M62: u64 = 1u64 << 62;

fn cid_of(k: u64) -> ConnectionId {
    let b = k.to_be_bytes();
    let mut bytes = [0u8; crate::cid::MAX_CID_SIZE];
    bytes[0] = b[0];
    bytes[1] = b[1];
    bytes[2] = b[2];
    bytes[3] = b[3];
    bytes[4] = b[4];
    bytes[5] = b[5];
    bytes[6] = b[6];
    bytes[7] = b[7];
    ConnectionId { len: 8, bytes }
}

/// Ghost cost counters: what one call makes the table ask its environment for.
struct Sink {
    generated: Cell<u64>, // gen_unique_cid calls (router insertions)
    frames: Cell<u64>,    // NEW_CONNECTION_ID frames queued
    last_seq: Cell<u64>,
    last_rpt: Cell<u64>,
    retired: Cell<u64>, // retire_cid calls (router removals)
}

impl Sink {
    fn new() -> Self {
        Sink { generated: Cell::new(0), frames: Cell::new(0), last_seq: Cell::new(0), last_rpt: Cell::new(0), retired: Cell::new(0) }
    }
}

impl GenUniqueCid for Sink {
    fn gen_unique_cid(&self) -> ConnectionId {
        let k = self.generated.get();
        self.generated.set(k + 1);
        cid_of(1000 + k)
    }
}

impl RetireCid for Sink {
    fn retire_cid(&self, _cid: ConnectionId) {
        self.retired.set(self.retired.get() + 1);
    }
}

impl SendFrame<NewConnectionIdFrame> for Sink {
    fn send_frame<I: IntoIterator<Item = NewConnectionIdFrame>>(&self, iter: I) {
        for f in iter {
            self.frames.set(self.frames.get() + 1);
            self.last_seq.set(f.sequence());
            self.last_rpt.set(f.retire_prior_to());
        }
    }
}

type Table = LocalCids<Sink>;

/// A table with N entries (symbolic Some/None pattern, first and last Some: leading Nones are slid
/// out on every retirement and every retirement appends a fresh Some) at offset `off`.
fn any_table<const N: usize>(off: u64, limit: Option<u64>) -> (Table, [bool; N]) {
    let some: [bool; N] = kani::any();
    kani::assume(some[0] && some[N - 1]);
    let mut deque: IndexDeque<Option<(ConnectionId, ResetToken)>, VARINT_MAX> = IndexDeque::default();
    deque.reset_offset(off);
    let mut i = 0;
    while i < N {
        let e = if some[i] { Some((cid_of(off + i as u64), ResetToken::default())) } else { None };
        deque.push_back(e).unwrap();
        i += 1;
    }
    (LocalCids { cid_deque: deque, issued_cids: Sink::new(), active_cid_limit: limit }, some)
}

// ---- RETIRE_CONNECTION_ID ----------------------------------------------------------------------------

/// One RETIRE_CONNECTION_ID frame with ANY 62-bit sequence number.
/// `exact_kind`: additionally demand the RFC's error kind for a never-issued number.
fn retire_step<const N: usize>(off: u64, exact_kind: bool) {
    let (mut t, some) = any_table::<N>(off, Some(4));
    let largest = off + N as u64; // next sequence number to be issued
    let seq: u64 = kani::any();
    kani::assume(seq < M62);
    let r = t.recv_retire_cid_frame(RetireConnectionIdFrame::new(VarInt::from_u64(seq).unwrap()));
    let s = &t.issued_cids;
    // bounded work, whatever the number: at most one id issued / one route removed per frame
    assert!(s.generated.get() <= 1 && s.frames.get() == s.generated.get() && s.retired.get() == s.generated.get(),
        "C04: one RETIRE_CONNECTION_ID frame issues at most one replacement and removes at most one route");
    if seq >= largest {
        // "Receipt of a RETIRE_CONNECTION_ID frame containing a sequence number greater than any
        //  previously sent to the peer MUST be treated as a connection error of type
        //  PROTOCOL_VIOLATION." (RFC 9000 §19.16)
        match &r {
            Err(Error::Quic(e)) => {
                assert!(matches!(e.frame_type(), crate::error::ErrorFrameType::V1(FrameType::RetireConnectionId)), "the error names the frame");
                if exact_kind {
                    assert!(e.kind() == ErrorKind::ProtocolViolation, "RFC 9000 19.16: PROTOCOL_VIOLATION");
                } else {
                    // what the code answers today (see the pending harness)
                    assert!(e.kind() == ErrorKind::ConnectionIdLimit || e.kind() == ErrorKind::ProtocolViolation);
                }
            }
            _ => panic!("C04: retirement of a sequence number that was never issued must close the connection"),
        }
        assert!(s.generated.get() == 0 && t.cid_deque.offset() == off && t.cid_deque.len() == N, "a refused frame is not acted on");
    } else {
        assert!(r.is_ok(), "retirement of an issued sequence number is accepted");
        let active = seq >= off && some[(seq - off) as usize];
        assert!(s.generated.get() == if active { 1 } else { 0 }, "exactly one replacement iff the id was still active");
        if active {
            assert!(s.last_seq.get() == largest && t.cid_deque.largest() == largest + 1, "the replacement takes the next sequence number");
            assert!(s.last_rpt.get() == t.cid_deque.offset() && t.cid_deque.offset() >= off);
        } else {
            assert!(t.cid_deque.offset() == off && t.cid_deque.len() == N);
        }
    }
    kani::cover!(seq >= largest, "never issued");
    kani::cover!(off == 0 || seq < off, "retired long ago");
    kani::cover!(r.is_ok() && s.generated.get() == 1, "active id retired");
    core::mem::forget(r);
    core::mem::forget(t);
}

#[kani::proof]
#[kani::unwind(6)]
#[kani::stub(alloc::fmt::format, stub_fmt)]
#[kani::stub(crate::token::ResetToken::random_gen, stub_token)]
fn c04_localcid_retire_any_seq_n2() {
    retire_step::<2>(0, false);
}

#[kani::proof]
#[kani::unwind(6)]
#[kani::stub(alloc::fmt::format, stub_fmt)]
#[kani::stub(crate::token::ResetToken::random_gen, stub_token)]
fn c04_localcid_retire_any_seq_n3_slid() {
    retire_step::<3>(5, false);
}

/// pending: the error KIND for a never-issued number is CONNECTION_ID_LIMIT_ERROR, RFC 9000 §19.16
/// prescribes PROTOCOL_VIOLATION.
#[kani::proof]
#[kani::unwind(6)]
#[kani::stub(alloc::fmt::format, stub_fmt)]
#[kani::stub(crate::token::ResetToken::random_gen, stub_token)]
fn c04_p_localcid_retire_unissued_error_kind() {
    retire_step::<2>(0, true);
}

// ---- set_limit -----------------------------------------------------------------------------------------

/// set_limit(l) on the table `LocalCids::new` creates (sequence numbers 0 and 1 issued), for every
/// l the model container can hold: the REAL loop issues exactly max(0, l - 2) connection IDs,
/// numbered consecutively -- the cost of one call is linear in the peer-chosen l.
/// l < 2 -> TRANSPORT_PARAMETER_ERROR and nothing is issued.
#[kani::proof]
#[kani::unwind(6)]
#[kani::stub(alloc::fmt::format, stub_fmt)]
#[kani::stub(crate::token::ResetToken::random_gen, stub_token)]
fn c04_localcid_set_limit_issues_l_minus_2() {
    let mut t = LocalCids::new(cid_of(0), Sink::new());
    assert!(t.cid_deque.largest() == 2 && t.issued_cids.generated.get() == 1);
    let l: u64 = kani::any();
    kani::assume(l <= 4); // container-model capacity; the loop has no other bound (next harness)
    let r = t.set_limit(l);
    let s = &t.issued_cids;
    if l < 2 {
        match &r {
            Err(Error::Quic(e)) => assert!(e.kind() == ErrorKind::TransportParameter),
            _ => panic!("active_connection_id_limit < 2 must be rejected with TRANSPORT_PARAMETER_ERROR"),
        }
        assert!(s.generated.get() == 1 && t.active_cid_limit.is_none());
    } else {
        assert!(r.is_ok() && t.active_cid_limit == Some(l));
        assert!(s.generated.get() == 1 + (l - 2) && s.frames.get() == s.generated.get(), "issues exactly l - 2 ids");
        assert!(t.cid_deque.largest() == l);
        if l > 2 {
            assert!(s.last_seq.get() == l - 1 && s.last_rpt.get() == 0);
        }
    }
    assert!(s.retired.get() == 0);
    kani::cover!(l == 4, "two ids issued by one call");
    kani::cover!(l < 2, "rejected");
    core::mem::forget(r);
    core::mem::forget(t);
}

/// What bound does parameter validation impose on l? None: ParameterId::ActiveConnectionIdLimit
/// (`bound = 2..=VARINT_MAX` in param/core.rs) accepts exactly the values >= 2, up to 2^62-1.
#[kani::proof]
#[kani::unwind(6)]
#[kani::stub(alloc::fmt::format, stub_fmt)]
fn c04_localcid_limit_param_validation() {
    let l: u64 = kani::any();
    kani::assume(l < M62);
    let r = ParameterId::ActiveConnectionIdLimit.validate(&ParameterValue::VarInt(VarInt::from_u64(l).unwrap()));
    assert!(r.is_ok() == (l >= 2), "accepted iff >= 2: no upper bound below 2^62");
    kani::cover!(r.is_ok() && l == M62 - 1, "2^62-1 accepted");
    kani::cover!(r.is_err());
    core::mem::forget(r);
}

/// pending (suspected genuine defect #7): ids issued by ONE set_limit call (= l - 2 on the fresh
/// table, established by c04_localcid_set_limit_issues_l_minus_2; `for _ in largest..l`) for
/// every l that parameter validation lets through, bound asserted: 2^16.
#[kani::proof]
#[kani::unwind(6)]
#[kani::stub(alloc::fmt::format, stub_fmt)]
#[kani::stub(crate::token::ResetToken::random_gen, stub_token)]
fn c04_p_localcid_set_limit_issue_count_bounded() {
    let l: u64 = kani::any();
    kani::assume(l < M62);
    let r = ParameterId::ActiveConnectionIdLimit.validate(&ParameterValue::VarInt(VarInt::from_u64(l).unwrap()));
    kani::assume(r.is_ok());
    let t = LocalCids::new(cid_of(0), Sink::new());
    // trip count of `for _ in self.cid_deque.largest()..active_cid_limit` in set_limit
    let range = t.cid_deque.largest()..l;
    let issued = if range.end > range.start { range.end - range.start } else { 0 };
    kani::cover!(issued == 0);
    assert!(issued <= (1 << 16), "C04: connection IDs issued by one set_limit call <= 2^16");
    core::mem::forget(r);
    core::mem::forget(t);
}
