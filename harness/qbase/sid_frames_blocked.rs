// Kani harness compiled inside qbase::frame::streams_blocked (overlay injection, cfg(kani) only).
// Property C12 (lemma used by c12_remote_blocked_demand): the STREAMS_BLOCKED parser accepts a value iff
// it is <= 2^60-1 (RFC 9000 section 19.14; same bound as MAX_STREAMS). On the pinned tree it accepted EVERY
// varint up to 2^62-1 and nothing between the wire and `RemoteStreamIds::recv_streams_blocked_frame`
// bounded the value (genuine defect, fixed in /repo).
use super::*;

#[kani::proof]
#[kani::unwind(10)]
fn c12_streams_blocked_frame_bound() {
    let arr: [u8; 9] = kani::any();
    let len: usize = kani::any();
    kani::assume(len <= 9);
    let dir = if kani::any() { Dir::Bi } else { Dir::Uni };
    // independent reading of the varint
    let complete = len >= 1 && len >= (1usize << (arr[0] >> 6));
    match streams_blocked_frame_with_dir(dir)(&arr[..len]) {
        Ok((remain, f)) => {
            let v = match f {
                StreamsBlockedFrame::Bi(v) => {
                    assert!(dir == Dir::Bi);
                    v.into_u64()
                }
                StreamsBlockedFrame::Uni(v) => {
                    assert!(dir == Dir::Uni);
                    v.into_u64()
                }
            };
            assert!(complete && remain.len() < len);
            assert!(v <= crate::sid::MAX_STREAMS_LIMIT, "STREAMS_BLOCKED above 2^60-1 must be rejected");
            kani::cover!(v == crate::sid::MAX_STREAMS_LIMIT, "largest accepted value");
        }
        Err(e) => {
            if complete && (arr[0] >> 6) < 3 {
                panic!("a STREAMS_BLOCKED value below 2^30 was rejected");
            }
            if complete {
                // 8-byte varint: rejected only above the limit
                let v = (((arr[0] & 0x3f) as u64) << 56)
                    | ((arr[1] as u64) << 48) | ((arr[2] as u64) << 40) | ((arr[3] as u64) << 32)
                    | ((arr[4] as u64) << 24) | ((arr[5] as u64) << 16) | ((arr[6] as u64) << 8) | arr[7] as u64;
                assert!(v > crate::sid::MAX_STREAMS_LIMIT, "a STREAMS_BLOCKED value within 2^60-1 was rejected");
                kani::cover!(true, "over-limit value rejected");
            }
            core::mem::forget(e);
        }
    }
}
