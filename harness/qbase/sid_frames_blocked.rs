// Kani harness compiled inside qbase::frame::streams_blocked (overlay injection, cfg(kani) only).
// Property C12 (reachability lemma for the pending harness c12_remote_blocked_demand_any_pending): the
// STREAMS_BLOCKED parser accepts EVERY varint, including values above 2^60 and 2^62-1 itself —
// nothing between the wire and `RemoteStreamIds::recv_streams_blocked_frame` bounds the value.
use super::*;

#[kani::proof]
#[kani::unwind(10)]
fn c12_streams_blocked_frame_unbounded() {
    let arr: [u8; 9] = kani::any();
    let len: usize = kani::any();
    kani::assume(len <= 9);
    let dir = if kani::any() { Dir::Bi } else { Dir::Uni };
    if let Ok((remain, f)) = streams_blocked_frame_with_dir(dir)(&arr[..len]) {
        let v = match f {
            StreamsBlockedFrame::Bi(v) => {
                assert!(dir == Dir::Bi);
                v.into_u64()
            }
            StreamsBlockedFrame::Uni(v) => {
                assert!(dir == Dir::Uni);
                v.into_u64()
            }
        };
        assert!(v <= crate::varint::VARINT_MAX && remain.len() < len);
        kani::cover!(v == crate::varint::VARINT_MAX, "STREAMS_BLOCKED(2^62-1) is accepted by the parser");
        kani::cover!(v > (1u64 << 60), "STREAMS_BLOCKED above 2^60 is accepted by the parser");
    }
}
