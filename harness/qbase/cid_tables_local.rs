// Kani harnesses compiled inside qbase::cid::local_cid (overlay, cfg(kani) only).
// Property C14, issuing side: LocalCids::{new, set_limit, issue_new_cid, recv_retire_cid_frame, clear}.
//
// The inner std VecDeque of IndexDeque is replaced by verif_model::VecDeque (import swap,
// DESIGN.md §2.4). ISSUED is a harness sink: a counter-based unique-cid generator (the k-th cid is
// the 8-byte big-endian encoding of k), a recorder of emitted NEW_CONNECTION_ID frames and a
// recorder of retire_cid calls. gen_unique_cid / retire_cid are exactly the hooks through which the
// real router (qinterface QuicRouterRegistry, outside the claim) inserts / removes a route, so
// "live set seen through the hooks == set of unretired entries of the table" is the table-level
// half of "stops routing to an ID once it is retired ... routes every live ID".
//
// One inductive step per harness from an ARBITRARY table satisfying the representation invariant
// R (below), shapes: N <= 3 entries, symbolic Some/None pattern, concrete offsets (see below).
use core::cell::Cell;

use super::*;

fn stub_fmt(_a: core::fmt::Arguments<'_>) -> String {
    String::new()
}

fn stub_token() -> ResetToken {
    ResetToken::default()
}

// Offsets (number of ids already slid out of the table) are CONCRETE per harness instance: a symbolic
// offset, even in a window of 8, made every step harness 7x slower (measured); the index arithmetic of
// IndexDeque itself is checked with a symbolic 62-bit offset under C10 (index_deque_ops.rs).
const OFF_FRESH: u64 = 0;
const OFF_SLID: u64 = 5;
const OFF_HIGH: u64 = VARINT_MAX - 8;
const WIN: u64 = 16;
const MAX_LIMIT: u64 = 4; // active_connection_id_limit in [2, MAX_LIMIT] (container model capacity) // ghost bit masks cover sequence numbers [base, base + WIN)

fn cid_of(k: u64) -> ConnectionId {
    let b = k.to_be_bytes();
    let mut bytes = [0u8; crate::cid::MAX_CID_SIZE];
    // loop-free on purpose (the unwind bound of the harnesses is dictated by the container model)
    bytes[0] = b[0];
    bytes[1] = b[1];
    bytes[2] = b[2];
    bytes[3] = b[3];
    bytes[4] = b[4];
    bytes[5] = b[5];
    bytes[6] = b[6];
    bytes[7] = b[7];
    ConnectionId { len: 8, bytes }
}

fn num_of(cid: &ConnectionId) -> u64 {
    assert!(cid.len == 8);
    let b = &cid.bytes;
    u64::from_be_bytes([b[0], b[1], b[2], b[3], b[4], b[5], b[6], b[7]])
}

/// The ISSUED sink. The cid generated for sequence number s is cid_of(s) (the generator's counter
/// starts at the table's next sequence number): cids are opaque to the table, so this labelling
/// loses nothing and makes "which cid" checkable as a number.
struct Sink {
    base: u64,          // window base of the masks
    next_gen: Cell<u64>, // counter of the generator
    frames: Cell<u64>,  // NEW_CONNECTION_ID frames emitted
    next_seq: Cell<u64>, // sequence number the next emitted frame must carry
    seq_ok: Cell<bool>, // every emitted frame carried next_seq, and its cid was the one just generated
    rpt_lo: Cell<u64>,  // min / max retire_prior_to over the emitted frames
    rpt_hi: Cell<u64>,
    live: Cell<u32>,    // bit (s - base): cid of sequence s is routed (generated or given, not retired)
    retire_calls: Cell<u64>,
    retire_bad: Cell<bool>, // retire_cid called for a cid that was not live
}

impl Sink {
    fn new(base: u64, next: u64, live: u32) -> Self {
        Sink {
            base,
            next_gen: Cell::new(next),
            frames: Cell::new(0),
            next_seq: Cell::new(next),
            seq_ok: Cell::new(true),
            rpt_lo: Cell::new(u64::MAX),
            rpt_hi: Cell::new(0),
            live: Cell::new(live),
            retire_calls: Cell::new(0),
            retire_bad: Cell::new(false),
        }
    }
    fn bit(&self, s: u64) -> u32 {
        assert!(s >= self.base && s - self.base < WIN);
        1u32 << (s - self.base)
    }
}

impl GenUniqueCid for Sink {
    fn gen_unique_cid(&self) -> ConnectionId {
        let k = self.next_gen.get();
        self.next_gen.set(k + 1);
        let b = self.bit(k);
        assert!(self.live.get() & b == 0, "generator is unique");
        self.live.set(self.live.get() | b);
        cid_of(k)
    }
}

impl RetireCid for Sink {
    fn retire_cid(&self, cid: ConnectionId) {
        let k = num_of(&cid);
        self.retire_calls.set(self.retire_calls.get() + 1);
        if k < self.base || k - self.base >= WIN || self.live.get() & self.bit(k) == 0 {
            self.retire_bad.set(true);
        } else {
            self.live.set(self.live.get() & !self.bit(k));
        }
    }
}

impl SendFrame<NewConnectionIdFrame> for Sink {
    fn send_frame<I: IntoIterator<Item = NewConnectionIdFrame>>(&self, iter: I) {
        for f in iter {
            let want = self.next_seq.get();
            // consecutive numbering, and the frame announces the cid the generator just produced
            if f.sequence() != want || num_of(f.connection_id()) != want || self.next_gen.get() != want + 1 {
                self.seq_ok.set(false);
            }
            self.next_seq.set(want + 1);
            self.frames.set(self.frames.get() + 1);
            let r = f.retire_prior_to();
            if r < self.rpt_lo.get() {
                self.rpt_lo.set(r);
            }
            if r > self.rpt_hi.get() {
                self.rpt_hi.set(r);
            }
        }
    }
}

type Table = LocalCids<Sink>;

/// Ghost copy of the table: offset + Some/None pattern (entry i <-> sequence off + i).
#[derive(Clone, Copy)]
struct Shape<const N: usize> {
    off: u64,
    some: [bool; N],
}

impl<const N: usize> Shape<N> {
    fn count(&self) -> u64 {
        let mut c = 0;
        let mut i = 0;
        while i < N {
            if self.some[i] {
                c += 1;
            }
            i += 1;
        }
        c
    }
    fn mask(&self) -> u32 {
        let mut m = 0u32;
        let mut i = 0;
        while i < N {
            if self.some[i] {
                m |= 1u32 << i;
            }
            i += 1;
        }
        m
    }
}

/// Representation invariant R of a table that was created by `new` and then only driven through
/// set_limit / recv_retire_cid_frame (not yet cleared):
///   R1 the first and the last entry are Some (leading Nones are slid out on every retirement, every
///      retirement appends a fresh Some),
///   R2 #Some <= active_cid_limit once the limit is set, #Some <= 2 before (2 = the RFC default),
///   R3 the entry of sequence s holds the cid generated for s, and exactly the Some entries are live.
/// Arbitrary table with N >= 2 entries satisfying R; `limit_set` selects whether the limit is known.
fn any_table<const N: usize>(off: u64, limit_set: bool) -> (Table, Shape<N>) {
    let some: [bool; N] = kani::any();
    kani::assume(some[0] && some[N - 1]);
    let shape = Shape { off, some };
    let mut deque: IndexDeque<Option<(ConnectionId, ResetToken)>, VARINT_MAX> = IndexDeque::default();
    deque.reset_offset(off);
    let mut i = 0;
    while i < N {
        let e = if some[i] { Some((cid_of(off + i as u64), ResetToken::default())) } else { None };
        deque.push_back(e).unwrap();
        i += 1;
    }
    let limit = if limit_set {
        let l: u64 = kani::any();
        kani::assume(l >= 2 && l <= MAX_LIMIT && shape.count() <= l);
        Some(l)
    } else {
        kani::assume(shape.count() <= 2);
        None
    };
    let sink = Sink::new(off, off + N as u64, shape.mask());
    (LocalCids { cid_deque: deque, issued_cids: sink, active_cid_limit: limit }, shape)
}

/// Number of the cid stored for sequence s (None: retired or outside the table).
fn entry_num(t: &Table, s: u64) -> Option<u64> {
    match t.cid_deque.get(s) {
        Some(Some((cid, _))) => Some(num_of(cid)),
        _ => None,
    }
}

/// R on the post-state (inductiveness), over the at most M entries the step can leave.
fn check_r<const M: usize>(t: &Table) {
    let d = &t.cid_deque;
    let len = d.len();
    assert!(len <= M);
    let off = d.offset();
    let mut count = 0u64;
    let mut mask = 0u32;
    let mut i = 0;
    while i < M {
        if i < len {
            let s = off + i as u64;
            if let Some(k) = entry_num(t, s) {
                assert!(k == s, "R3: the entry of sequence s holds the cid issued for s");
                count += 1;
                mask |= t.issued_cids.bit(s);
            }
        }
        i += 1;
    }
    if len > 0 {
        assert!(entry_num(t, off).is_some() && entry_num(t, off + len as u64 - 1).is_some(), "R1");
    }
    match t.active_cid_limit {
        Some(l) => assert!(count <= l, "C14: never more unretired connection IDs outstanding than the peer's limit"),
        None => assert!(count <= 2, "before the limit is known at most the default of 2 are outstanding"),
    }
    assert!(t.issued_cids.live.get() == mask, "R3: exactly the unretired entries are live (routed)");
}

// ------------------------------------------------------------------------------------------------
// recv_retire_cid_frame

struct Outcome {
    seq: u64,
    off: u64,
    largest: u64,
    was_active: bool,
    new_off: u64,
}

fn retire_step<const N: usize, const M: usize>(off: u64, limit_set: bool) -> Outcome {
    let mut out_active = false;
    let mut out_new_off = 0;
    let (mut t, sh) = any_table::<N>(off, limit_set);
    let largest = off + N as u64;
    let limit = t.active_cid_limit;
    let seq: u64 = kani::any();
    kani::assume(seq <= VARINT_MAX);
    let frame = RetireConnectionIdFrame::new(VarInt::from_u64(seq).unwrap());
    let x: u64 = kani::any(); // probe sequence number
    kani::assume(x >= off && x < largest);
    let x_before = entry_num(&t, x);
    let live_before = t.issued_cids.live.get();

    let r = t.recv_retire_cid_frame(frame);

    let s = &t.issued_cids;
    assert!(t.active_cid_limit == limit);
    assert!(!s.retire_bad.get(), "retire_cid is only ever called for a live cid");
    if seq >= largest {
        // never issued
        match r {
            Err(Error::Quic(e)) => {
                // RFC 9000 §19.16 asks for PROTOCOL_VIOLATION; the code answers CONNECTION_ID_LIMIT_ERROR
                // (see the pending harness c14_local_retire_unissued_error_kind_pending)
                assert!(e.kind() == ErrorKind::ProtocolViolation || e.kind() == ErrorKind::ConnectionIdLimit);
                assert!(matches!(e.frame_type(), crate::error::ErrorFrameType::V1(FrameType::RetireConnectionId)));
            }
            _ => panic!("C14: retirement of a sequence number that was never issued must be rejected"),
        }
        assert!(s.frames.get() == 0 && s.retire_calls.get() == 0 && s.live.get() == live_before);
        assert!(t.cid_deque.offset() == off && t.cid_deque.len() == N);
        assert!(entry_num(&t, x) == x_before);
    } else {
        assert!(r.is_ok(), "retirement of an issued sequence number is accepted");
        let was_active = seq >= off && sh.some[(seq - off) as usize];
        if !was_active {
            // retired before (slid out of the table, or a None entry): a no-op
            assert!(s.frames.get() == 0 && s.retire_calls.get() == 0 && s.live.get() == live_before);
            assert!(t.cid_deque.offset() == off && t.cid_deque.len() == N);
            assert!(entry_num(&t, x) == x_before);
        } else {
            // exactly one replacement, numbered consecutively, announcing the current offset
            assert!(s.frames.get() == 1 && s.seq_ok.get(), "exactly one NEW_CONNECTION_ID, sequence == next unissued");
            assert!(s.next_seq.get() == largest + 1);
            // new offset: first index whose entry is still Some after the removal
            let mut new_off = off;
            let mut i = 0;
            let mut stop = false;
            while i < N {
                if !stop {
                    if sh.some[i] && off + i as u64 != seq {
                        stop = true;
                    } else {
                        new_off += 1;
                    }
                }
                i += 1;
            }
            assert!(t.cid_deque.offset() == new_off, "the table slides past the retired prefix");
            assert!(t.cid_deque.largest() == largest + 1);
            assert!(s.rpt_lo.get() == new_off && s.rpt_hi.get() == new_off, "retire_prior_to == current offset");
            // the route of exactly that cid is removed, once
            assert!(s.retire_calls.get() == 1);
            assert!(s.live.get() == (live_before & !s.bit(seq)) | s.bit(largest));
            // every other entry is untouched, the retired one is gone, the new one is there
            let expect_x = if x == seq { None } else { x_before };
            assert!(entry_num(&t, x) == expect_x);
            assert!(entry_num(&t, largest) == Some(largest));
            // retiring the same number again is a no-op
            let again = t.recv_retire_cid_frame(frame);
            assert!(again.is_ok());
            assert!(t.issued_cids.frames.get() == 1 && t.issued_cids.retire_calls.get() == 1);
            assert!(t.cid_deque.offset() == new_off && t.cid_deque.largest() == largest + 1);
        }
        out_active = was_active;
        out_new_off = t.cid_deque.offset();
    }
    check_r::<M>(&t);
    core::mem::forget(t);
    Outcome { seq, off, largest, was_active: out_active, new_off: out_new_off }
}

#[kani::proof]
#[kani::unwind(6)]
#[kani::stub(alloc::fmt::format, stub_fmt)]
#[kani::stub(crate::token::ResetToken::random_gen, stub_token)]
fn c14_local_retire_n2() {
    let o = retire_step::<2, 3>(OFF_FRESH, kani::any());
    // (each satisfied cover costs a full JSON trace of the run: only the branches that matter here)
    kani::cover!(o.was_active && o.seq > o.off && o.new_off == o.off, "retire out of order: a hole");
    kani::cover!(o.seq >= o.largest, "retire an unissued number");
}

#[kani::proof]
#[kani::unwind(6)]
#[kani::stub(alloc::fmt::format, stub_fmt)]
#[kani::stub(crate::token::ResetToken::random_gen, stub_token)]
fn c14_local_retire_n3() {
    let o = retire_step::<3, 4>(OFF_SLID, kani::any());
    kani::cover!(o.was_active && o.new_off == o.off + 2, "retire the oldest: the table slides past an older hole");
    kani::cover!(!o.was_active && o.seq >= o.off && o.seq < o.largest, "retire a hole again: no-op");
}

// pending: the error KIND for an unissued sequence number. RFC 9000 §19.16: "Receipt of a
// RETIRE_CONNECTION_ID frame containing a sequence number greater than any previously sent to the
// peer MUST be treated as a connection error of type PROTOCOL_VIOLATION."
#[kani::proof]
#[kani::unwind(6)]
#[kani::stub(alloc::fmt::format, stub_fmt)]
#[kani::stub(crate::token::ResetToken::random_gen, stub_token)]
fn c14_local_retire_unissued_error_kind_pending() {
    let (mut t, _sh) = any_table::<2>(OFF_FRESH, true);
    let largest = t.cid_deque.largest();
    let seq: u64 = kani::any();
    kani::assume(seq >= largest && seq <= VARINT_MAX);
    let r = t.recv_retire_cid_frame(RetireConnectionIdFrame::new(VarInt::from_u64(seq).unwrap()));
    match r {
        Err(Error::Quic(e)) => assert!(e.kind() == ErrorKind::ProtocolViolation, "RFC 9000 19.16: PROTOCOL_VIOLATION"),
        _ => panic!("must be rejected"),
    }
    kani::cover!(seq == largest, "first unissued number");
    core::mem::forget(t);
}

// ------------------------------------------------------------------------------------------------
// set_limit (called once, when the peer's transport parameters arrive)

fn set_limit_step<const N: usize>(off: u64) {
    let (mut t, sh) = any_table::<N>(off, false);
    let off = sh.off;
    let largest = off + N as u64;
    let count = sh.count();
    let l: u64 = kani::any();
    kani::assume(l <= MAX_LIMIT);
    let live_before = t.issued_cids.live.get();

    let r = t.set_limit(l);

    let s = &t.issued_cids;
    assert!(!s.retire_bad.get() && s.retire_calls.get() == 0, "set_limit retires nothing");
    assert!(t.cid_deque.offset() == off);
    if l < 2 {
        match r {
            Err(Error::Quic(e)) => assert!(e.kind() == ErrorKind::TransportParameter),
            _ => panic!("active_connection_id_limit < 2 must be rejected with TRANSPORT_PARAMETER_ERROR"),
        }
        assert!(t.active_cid_limit.is_none() && s.frames.get() == 0 && t.cid_deque.len() == N);
        assert!(s.live.get() == live_before);
    } else {
        assert!(r.is_ok());
        assert!(t.active_cid_limit == Some(l));
        let issued = if l > largest { l - largest } else { 0 };
        assert!(s.frames.get() == issued, "issues exactly up to sequence number limit - 1");
        assert!(s.seq_ok.get(), "consecutive sequence numbers, each announcing the freshly generated cid");
        assert!(t.cid_deque.largest() == largest + issued);
        if issued > 0 {
            assert!(s.rpt_lo.get() == off && s.rpt_hi.get() == off, "retire_prior_to == current offset");
            assert!(entry_num(&t, largest + issued - 1) == Some(largest + issued - 1));
        }
        // count of unretired ids after the step
        assert!(count + issued <= l);
    }
    check_r::<4>(&t);
    kani::cover!(l >= 2 && l > largest + 1, "several ids issued");
    kani::cover!(l < 2, "limit below 2");
    core::mem::forget(t);
}

#[kani::proof]
#[kani::unwind(6)]
#[kani::stub(alloc::fmt::format, stub_fmt)]
#[kani::stub(crate::token::ResetToken::random_gen, stub_token)]
fn c14_local_set_limit_n2() {
    set_limit_step::<2>(OFF_FRESH);
}

// ------------------------------------------------------------------------------------------------
// clear (connection gone): every live id is un-routed exactly once, nothing is issued

fn clear_step<const N: usize>(off: u64) {
    let (mut t, sh) = any_table::<N>(off, kani::any());
    let largest = sh.off + N as u64;
    t.clear();
    let s = &t.issued_cids;
    assert!(!s.retire_bad.get());
    assert!(s.retire_calls.get() == sh.count(), "one retire_cid per unretired id");
    assert!(s.live.get() == 0, "no id of the connection stays routed");
    assert!(s.frames.get() == 0);
    assert!(t.cid_deque.is_empty() && t.cid_deque.offset() == largest);
    // idempotent (Drop calls clear again)
    t.clear();
    assert!(t.issued_cids.retire_calls.get() == sh.count());
    assert!(t.initial_scid().is_none());
    kani::cover!(sh.count() < N as u64, "some ids already retired");
    core::mem::forget(t);
}

#[kani::proof]
#[kani::unwind(6)]
#[kani::stub(crate::token::ResetToken::random_gen, stub_token)]
fn c14_local_clear_n3() {
    clear_step::<3>(OFF_SLID);
}

// ------------------------------------------------------------------------------------------------
// new + a short concrete-shape history: new -> set_limit(l) -> retire(a) -> retire(b)

#[kani::proof]
#[kani::unwind(6)]
#[kani::stub(alloc::fmt::format, stub_fmt)]
#[kani::stub(crate::token::ResetToken::random_gen, stub_token)]
fn c14_local_new_then_history() {
    // the initial scid is given from outside (sequence 0); the generator continues at 1
    let sink = Sink::new(0, 1, 1);
    let mut t = LocalCids::new(cid_of(0), sink);
    assert!(t.issued_cids.frames.get() == 1 && t.issued_cids.seq_ok.get());
    assert!(t.issued_cids.rpt_hi.get() == 0);
    assert!(t.cid_deque.offset() == 0 && t.cid_deque.len() == 2);
    assert!(t.initial_scid().map(|c| num_of(&c)) == Some(0));
    check_r::<2>(&t);

    let l: u64 = kani::any();
    kani::assume(l == 2);
    assert!(t.set_limit(l).is_ok());
    assert!(t.cid_deque.largest() == l && t.issued_cids.seq_ok.get());
    check_r::<4>(&t);

    let a: u64 = kani::any();
    let b: u64 = kani::any();
    kani::assume(a < l && b < l + 1);
    assert!(t.recv_retire_cid_frame(RetireConnectionIdFrame::new(VarInt::from_u64(a).unwrap())).is_ok());
    check_r::<3>(&t);
    assert!(t.recv_retire_cid_frame(RetireConnectionIdFrame::new(VarInt::from_u64(b).unwrap())).is_ok());
    check_r::<4>(&t);
    let s = &t.issued_cids;
    let retired = if a == b { 1 } else { 2 };
    assert!(s.seq_ok.get() && s.frames.get() == 1 + (l - 2) + retired, "one replacement per distinct retired id");
    assert!(s.retire_calls.get() == retired && !s.retire_bad.get());
    assert!(t.cid_deque.largest() == l + retired);
    assert!(t.initial_scid().is_some() == (a != 0 && b != 0));
    kani::cover!(a == b, "duplicate RETIRE_CONNECTION_ID");
    kani::cover!(a == 1 && b == 0, "reordered retirements");
    core::mem::forget(t);
}

