// Kani harness compiled inside qbase::flow (overlay, cfg(kani) only).  Property C04.
// MAX_DATA with ANY 62-bit value, delivered to the real ArcSendControler::recv_frame from an
// arbitrary state: never a panic, never an error, the limit never decreases, nothing else changes.
use super::*;

const M62: u64 = 1u64 << 62;

static mut WAKES: u32 = 0;
static mut WAKE_OTHER: u32 = 0;

fn stub_wake_all_by(_w: &ArcSendWakers, signals: Signals) {
    unsafe {
        if signals == Signals::FLOW_CONTROL {
            WAKES += 1;
        } else {
            WAKE_OTHER += 1;
        }
    }
}

fn stub_lock<T: ?Sized>(m: &Mutex<T>) -> std::sync::LockResult<std::sync::MutexGuard<'_, T>> {
    match m.try_lock() {
        Ok(g) => Ok(g),
        Err(_) => panic!("mutex already held in a single-threaded harness: self-deadlock"),
    }
}

#[derive(Clone, Debug)]
struct Sink;

static mut BLOCKED: u32 = 0;

impl SendFrame<DataBlockedFrame> for Sink {
    fn send_frame<I: IntoIterator<Item = DataBlockedFrame>>(&self, iter: I) {
        for _f in iter {
            unsafe { BLOCKED += 1 };
        }
    }
}

#[kani::proof]
#[kani::unwind(4)]
#[kani::stub(crate::net::tx::ArcSendWakers::wake_all_by, stub_wake_all_by)]
#[kani::stub(std::sync::Mutex::lock, stub_lock)]
fn c04_flow_max_data_any_value() {
    // arbitrary state: sent_data <= max_data <= 2^62-1 (max_data only ever holds a varint;
    // sent_data is only raised up to max_data by `credit`)
    let max_data: u64 = kani::any();
    let sent_data: u64 = kani::any();
    kani::assume(max_data < M62 && sent_data <= max_data);
    let flow_limited: bool = kani::any();
    let ctl = ArcSendControler(Arc::new(Mutex::new(Ok(SendControler {
        sent_data,
        max_data,
        flow_limited,
        broker: Sink,
        tx_wakers: ArcSendWakers::default(),
    }))));
    let v: u64 = kani::any();
    kani::assume(v < M62);
    let r = ctl.recv_frame(MaxDataFrame::new(VarInt::from_u64(v).unwrap()));
    assert!(r.is_ok(), "MAX_DATA is never an error");
    let g = ctl.0.try_lock().unwrap();
    let inner = g.as_ref().ok().unwrap();
    assert!(inner.max_data == if v > max_data { v } else { max_data }, "limit = max(old, new)");
    assert!(inner.max_data >= max_data, "C04: a MAX_DATA frame never decreases the limit");
    assert!(inner.sent_data == sent_data && inner.sent_data <= inner.max_data);
    assert!(inner.flow_limited == (flow_limited && v <= max_data));
    assert!(unsafe { WAKES } == if v > max_data { 1 } else { 0 } && unsafe { WAKE_OTHER } == 0 && unsafe { BLOCKED } == 0);
    kani::cover!(v > max_data, "limit raised");
    kani::cover!(v < max_data, "stale MAX_DATA ignored");
    kani::cover!(v == M62 - 1, "largest value");
    drop(g);
    core::mem::forget(ctl);
}
