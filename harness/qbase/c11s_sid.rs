// Helper compiled inside qbase::sid::remote_sid (overlay, cfg(kani) only). NO proof fn here.
// Property C11, stream-set level: the accept-path harnesses in qrecovery (c11s_streams.rs) replace
// `ArcRemoteStreamIds::try_accept_sid` (limit test + cursor: C12's subject) by "the peer's FIRST
// stream of that kind is new": `AcceptSid::New(sid ..= sid)`. `NeedCreate`'s fields are private to
// this module.
use super::*;

impl NeedCreate {
    pub fn c11s_single(sid: StreamId) -> Self {
        NeedCreate { start: sid, end: sid }
    }
}
