// Kani harnesses compiled inside qbase::sid::local_sid (overlay injection, cfg(kani) only).
// Property C12, local side: an endpoint never opens more streams of a kind than its peer
// currently allows. One operation from an ARBITRARY state of `LocalStreamIds`, full-width values.
//
// `wakers: [VecDeque<Waker>; 2]` uses the array-backed sequence model (import swap in
// props/C12.toml); the number of parked wakers is concrete per harness instance (0 or 1).
use core::task::{RawWaker, RawWakerVTable};

use super::*;
use crate::varint::VARINT_MAX;

static mut BLOCKED_N: u32 = 0;
static mut BLOCKED_LAST: Option<StreamsBlockedFrame> = None;
static mut WRITTEN_WAKES: u32 = 0;
static mut OTHER_WAKES: u32 = 0;
static mut WAKED: u32 = 0;
static mut CLONED: u32 = 0;
static mut DROPPED: u32 = 0;

#[derive(Clone, Debug)]
struct Sink;

impl SendFrame<StreamsBlockedFrame> for Sink {
    fn send_frame<I: IntoIterator<Item = StreamsBlockedFrame>>(&self, iter: I) {
        for f in iter {
            unsafe {
                BLOCKED_N += 1;
                BLOCKED_LAST = Some(f);
            }
        }
    }
}

fn stub_wake_all_by(_w: &ArcSendWakers, signals: Signals) {
    unsafe {
        if signals == Signals::WRITTEN {
            WRITTEN_WAKES += 1;
        } else {
            OTHER_WAKES += 1;
        }
    }
}

// counting waker
unsafe fn w_clone(p: *const ()) -> RawWaker {
    unsafe { CLONED += 1 };
    RawWaker::new(p, &VTABLE)
}
unsafe fn w_wake(_p: *const ()) {
    unsafe { WAKED += 1 };
}
unsafe fn w_wake_by_ref(_p: *const ()) {
    unsafe { WAKED += 1 };
}
unsafe fn w_drop(_p: *const ()) {
    unsafe { DROPPED += 1 };
}
static VTABLE: RawWakerVTable = RawWakerVTable::new(w_clone, w_wake, w_wake_by_ref, w_drop);

fn new_waker() -> Waker {
    unsafe { Waker::from_raw(RawWaker::new(core::ptr::null(), &VTABLE)) }
}

/// `[u64; 2] == [u64; 2]` lowers to memcmp (16 loop iterations); compare element-wise.
fn eq2<T: PartialEq + Copy>(a: &[T; 2], b: &[T; 2]) -> bool {
    a[0] == b[0] && a[1] == b[1]
}

fn any_role() -> Role {
    if kani::any() { Role::Client } else { Role::Server }
}
fn any_dir() -> Dir {
    if kani::any() { Dir::Bi } else { Dir::Uni }
}

/// Arbitrary state. No relation between `max` and `unallocated` is assumed: after a rejected
/// 0-RTT the limit may be below the number of streams already opened. `max <= 2^62-1` (it comes
/// from a VarInt transport parameter or a MAX_STREAMS frame), `unallocated <= 2^60` (it only
/// grows by one per allocation and allocation stops above 2^60-1).
fn any_state<const PARKED: usize>() -> LocalStreamIds<Sink> {
    let max: [u64; 2] = [kani::any(), kani::any()];
    let un: [u64; 2] = [kani::any(), kani::any()];
    kani::assume(max[0] <= VARINT_MAX && max[1] <= VARINT_MAX);
    kani::assume(un[0] <= MAX_STREAMS_LIMIT + 1 && un[1] <= MAX_STREAMS_LIMIT + 1);
    let mut s = LocalStreamIds {
        role: any_role(),
        max,
        unallocated: un,
        wakers: [VecDeque::with_capacity(2), VecDeque::with_capacity(2)],
        blocked: Sink,
        tx_wakers: ArcSendWakers::default(),
    };
    let mut i = 0;
    while i < PARKED {
        s.wakers[0].push_back(new_waker());
        s.wakers[1].push_back(new_waker());
        i += 1;
    }
    s
}

/// poll_alloc_sid(dir):
/// * Ready(Some(sid)) iff unallocated <= 2^60-1 and unallocated < max; then sid is the next
///   consecutive id of this role and direction, its index is below the peer's limit, and only
///   this direction's counter advances (by one);
/// * Ready(None) iff the id space is exhausted;
/// * otherwise Pending: exactly one STREAMS_BLOCKED(dir, current limit) is emitted, the caller's
///   waker is parked, nothing else changes.
fn alloc_step<const PARKED: usize>() {
    let mut s = any_state::<PARKED>();
    let dir = any_dir();
    let idx = dir as usize;
    let (max, un, role) = (s.max, s.unallocated, s.role);
    let waker = new_waker();
    let mut cx = Context::from_waker(&waker);
    let r = s.poll_alloc_sid(&mut cx, dir);
    let other = 1 - idx;
    assert!(eq2(&s.max, &max), "allocation never changes the limits");
    assert!(s.unallocated[other] == un[other]);
    match r {
        Poll::Ready(Some(sid)) => {
            assert!(un[idx] < max[idx], "a stream is opened only below the peer's current limit");
            assert!(sid.role() == role && sid.dir() == dir && sid.id() == un[idx], "ids are consecutive");
            assert!(sid.id() < max[idx] && sid.id() <= MAX_STREAMS_LIMIT);
            assert!(s.unallocated[idx] == un[idx] + 1);
            assert!(unsafe { BLOCKED_N } == 0 && unsafe { CLONED } == 0);
            assert!(s.wakers[idx].len() == PARKED);
        }
        Poll::Ready(None) => {
            assert!(un[idx] > MAX_STREAMS_LIMIT, "None only when the id space is exhausted");
            assert!(s.unallocated[idx] == un[idx]);
            assert!(unsafe { BLOCKED_N } == 0 && unsafe { CLONED } == 0);
        }
        Poll::Pending => {
            assert!(un[idx] <= MAX_STREAMS_LIMIT && un[idx] >= max[idx]);
            assert!(s.unallocated[idx] == un[idx]);
            assert!(unsafe { BLOCKED_N } == 1, "one STREAMS_BLOCKED per blocked attempt");
            let f = unsafe { BLOCKED_LAST }.unwrap();
            assert!(f == StreamsBlockedFrame::with(dir, VarInt::from_u64(max[idx]).unwrap()), "STREAMS_BLOCKED carries the current limit");
            assert!(s.wakers[idx].len() == PARKED + 1 && unsafe { CLONED } == 1, "the caller's waker is parked");
            assert!(s.wakers[other].len() == PARKED);
        }
    }
    assert!(unsafe { WAKED } == 0);
    kani::cover!(matches!(r, Poll::Ready(Some(_))), "allocated");
    kani::cover!(matches!(r, Poll::Ready(None)), "id space exhausted");
    kani::cover!(matches!(r, Poll::Pending) && max[idx] == 0, "blocked at limit 0");
    kani::cover!(matches!(r, Poll::Pending) && un[idx] > max[idx], "blocked after a 0-RTT rejection shrank the limit");
    core::mem::forget(s);
    core::mem::forget(waker);
}

#[kani::proof]
#[kani::unwind(7)]
#[kani::stub(crate::net::tx::ArcSendWakers::wake_all_by, stub_wake_all_by)]
fn c12_local_alloc_step_w0() {
    alloc_step::<0>();
}

#[kani::proof]
#[kani::unwind(7)]
#[kani::stub(crate::net::tx::ArcSendWakers::wake_all_by, stub_wake_all_by)]
fn c12_local_alloc_step_w1() {
    alloc_step::<1>();
}

/// MAX_STREAMS from the peer (value <= 2^60, enforced by the frame parser — see
/// c12_max_streams_frame_bound): limit becomes max(old, new) for that direction only; if it grew,
/// every parked opener of that direction is woken exactly once and leaves the queue, and the
/// packet assemblers are woken (WRITTEN) iff streams opened beyond the old limit become sendable.
fn max_streams_step<const PARKED: usize>() {
    let mut s = any_state::<PARKED>();
    let dir = any_dir();
    let idx = dir as usize;
    let other = 1 - idx;
    let (max, un) = (s.max, s.unallocated);
    let val: u64 = kani::any();
    kani::assume(val <= MAX_STREAMS_LIMIT);
    let frame = MaxStreamsFrame::with(dir, VarInt::from_u64(val).unwrap());
    s.recv_max_streams_frame(frame);
    let grew = val > max[idx];
    assert!(s.max[idx] == if grew { val } else { max[idx] }, "MAX_STREAMS that does not increase the limit is ignored");
    assert!(s.max[idx] >= max[idx], "the limit never decreases");
    assert!(s.max[other] == max[other] && eq2(&s.unallocated, &un));
    assert!(s.wakers[other].len() == PARKED);
    assert!(s.wakers[idx].len() == if grew { 0 } else { PARKED });
    assert!(unsafe { WAKED } as usize == if grew { PARKED } else { 0 }, "parked openers woken iff the limit grew");
    assert!(unsafe { WRITTEN_WAKES } == if grew && max[idx] < un[idx] { 1 } else { 0 });
    assert!(unsafe { OTHER_WAKES } == 0 && unsafe { BLOCKED_N } == 0);
    kani::cover!(grew && max[idx] < un[idx], "limit raised over streams opened in 0-RTT");
    kani::cover!(!grew && val < max[idx], "stale MAX_STREAMS ignored");
    core::mem::forget(s);
}

#[kani::proof]
#[kani::unwind(7)]
#[kani::stub(crate::net::tx::ArcSendWakers::wake_all_by, stub_wake_all_by)]
fn c12_local_max_streams_step_w0() {
    max_streams_step::<0>();
}

#[kani::proof]
#[kani::unwind(7)]
#[kani::stub(crate::net::tx::ArcSendWakers::wake_all_by, stub_wake_all_by)]
fn c12_local_max_streams_step_w1() {
    max_streams_step::<1>();
}

/// revise_max_streams(rejected, bidi, uni) — called once the peer's real transport parameters
/// are known. `param_bound` = largest value assumed for initial_max_streams_{bidi,uni}.
fn revise_step(param_bound: u64) {
    let mut s = any_state::<0>();
    let (max, un) = (s.max, s.unallocated);
    let rejected: bool = kani::any();
    let bi: u64 = kani::any();
    let uni: u64 = kani::any();
    kani::assume(bi <= param_bound && uni <= param_bound);
    s.revise_max_streams(rejected, bi, uni);
    if rejected {
        assert!(eq2(&s.max, &[bi, uni]), "after a 0-RTT rejection the limits are exactly the server's parameters");
    } else {
        assert!(s.max[0] == if bi > max[0] { bi } else { max[0] });
        assert!(s.max[1] == if uni > max[1] { uni } else { max[1] });
    }
    assert!(eq2(&s.unallocated, &un));
    kani::cover!(rejected && bi < max[0] && bi < un[0], "0-RTT rejected: limit now below the streams already opened");
    kani::cover!(!rejected && uni > max[1]);
    core::mem::forget(s);
}

/// Twin of the pending harness: parameters within the RFC's bound (<= 2^60-1 — what
/// `increase_limit` asserts; RFC 9000 §4.6 allows up to 2^60, which this implementation's
/// MAX_STREAMS_LIMIT = 2^60-1 already excludes).
#[kani::proof]
#[kani::unwind(7)]
#[kani::stub(crate::net::tx::ArcSendWakers::wake_all_by, stub_wake_all_by)]
fn c12_local_revise_max_streams() {
    revise_step(MAX_STREAMS_LIMIT);
}

/// The same step for every value the REAL transport-parameter validation accepts
/// (`ParameterId::InitialMaxStreams{Bidi,Uni}.validate`). On the pinned tree the two parameters had
/// no bound, the decoder accepted any VarInt and `increase_limit`'s `assert!(val <=
/// MAX_STREAMS_LIMIT)` was reachable from the peer's TLS extension (genuine defect, fixed in /repo by
/// "fix: bound initial_max_streams_* and max_ack_delay as RFC 9000 requires"). Kept in the quick tier:
/// if the bound is dropped again the assert is reachable and this harness fails.
#[kani::proof]
#[kani::unwind(7)]
#[kani::stub(crate::net::tx::ArcSendWakers::wake_all_by, stub_wake_all_by)]
#[kani::stub(core::fmt::write, stub_fmt_write_c12)]
fn c12_local_revise_max_streams_validated_param() {
    use crate::param::{ParameterId, core::ParameterValue};
    let mut s = any_state::<0>();
    let (max, un) = (s.max, s.unallocated);
    let rejected: bool = kani::any();
    let bi: u64 = kani::any();
    let uni: u64 = kani::any();
    kani::assume(bi <= VARINT_MAX && uni <= VARINT_MAX);
    let vb = ParameterValue::VarInt(crate::varint::VarInt::from_u64(bi).unwrap());
    let vu = ParameterValue::VarInt(crate::varint::VarInt::from_u64(uni).unwrap());
    let ok_b = ParameterId::InitialMaxStreamsBidi.validate(&vb).is_ok();
    let ok_u = ParameterId::InitialMaxStreamsUni.validate(&vu).is_ok();
    kani::assume(ok_b && ok_u);
    s.revise_max_streams(rejected, bi, uni);
    if rejected {
        assert!(eq2(&s.max, &[bi, uni]));
    } else {
        assert!(s.max[0] == if bi > max[0] { bi } else { max[0] });
        assert!(s.max[1] == if uni > max[1] { uni } else { max[1] });
    }
    assert!(eq2(&s.unallocated, &un));
    kani::cover!(bi == MAX_STREAMS_LIMIT, "largest accepted parameter value");
    core::mem::forget(s);
    core::mem::forget(vb);
    core::mem::forget(vu);
}

fn stub_fmt_write_c12(_o: &mut dyn core::fmt::Write, _a: core::fmt::Arguments<'_>) -> core::fmt::Result {
    Ok(())
}
