// Kani harness compiled inside qbase::sid::local_sid (overlay, cfg(kani) only).  Property C04.
// MAX_STREAMS with every value the parser accepts (<= 2^60-1, c04_frames_max_streams_bound),
// delivered to the real LocalStreamIds::recv_max_streams_frame from an ARBITRARY state:
// `increase_limit`'s assert is not reached, the limit never decreases, the work is bounded by the
// wakers already parked (each woken once).
// (pattern of harness/qbase/sid_local.rs c12_local_max_streams_step_*, property C12)
use core::task::{RawWaker, RawWakerVTable};

use super::*;
use crate::varint::VARINT_MAX;

static mut BLOCKED_N: u32 = 0;
static mut WRITTEN_WAKES: u32 = 0;
static mut OTHER_WAKES: u32 = 0;
static mut WAKED: u32 = 0;

#[derive(Clone, Debug)]
struct Sink;

impl SendFrame<StreamsBlockedFrame> for Sink {
    fn send_frame<I: IntoIterator<Item = StreamsBlockedFrame>>(&self, iter: I) {
        for _f in iter {
            unsafe { BLOCKED_N += 1 };
        }
    }
}

fn stub_wake_all_by(_w: &ArcSendWakers, signals: Signals) {
    unsafe {
        if signals == Signals::WRITTEN {
            WRITTEN_WAKES += 1;
        } else {
            OTHER_WAKES += 1;
        }
    }
}

unsafe fn w_clone(p: *const ()) -> RawWaker {
    RawWaker::new(p, &VTABLE)
}
unsafe fn w_wake(_p: *const ()) {
    unsafe { WAKED += 1 };
}
unsafe fn w_wake_by_ref(_p: *const ()) {
    unsafe { WAKED += 1 };
}
unsafe fn w_drop(_p: *const ()) {}
static VTABLE: RawWakerVTable = RawWakerVTable::new(w_clone, w_wake, w_wake_by_ref, w_drop);

fn new_waker() -> Waker {
    unsafe { Waker::from_raw(RawWaker::new(core::ptr::null(), &VTABLE)) }
}

/// Arbitrary state: max <= 2^62-1 (a transport parameter or an earlier MAX_STREAMS), unallocated
/// <= 2^60 (grows by one per allocation, allocation stops above 2^60-1); no relation between them
/// (after a rejected 0-RTT the limit may be below the streams already opened).
fn any_state<const PARKED: usize>() -> LocalStreamIds<Sink> {
    let max: [u64; 2] = [kani::any(), kani::any()];
    let un: [u64; 2] = [kani::any(), kani::any()];
    kani::assume(max[0] <= VARINT_MAX && max[1] <= VARINT_MAX);
    kani::assume(un[0] <= MAX_STREAMS_LIMIT + 1 && un[1] <= MAX_STREAMS_LIMIT + 1);
    let mut s = LocalStreamIds {
        role: if kani::any() { Role::Client } else { Role::Server },
        max,
        unallocated: un,
        wakers: [VecDeque::with_capacity(2), VecDeque::with_capacity(2)],
        blocked: Sink,
        tx_wakers: ArcSendWakers::default(),
    };
    let mut i = 0;
    while i < PARKED {
        s.wakers[0].push_back(new_waker());
        s.wakers[1].push_back(new_waker());
        i += 1;
    }
    s
}

fn max_streams_step<const PARKED: usize>() {
    let mut s = any_state::<PARKED>();
    let dir = if kani::any() { Dir::Bi } else { Dir::Uni };
    let idx = dir as usize;
    let other = 1 - idx;
    let (max, un) = (s.max, s.unallocated);
    let val: u64 = kani::any();
    kani::assume(val <= MAX_STREAMS_LIMIT); // exactly what max_streams_frame_with_dir accepts
    s.recv_max_streams_frame(MaxStreamsFrame::with(dir, VarInt::from_u64(val).unwrap()));
    let grew = val > max[idx];
    assert!(s.max[idx] == if grew { val } else { max[idx] }, "limit = max(old, new)");
    assert!(s.max[idx] >= max[idx], "C04: MAX_STREAMS never decreases the limit");
    assert!(s.max[other] == max[other] && s.unallocated[0] == un[0] && s.unallocated[1] == un[1]);
    // bounded work: each parked opener of that direction woken once, nothing else
    assert!(unsafe { WAKED } as usize == if grew { PARKED } else { 0 });
    assert!(s.wakers[idx].len() == if grew { 0 } else { PARKED } && s.wakers[other].len() == PARKED);
    assert!(unsafe { WRITTEN_WAKES } <= 1 && unsafe { OTHER_WAKES } == 0 && unsafe { BLOCKED_N } == 0);
    kani::cover!(grew && val == MAX_STREAMS_LIMIT, "largest acceptable value");
    kani::cover!(!grew && val < max[idx], "stale MAX_STREAMS ignored");
    core::mem::forget(s);
}

#[kani::proof]
#[kani::unwind(6)]
#[kani::stub(crate::net::tx::ArcSendWakers::wake_all_by, stub_wake_all_by)]
fn c04_sidlocal_max_streams_any_accepted_value() {
    max_streams_step::<1>();
}
