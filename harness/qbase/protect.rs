// Kani harnesses compiled inside qbase::packet::io (overlay, cfg(kani) only).  Property C06.
//
// The real AEAD / header-protection primitives are `ring` behind `dyn rustls::quic::{PacketKey,
// HeaderProtectionKey}` (FFI, not encodable). The harness supplies ABSTRACT KEYS with an idealised
// contract (DESIGN.md §4 C06):
//  * header protection: mask = arbitrary function of the 16-byte sample (a symbolic mask for the
//    sample seen at protection time, another symbolic mask for any other sample), applied exactly as
//    rustls' ring provider applies it (RFC 9001 §5.4.1: 4/5 low bits of the first byte, pn_len
//    bytes of the packet number, pn_len read before masking / after unmasking);
//  * AEAD: length-preserving symbolic keystream + 16-byte tag; opening succeeds iff packet number,
//    associated data, ciphertext and tag are exactly those produced by sealing (ideal integrity).
// Everything else is the real code: header writers, PacketWriter, PadTo20, encrypt_and_protect_packet,
// be_packet, remove_protection_of_*_packet, PacketNumber::decode, decrypt_packet.
use std::sync::Arc;

use super::*;
use crate::packet::{
    r#type::short::OneRtt,
    decrypt::{decrypt_packet, remove_protection_of_long_packet, remove_protection_of_short_packet},
    keys::DirectionalKeys,
    number::PacketNumber,
    signal::SpinBit,
};

const MAXPKT: usize = 64;
const BODY: usize = 6;
const SAMPLE: usize = 16;
const TAG: usize = 16;

struct HpState {
    seen: bool,
    sample_byte: u8,
    // what the last decrypt_in_place (receiver side) was handed
    d_called: bool,
    d_sample_byte: u8,
    d_first_in: u8,
    d_pn_len_in: usize,
    d_same_sample: bool,
}

/// Abstract header-protection key. Instead of copying the 16-byte sample, one byte at a SYMBOLIC
/// probe index is recorded: since the index is universally quantified by the solver, "the sample
/// differs anywhere" is detected without a copy loop.
struct AbsHp {
    mask_seen: [u8; 5],
    mask_other: [u8; 5],
    probe: usize,
    st: core::cell::UnsafeCell<HpState>,
}
unsafe impl Sync for AbsHp {}
unsafe impl Send for AbsHp {}

impl AbsHp {
    fn xor(&self, mask: &[u8; 5], first: &mut u8, pn: &mut [u8], masked: bool) -> Result<(), rustls::Error> {
        assert!(pn.len() <= 4, "packet-number field handed to header protection is at most 4 bytes");
        let bits = if *first & 0x80 == 0x80 { 0x0f } else { 0x1f };
        let first_plain = if masked { *first ^ (mask[0] & bits) } else { *first };
        let pn_len = (first_plain & 0x03) as usize + 1;
        *first ^= mask[0] & bits;
        let mut i = 0;
        while i < 4 {
            if i < pn_len && i < pn.len() {
                pn[i] ^= mask[1 + i];
            }
            i += 1;
        }
        Ok(())
    }
}

impl rustls::quic::HeaderProtectionKey for AbsHp {
    fn encrypt_in_place(&self, sample: &[u8], first: &mut u8, pn: &mut [u8]) -> Result<(), rustls::Error> {
        assert!(sample.len() == SAMPLE, "sender samples exactly sample_len() bytes");
        let st = unsafe { &mut *self.st.get() };
        st.seen = true;
        st.sample_byte = sample[self.probe];
        self.xor(&self.mask_seen, first, pn, false)
    }

    fn decrypt_in_place(&self, sample: &[u8], first: &mut u8, pn: &mut [u8]) -> Result<(), rustls::Error> {
        assert!(sample.len() == SAMPLE, "receiver samples exactly sample_len() bytes");
        let st = unsafe { &mut *self.st.get() };
        let same = st.seen && st.sample_byte == sample[self.probe];
        st.d_called = true;
        st.d_sample_byte = sample[self.probe];
        st.d_first_in = *first;
        st.d_pn_len_in = pn.len();
        st.d_same_sample = same;
        let mask = if same { &self.mask_seen } else { &self.mask_other };
        self.xor(mask, first, pn, true)
    }

    fn sample_len(&self) -> usize {
        SAMPLE
    }
}

struct AeadState {
    /// verdict of the ideal AEAD for the last `decrypt_in_place` call
    opened: bool,
    accepted: bool,
    // what the last decrypt_in_place (receiver side) was handed
    o_pn: u64,
    o_aad_len: usize,
    o_aad_byte: u8,
    o_payload_len: usize,
    o_ct_byte: u8,
    o_tag_byte: u8,
    sealed: bool,
    pn: u64,
    aad_len: usize,
    aad_byte: u8,
    ct_len: usize,
    ct_byte: u8,
}

/// Abstract AEAD with ideal integrity: opening succeeds iff packet number, associated data,
/// ciphertext and tag are exactly those of sealing. Equality of the byte strings is checked at
/// symbolic probe indices (universally quantified), lengths exactly.
/// The "cipher" is XOR with a symbolic per-key byte at the probe position only (the body
/// recovery assertion of the harness reads the body through the same probe), identity elsewhere.
struct AbsPk {
    tag: [u8; TAG],
    probe_aad: usize,
    probe_ct: usize,
    probe_tag: usize,
    st: core::cell::UnsafeCell<AeadState>,
}
unsafe impl Sync for AbsPk {}
unsafe impl Send for AbsPk {}

impl rustls::quic::PacketKey for AbsPk {
    fn encrypt_in_place(&self, pn: u64, header: &[u8], payload: &mut [u8]) -> Result<rustls::quic::Tag, rustls::Error> {
        let st = unsafe { &mut *self.st.get() };
        st.sealed = true;
        st.pn = pn;
        st.aad_len = header.len();
        st.ct_len = payload.len();
        if self.probe_aad < header.len() {
            st.aad_byte = header[self.probe_aad];
        }
        if self.probe_ct < payload.len() {
            st.ct_byte = payload[self.probe_ct];
        }
        Ok(rustls::quic::Tag::from(&self.tag[..]))
    }

    fn decrypt_in_place<'a>(&self, pn: u64, header: &[u8], payload: &'a mut [u8]) -> Result<&'a [u8], rustls::Error> {
        // NOTE: the verdict is RECORDED, never returned as `Err`: a `Result<_, rustls::Error>` whose
        // discriminant is symbolic makes CBMC execute the drop glue of every rustls::Error variant
        // (Vec<EchConfigExtension>, Arc<dyn Error>, ...) at each `map_err`/`unwrap` site, which alone
        // exceeded every time budget. The harness asserts on `accepted`; that the real code turns a
        // key error into a discarded packet is checked separately on a concrete error value
        // (c06_key_error_discards).
        let st = unsafe { &mut *self.st.get() };
        st.opened = true;
        st.o_pn = pn;
        st.o_aad_len = header.len();
        st.o_payload_len = payload.len();
        if self.probe_aad < header.len() {
            st.o_aad_byte = header[self.probe_aad];
        }
        if self.probe_ct < payload.len() {
            st.o_ct_byte = payload[self.probe_ct];
        }
        if payload.len() >= TAG {
            st.o_tag_byte = payload[payload.len() - TAG + self.probe_tag];
        }
        if payload.len() < TAG {
            st.accepted = false;
            return Ok(&payload[..0]);
        }
        let n = payload.len() - TAG;
        let mut ok = st.sealed && st.pn == pn && st.aad_len == header.len() && st.ct_len == n;
        if ok && self.probe_aad < header.len() && st.aad_byte != header[self.probe_aad] {
            ok = false;
        }
        if ok && self.probe_ct < n && st.ct_byte != payload[self.probe_ct] {
            ok = false;
        }
        if ok && payload[n + self.probe_tag] != self.tag[self.probe_tag] {
            ok = false;
        }
        st.accepted = ok;
        Ok(&payload[..n])
    }

    fn tag_len(&self) -> usize {
        TAG
    }

    fn confidentiality_limit(&self) -> u64 {
        u64::MAX
    }

    fn integrity_limit(&self) -> u64 {
        u64::MAX
    }
}

fn abstract_keys() -> (Arc<AbsHp>, Arc<AbsPk>) {
    let probe: usize = kani::any();
    kani::assume(probe < SAMPLE);
    let hp = Arc::new(AbsHp {
        mask_seen: kani::any(),
        mask_other: kani::any(),
        probe,
        st: core::cell::UnsafeCell::new(HpState { seen: false, sample_byte: 0, d_called: false, d_sample_byte: 0, d_first_in: 0, d_pn_len_in: 0, d_same_sample: false }),
    });
    let probe_aad: usize = kani::any();
    let probe_ct: usize = kani::any();
    let probe_tag: usize = kani::any();
    kani::assume(probe_aad < MAXPKT && probe_ct < MAXPKT && probe_tag < TAG);
    let pk = Arc::new(AbsPk {
        tag: kani::any(),
        probe_aad,
        probe_ct,
        probe_tag,
        st: core::cell::UnsafeCell::new(AeadState { opened: false, accepted: false, o_pn: 0, o_aad_len: 0, o_aad_byte: 0, o_payload_len: 0, o_ct_byte: 0, o_tag_byte: 0, sealed: false, pn: 0, aad_len: 0, aad_byte: 0, ct_len: 0, ct_byte: 0 }),
    });
    (hp, pk)
}

/// core's slice-index panic path builds `fmt::Arguments` with two `usize` Display arguments at run
/// time; symbolic execution of that formatting dominated the harness (2.4M SSA steps). The stub
/// keeps the panic (Kani still reports it as a failed check) and drops the message.
fn stub_slice_index_fail(_start: usize, _end: usize, _len: usize) -> ! {
    panic!("slice index out of range")
}

fn any_cid<const L: usize>() -> ConnectionId {
    let bytes: [u8; L] = kani::any();
    ConnectionId::from_slice(&bytes)
}

fn any_pn() -> (u64, u64, u64) {
    let pn: u64 = kani::any();
    let acked: u64 = kani::any();
    let expected: u64 = kani::any();
    kani::assume(pn < (1u64 << 62) && acked <= pn && pn - acked < (1u64 << 31));
    kani::assume(expected > acked && expected <= pn);
    (pn, acked, expected)
}

/// Thin wrapper so that the real `PadTo20` package (which wants `AsRef<PacketWriter>`, as the
/// packet buffers of qconnection provide) can be applied to a bare PacketWriter.
struct W<'b>(PacketWriter<'b>);

impl<'b> AsRef<PacketWriter<'b>> for W<'b> {
    fn as_ref(&self) -> &PacketWriter<'b> {
        &self.0
    }
}

unsafe impl BufMut for W<'_> {
    fn remaining_mut(&self) -> usize {
        self.0.remaining_mut()
    }
    unsafe fn advance_mut(&mut self, cnt: usize) {
        unsafe { self.0.advance_mut(cnt) }
    }
    fn chunk_mut(&mut self) -> &mut UninitSlice {
        self.0.chunk_mut()
    }
}

/// The real `PacketNumber::encode(pn, acked)`, restricted to the inputs for which it chooses a
/// PNL-byte encoding, rebuilt with a *concrete* variant so that the packet layout (all slice
/// bounds) is concrete per harness instance. One instance per PNL in {2,3,4} covers every encoding
/// `encode` can produce (it never produces 1 byte).
fn encoded_pn<const PNL: usize>(pn: u64, acked: u64) -> PacketNumber {
    let real = PacketNumber::encode(pn, acked);
    kani::assume(real.size() == PNL);
    let concrete = match PNL {
        1 => PacketNumber::U8(pn as u8),
        2 => PacketNumber::U16(pn as u16),
        3 => PacketNumber::U24(pn as u32),
        _ => PacketNumber::U32(pn as u32),
    };
    // same wire bytes as the real encoder's choice
    let mut a = [0u8; 4];
    let mut b = [0u8; 4];
    (&mut a[..]).put_packet_number(real);
    (&mut b[..]).put_packet_number(concrete);
    assert!(a[0] == b[0] && a[1] == b[1] && a[2] == b[2] && a[3] == b[3]);
    concrete
}

macro_rules! tie {
    ($rx:ident, $tx:ident, $($i:literal)*) => { $( kani::assume($rx[$i] == $tx[$i]); )* };
}

/// What the harness wrote into the packet body (identity-free: arbitrary bytes, arbitrary length).
struct Body {
    len: usize,
    bytes: [u8; BODY],
}

fn any_body() -> Body {
    let len: usize = kani::any();
    kani::assume(len >= 1 && len <= BODY);
    Body { len, bytes: kani::any() }
}

/// 1-RTT packet: assemble + protect with the real sender path, then run the real receiver path.
fn one_rtt_roundtrip<const DL: usize, const PNL: usize>(flip: bool) {
    one_rtt_staged::<DL, PNL, 9>(flip)
}

fn one_rtt_staged<const DL: usize, const PNL: usize, const STAGE: usize>(flip: bool) {
    let (hp, pk) = abstract_keys();
    let keys = DirectionalKeys { header: hp.clone(), packet: pk.clone() };
    let dcid = any_cid::<DL>();
    let spin: bool = kani::any();
    let header = OneRttHeader::new(SpinBit::from(spin), dcid);
    let (pn, acked, expected) = any_pn();
    let encoded = encoded_pn::<PNL>(pn, acked);
    let key_phase = KeyPhaseBit::from(kani::any::<bool>());
    let body = any_body();

    let mut buf = [0u8; MAXPKT];
    let mut writer = W(PacketWriter::new_short(&header, &mut buf[..], (pn, encoded), keys, key_phase).unwrap());
    writer.put_slice(&body.bytes[..body.len]);
    // the real minimum-size padding rule of the sender
    let _ = PadTo20.dump(&mut writer);
    let writer = writer.0;
    let written_body = writer.payload_len() - encoded.size();
    let (size, info) = writer.encrypt_and_protect_packet();
    assert!(info.packet_number() == pn);
    assert!(size == 1 + DL + encoded.size() + written_body + TAG, "packet size == header + pn + body + tag");
    assert!(written_body + TAG >= 20 - encoded.size() || written_body >= body.len);

    if STAGE == 1 {
        return;
    }
    // Cut between sender and receiver: the receiver works on a FRESH symbolic datagram that is
    // assumed byte-for-byte equal to what the sender produced. Semantically the same packet; it
    // only keeps the receiver's symbolic expressions from nesting the sender's.
    let sent = buf;
    let mut buf: [u8; MAXPKT] = kani::any();
    tie!(buf, sent, 0 1 2 3 4 5 6 7 8 9 10 11 12 13 14 15 16 17 18 19 20 21 22 23 24 25 26 27 28 29 30 31 32 33 34 35 36 37 38 39 40 41 42 43 44 45 46 47 48 49 50 51 52 53 54 55 56 57 58 59 60 61 62 63);
    let size_s = size;
    let size: usize = kani::any();
    kani::assume(size == size_s);
    // optional single-bit corruption anywhere in the protected packet
    let mut flipped_at = MAXPKT;
    if flip {
        let pos: usize = kani::any();
        let bit: u8 = kani::any();
        kani::assume(pos < size && bit < 8);
        buf[pos] ^= 1 << bit;
        flipped_at = pos;
    }

    // ---- receiver: real be_packet_type + be_header, then the offset rule of be_packet's 1-RTT arm
    // (`offset = bytes.len() - remain.len()`, the whole datagram is the packet), then the real
    // decrypt.rs functions in the call order of CipherPacket::decrypt_short_packet.
    let (remain_len, rhdr) = {
        let input = &buf[..size];
        // real packet-type parser on the (masked) first byte
        let (remain, pkty) = match be_packet_type(input) {
            Ok(x) => x,
            Err(_) => {
                assert!(flip && flipped_at == 0, "only a corrupted first byte can break the framing");
                return;
            }
        };
        let expected_ty = Type::Short(OneRtt(SpinBit::from(spin)));
        if pkty != expected_ty {
            // spin / form bits are not header-protected: only a flip in byte 0 changes the type.
            // (The spin bit is part of the AEAD's associated data; a flipped FORM bit turns the
            // datagram into a long-header packet of some version: outside this harness.)
            assert!(flip && flipped_at == 0, "packet type recovered");
            if let Type::Short(OneRtt(s2)) = pkty {
                // spin flipped: continue, the AEAD must reject
                match be_header(Type::Short(OneRtt(s2)), DL, remain) {
                    Ok((remain, Header::OneRtt(h))) => (remain.len(), h),
                    _ => panic!("1-RTT header with a complete dcid always parses"),
                }
            } else {
                return;
            }
        } else {
            // pass the *constant* expected type so that the other header kinds are not explored
            match be_header(expected_ty, DL, remain) {
                Ok((remain, Header::OneRtt(h))) => (remain.len(), h),
                _ => panic!("1-RTT header with a complete dcid always parses"),
            }
        }
    };
    if STAGE == 2 {
        return;
    }
    // be_packet's rule for 1-RTT: offset = datagram length - bytes remaining after the header
    assert!(size - remain_len == 1 + DL, "payload offset found by the receiver == the sender's header size");
    let offset = 1 + DL; // asserted equal just above; rebinding keeps all slice bounds concrete
    if !flip {
        assert!(rhdr.spin() == header.spin());
        let rd = rhdr.dcid();
        let mut i = 0;
        while i < DL {
            assert!(rd[i] == dcid[i], "destination connection id recovered");
            i += 1;
        }
        assert!(rd.len() == DL);
    }
    let bytes = &mut buf[..size];
    let removed = remove_protection_of_short_packet(hp.as_ref(), bytes, offset);
    let (undecoded, phase) = match removed {
        Ok(Some(x)) => x,
        Ok(None) => panic!("abstract key never fails on a 16-byte sample"),
        Err(_) => {
            // reserved bits non-zero after unmasking: only possible on a corrupted packet
            assert!(flip, "an untampered packet never shows reserved bits");
            return;
        }
    };
    if STAGE == 3 {
        return;
    }
    let decoded = undecoded.decode(expected);
    let body_offset = offset + undecoded.size();
    let res = decrypt_packet(pk.as_ref(), decoded, bytes, body_offset);
    let verdict = unsafe { &*pk.st.get() };
    assert!(verdict.opened, "the AEAD is consulted for every packet that got this far");
    if flip {
        assert!(!verdict.accepted, "any single-bit corruption is rejected by the (ideal) AEAD: the receiver discards the packet");
        return;
    }
    assert!(verdict.accepted, "an untampered packet authenticates: same pn, same associated data, same ciphertext, same tag");
    assert!(undecoded.size() == encoded.size(), "packet-number length recovered");
    assert!(decoded == pn, "full packet number recovered");
    assert!(phase == key_phase, "key phase recovered");
    let blen = res.expect("an untampered packet is accepted");
    assert!(blen == written_body, "body length recovered");
    let k: usize = kani::any();
    kani::assume(k < body.len);
    assert!(bytes[body_offset + k] == body.bytes[k], "body recovered bit-for-bit");
    if written_body > body.len {
        let p: usize = kani::any();
        kani::assume(p >= body.len && p < written_body);
        assert!(bytes[body_offset + p] == 0, "padding is PADDING frames (zero bytes)");
    }
    kani::cover!(written_body > body.len, "PadTo20 padded the packet");
    kani::cover!(body.len == BODY, "largest body");
}

#[kani::proof]
#[kani::unwind(10)]
#[kani::stub(core::slice::index::slice_index_fail, stub_slice_index_fail)]
fn c06_one_rtt_roundtrip_dcid8_pn2() {
    one_rtt_roundtrip::<8, 2>(false);
}

#[kani::proof]
#[kani::unwind(10)]
#[kani::stub(core::slice::index::slice_index_fail, stub_slice_index_fail)]
fn c06_one_rtt_bitflip_dcid8_pn2() {
    one_rtt_roundtrip::<8, 2>(true);
}


// ------------------------------------------------------------------------------------------------
// Decomposed obligations (cheap; quick tier). Together they give the round trip:
//   S (sender):   after encrypt_and_protect_packet, UNMASKING the packet with the mask of the sample
//                 found at payload_offset+4 reproduces exactly the (first byte, pn bytes, associated
//                 data, ciphertext, tag, pn) that were sealed, at the offsets the receiver uses.
//   R (receiver): on ANY datagram the receive path samples at payload_offset+4, unmasks first byte
//                 and pn_len pn bytes, and hands the AEAD exactly (decode(pn), bytes[..payload_offset+pn_len],
//                 bytes[payload_offset+pn_len..]).
// With an ideal AEAD, S ∧ R ∧ C07 (decode == pn) ⇒ an untampered packet is accepted and its body is
// bytes[body_offset..len-16]; any modified bit changes one of the sealed items ⇒ rejected.
// The end-to-end harnesses above check the same thing in one query (thorough tier).

/// S for 1-RTT packets.
fn sender_layout_short<const DL: usize, const PNL: usize>() {
    let (hp, pk) = abstract_keys();
    let keys = DirectionalKeys { header: hp.clone(), packet: pk.clone() };
    let dcid = any_cid::<DL>();
    let spin: bool = kani::any();
    let header = OneRttHeader::new(SpinBit::from(spin), dcid);
    let (pn, acked, _expected) = any_pn();
    let encoded = encoded_pn::<PNL>(pn, acked);
    let key_phase = KeyPhaseBit::from(kani::any::<bool>());
    let body = any_body();

    let mut buf = [0u8; MAXPKT];
    let mut writer = W(PacketWriter::new_short(&header, &mut buf[..], (pn, encoded), keys, key_phase).unwrap());
    writer.put_slice(&body.bytes[..body.len]);
    let _ = PadTo20.dump(&mut writer);
    let writer = writer.0;
    let written_body = writer.payload_len() - PNL;
    let (size, info) = writer.encrypt_and_protect_packet();

    let off = 1 + DL; // payload offset the receiver derives from the header
    let body_off = off + PNL;
    assert!(info.packet_number() == pn);
    assert!(size == body_off + written_body + TAG, "packet size == header + pn + body + tag");
    assert!(PNL + written_body + TAG >= 20, "enough bytes after the pn offset for the header-protection sample");
    assert!(written_body >= body.len && (written_body == body.len || PNL + written_body + TAG == 20), "padding only up to the 20-byte sampling minimum");

    let hs = unsafe { &*hp.st.get() };
    let ps = unsafe { &*pk.st.get() };
    assert!(hs.seen && ps.sealed);
    // sample taken at pn_offset + 4 (content-based, for every probe position)
    assert!(hs.sample_byte == buf[off + 4 + hp.probe], "header-protection sample is bytes[pn_offset+4 .. +20] of the final packet");
    // unmask with the same mask
    let first_plain = buf[0] ^ (hp.mask_seen[0] & 0x1f);
    assert!(first_plain & 0x80 == 0 && first_plain & 0x40 != 0, "short header form + fixed bit");
    assert!((first_plain & 0x20 != 0) == spin, "spin bit");
    assert!(first_plain & 0x18 == 0, "reserved bits are zero");
    assert!((first_plain & 0x04 != 0) == (key_phase == KeyPhaseBit::One), "key phase bit");
    assert!((first_plain & 0x03) as usize + 1 == PNL, "pn length bits");
    let mut wire = [0u8; 4];
    (&mut wire[..]).put_packet_number(encoded);
    let mut i = 0;
    while i < 4 {
        if i < PNL {
            assert!(buf[off + i] ^ hp.mask_seen[1 + i] == wire[i], "masked packet number bytes");
        }
        i += 1;
    }
    // AEAD was given: pn, aad = bytes[..body_off] (before masking), payload = body (+padding)
    assert!(ps.pn == pn, "nonce derived from the full packet number");
    assert!(ps.aad_len == body_off, "associated data == header + packet number");
    assert!(ps.ct_len == written_body, "everything after the packet number and before the tag is encrypted");
    let pa = pk.probe_aad;
    if pa < body_off {
        let unmasked = if pa == 0 {
            first_plain
        } else if pa >= off {
            buf[pa] ^ hp.mask_seen[1 + (pa - off)]
        } else {
            buf[pa]
        };
        assert!(ps.aad_byte == unmasked, "associated data == the unmasked header bytes of the final packet");
        if pa >= 1 && pa < off {
            assert!(buf[pa] == dcid[pa - 1], "destination connection id on the wire");
        }
    }
    let pc = pk.probe_ct;
    if pc < written_body {
        assert!(ps.ct_byte == buf[body_off + pc], "ciphertext is in place right after the packet number");
        if pc < body.len {
            assert!(buf[body_off + pc] == body.bytes[pc], "(identity cipher) body bytes");
        } else {
            assert!(buf[body_off + pc] == 0, "(identity cipher) padding is zero bytes");
        }
    }
    assert!(buf[size - TAG + pk.probe_tag] == pk.tag[pk.probe_tag], "tag occupies the last 16 bytes");
    kani::cover!(written_body > body.len, "PadTo20 padded the packet");
    kani::cover!(body.len == BODY, "largest body");
    kani::cover!(pa == 0, "probe on the first byte");
    kani::cover!(pa >= off && pa < body_off, "probe on a packet number byte");
}

#[kani::proof]
#[kani::unwind(10)]
#[kani::stub(core::slice::index::slice_index_fail, stub_slice_index_fail)]
fn c06_sender_short_dcid8_pn2() {
    sender_layout_short::<8, 2>();
}

#[kani::proof]
#[kani::unwind(10)]
#[kani::stub(core::slice::index::slice_index_fail, stub_slice_index_fail)]
fn c06_sender_short_dcid8_pn4() {
    sender_layout_short::<8, 4>();
}

#[kani::proof]
#[kani::unwind(10)]
#[kani::stub(core::slice::index::slice_index_fail, stub_slice_index_fail)]
fn c06_sender_short_dcid0_pn3() {
    sender_layout_short::<0, 3>();
}

#[kani::proof]
#[kani::unwind(10)]
#[kani::stub(core::slice::index::slice_index_fail, stub_slice_index_fail)]
fn c06_sender_short_dcid20_pn2() {
    sender_layout_short::<20, 2>();
}

/// R for short packets: arbitrary datagram bytes, arbitrary size, payload offset OFF.
fn receiver_calls_short<const OFF: usize>() {
    let (hp, pk) = abstract_keys();
    let orig: [u8; MAXPKT] = kani::any();
    let mut buf = orig;
    let size: usize = kani::any();
    kani::assume(size >= OFF + 20 && size <= MAXPKT);
    let expected: u64 = kani::any();
    kani::assume(expected < (1u64 << 62));

    let removed = remove_protection_of_short_packet(hp.as_ref(), &mut buf[..size], OFF);
    let hs = unsafe { &*hp.st.get() };
    assert!(hs.d_called, "header protection is always removed first");
    assert!(hs.d_sample_byte == orig[OFF + 4 + hp.probe], "sample == bytes[payload_offset+4 .. +20]");
    assert!(hs.d_first_in == orig[0] && hs.d_pn_len_in == 4, "first byte and the 4-byte pn window are handed to header protection");
    // nothing was protected with this key before, so the mask applied is mask_other
    let m = &hp.mask_other;
    let first_plain = orig[0] ^ (m[0] & if orig[0] & 0x80 != 0 { 0x0f } else { 0x1f });
    assert!(buf[0] == first_plain, "first byte unmasked in place");
    let pn_len = (first_plain & 0x03) as usize + 1;
    let j: usize = kani::any();
    kani::assume(j >= 1 && j < size);
    if j >= OFF && j < OFF + pn_len {
        assert!(buf[j] == orig[j] ^ m[1 + (j - OFF)], "packet number bytes unmasked in place");
    } else {
        assert!(buf[j] == orig[j], "no other byte of the packet is touched");
    }
    let (undecoded, phase) = match removed {
        Ok(Some(x)) => x,
        Ok(None) => panic!("abstract key never fails"),
        Err(_) => {
            assert!(first_plain & 0x18 != 0, "Err only for non-zero reserved bits");
            return;
        }
    };
    assert!(first_plain & 0x18 == 0, "non-zero reserved bits are an error (RFC 9000 17.3.1)");
    assert!(undecoded.size() == pn_len, "pn length from the unmasked first byte");
    assert!((phase == KeyPhaseBit::One) == (first_plain & 0x04 != 0), "key phase from the unmasked first byte");
    let mut wire = [0u8; 4];
    (&mut wire[..]).put_packet_number(undecoded);
    let mut i = 0;
    while i < 4 {
        if i < pn_len {
            assert!(wire[i] == buf[OFF + i], "truncated packet number == the unmasked pn bytes");
        }
        i += 1;
    }
    // call order of CipherPacket::decrypt_short_packet
    let decoded = undecoded.decode(expected);
    let body_offset = OFF + undecoded.size();
    let snapshot = buf;
    let res = decrypt_packet(pk.as_ref(), decoded, &mut buf[..size], body_offset);
    let ps = unsafe { &*pk.st.get() };
    assert!(ps.opened);
    assert!(ps.o_pn == decoded, "AEAD nonce from the decoded full packet number");
    assert!(ps.o_aad_len == body_offset, "associated data == bytes[..payload_offset+pn_len]");
    if pk.probe_aad < body_offset {
        assert!(ps.o_aad_byte == snapshot[pk.probe_aad], "associated data are the unmasked header bytes");
    }
    assert!(ps.o_payload_len == size - body_offset, "ciphertext+tag == everything after the packet number");
    if pk.probe_ct < size - body_offset {
        assert!(ps.o_ct_byte == snapshot[body_offset + pk.probe_ct]);
    }
    assert!(ps.o_tag_byte == snapshot[size - TAG + pk.probe_tag], "tag == last 16 bytes");
    assert!(res.is_ok() && res.unwrap() == size - body_offset - TAG, "reported body length == payload - pn - tag");
    kani::cover!(pn_len == 1, "1-byte pn");
    kani::cover!(pn_len == 4, "4-byte pn");
    kani::cover!(size == MAXPKT, "largest datagram");
}

#[kani::proof]
#[kani::unwind(10)]
#[kani::stub(core::slice::index::slice_index_fail, stub_slice_index_fail)]
fn c06_receiver_short_off9() {
    receiver_calls_short::<9>();
}

#[kani::proof]
#[kani::unwind(10)]
#[kani::stub(core::slice::index::slice_index_fail, stub_slice_index_fail)]
fn c06_receiver_short_off1() {
    receiver_calls_short::<1>();
}

/// A key that refuses (concrete error value): the real receive functions turn that into
/// "header protection failure ⇒ Ok(None)" resp. "DecryptPacketFailure" — i.e. the packet is dropped.
struct Refuse;
impl rustls::quic::HeaderProtectionKey for Refuse {
    fn encrypt_in_place(&self, _: &[u8], _: &mut u8, _: &mut [u8]) -> Result<(), rustls::Error> {
        Err(rustls::Error::EncryptError)
    }
    fn decrypt_in_place(&self, _: &[u8], _: &mut u8, _: &mut [u8]) -> Result<(), rustls::Error> {
        Err(rustls::Error::DecryptError)
    }
    fn sample_len(&self) -> usize {
        SAMPLE
    }
}
impl rustls::quic::PacketKey for Refuse {
    fn encrypt_in_place(&self, _: u64, _: &[u8], _: &mut [u8]) -> Result<rustls::quic::Tag, rustls::Error> {
        Err(rustls::Error::EncryptError)
    }
    fn decrypt_in_place<'a>(&self, _: u64, _: &[u8], _: &'a mut [u8]) -> Result<&'a [u8], rustls::Error> {
        Err(rustls::Error::DecryptError)
    }
    fn tag_len(&self) -> usize {
        TAG
    }
    fn confidentiality_limit(&self) -> u64 {
        u64::MAX
    }
    fn integrity_limit(&self) -> u64 {
        u64::MAX
    }
}

#[kani::proof]
#[kani::unwind(10)]
#[kani::stub(core::slice::index::slice_index_fail, stub_slice_index_fail)]
fn c06_key_error_discards() {
    let mut buf: [u8; MAXPKT] = kani::any();
    let r = remove_protection_of_short_packet(&Refuse, &mut buf[..], 9);
    assert!(matches!(r, Ok(None)), "header-protection failure ⇒ packet ignored");
    let r = remove_protection_of_long_packet(&Refuse, &mut buf[..], 9);
    assert!(matches!(r, Ok(None)));
    let pn: u64 = kani::any();
    let r = decrypt_packet(&Refuse, pn, &mut buf[..], 11);
    assert!(matches!(r, Err(crate::packet::error::Error::DecryptPacketFailure)), "AEAD failure ⇒ DecryptPacketFailure ⇒ packet dropped");
}

// ------------------------------------------------------------------------------------------------
// Long-header packets (Initial with token, Handshake, 0-RTT).

#[derive(Clone, Copy, PartialEq, Eq)]
enum LongKind {
    Initial,
    ZeroRtt,
    Handshake,
}

/// S for long-header packets: DL/SL = cid lengths, TL = token length (Initial only), PNL = pn length.
fn sender_layout_long<const DL: usize, const SL: usize, const TL: usize, const PNL: usize>(kind: LongKind) {
    let (hp, pk) = abstract_keys();
    let keys = DirectionalKeys { header: hp.clone(), packet: pk.clone() };
    let dcid = any_cid::<DL>();
    let scid = any_cid::<SL>();
    let token: [u8; TL] = kani::any();
    let (pn, acked, _expected) = any_pn();
    let encoded = encoded_pn::<PNL>(pn, acked);
    let body = any_body();

    let mut buf = [0u8; MAXPKT];
    let builder = LongHeaderBuilder::with_cid(dcid, scid);
    // header size the receiver will see: type(1)+version(4)+dcid(1+DL)+scid(1+SL)[+token len(1)+TL]
    let hdr = 1 + 4 + 1 + DL + 1 + SL + if kind == LongKind::Initial { 1 + TL } else { 0 };
    let writer = match kind {
        LongKind::Initial => {
            let h = builder.initial(token.to_vec());
            assert!(h.size() == hdr && h.length_encoding() == 2);
            PacketWriter::new_long(&h, &mut buf[..], (pn, encoded), keys)
        }
        LongKind::ZeroRtt => {
            let h = builder.zero_rtt();
            assert!(h.size() == hdr && h.length_encoding() == 2);
            PacketWriter::new_long(&h, &mut buf[..], (pn, encoded), keys)
        }
        LongKind::Handshake => {
            let h = builder.handshake();
            assert!(h.size() == hdr && h.length_encoding() == 2);
            PacketWriter::new_long(&h, &mut buf[..], (pn, encoded), keys)
        }
    };
    let mut writer = W(writer.unwrap());
    writer.put_slice(&body.bytes[..body.len]);
    let _ = PadTo20.dump(&mut writer);
    let writer = writer.0;
    let written_body = writer.payload_len() - PNL;
    let (size, info) = writer.encrypt_and_protect_packet();

    let off = hdr + 2; // payload offset: after the 2-byte Length field
    let body_off = off + PNL;
    assert!(info.packet_number() == pn);
    assert!(size == body_off + written_body + TAG, "packet size == header + length + pn + body + tag");
    assert!(PNL + written_body + TAG >= 20, "enough bytes for the header-protection sample");
    assert!(written_body >= body.len && (written_body == body.len || PNL + written_body + TAG == 20));
    // Length field: 2-byte varint of (pn + body + tag): what be_packet uses to find the packet end
    let length = (((buf[hdr] & 0x3f) as usize) << 8) | buf[hdr + 1] as usize;
    assert!(buf[hdr] & 0xc0 == 0x40, "2-byte varint prefix");
    assert!(length == PNL + written_body + TAG, "Length field covers packet number + payload + tag");

    let hs = unsafe { &*hp.st.get() };
    let ps = unsafe { &*pk.st.get() };
    assert!(hs.seen && ps.sealed);
    assert!(hs.sample_byte == buf[off + 4 + hp.probe], "sample is bytes[pn_offset+4 .. +20]");
    let first_plain = buf[0] ^ (hp.mask_seen[0] & 0x0f);
    let ty_bits = match kind {
        LongKind::Initial => 0x00,
        LongKind::ZeroRtt => 0x10,
        LongKind::Handshake => 0x20,
    };
    assert!(first_plain & 0xf0 == 0xc0 | ty_bits, "long form, fixed bit, packet type bits");
    assert!(first_plain & 0x0c == 0, "reserved bits are zero");
    assert!((first_plain & 0x03) as usize + 1 == PNL, "pn length bits");
    assert!(buf[1] == 0 && buf[2] == 0 && buf[3] == 0 && buf[4] == 1, "version 1");
    assert!(buf[5] as usize == DL && buf[6 + DL] as usize == SL, "cid length bytes");
    let mut wire = [0u8; 4];
    (&mut wire[..]).put_packet_number(encoded);
    let mut i = 0;
    while i < 4 {
        if i < PNL {
            assert!(buf[off + i] ^ hp.mask_seen[1 + i] == wire[i], "masked packet number bytes");
        }
        i += 1;
    }
    assert!(ps.pn == pn);
    assert!(ps.aad_len == body_off, "associated data == whole header incl. Length and packet number");
    assert!(ps.ct_len == written_body);
    let pa = pk.probe_aad;
    if pa < body_off {
        let unmasked = if pa == 0 {
            first_plain
        } else if pa >= off {
            buf[pa] ^ hp.mask_seen[1 + (pa - off)]
        } else {
            buf[pa]
        };
        assert!(ps.aad_byte == unmasked, "associated data == the unmasked header bytes of the final packet (Length already filled in)");
        if pa >= 6 && pa < 6 + DL {
            assert!(buf[pa] == dcid[pa - 6], "dcid on the wire");
        }
        if pa >= 7 + DL && pa < 7 + DL + SL {
            assert!(buf[pa] == scid[pa - 7 - DL], "scid on the wire");
        }
        if kind == LongKind::Initial && pa >= 8 + DL + SL && pa < 8 + DL + SL + TL {
            assert!(buf[pa] == token[pa - 8 - DL - SL], "token on the wire");
        }
    }
    let pc = pk.probe_ct;
    if pc < written_body {
        assert!(ps.ct_byte == buf[body_off + pc]);
        if pc < body.len {
            assert!(buf[body_off + pc] == body.bytes[pc]);
        } else {
            assert!(buf[body_off + pc] == 0);
        }
    }
    assert!(buf[size - TAG + pk.probe_tag] == pk.tag[pk.probe_tag], "tag occupies the last 16 bytes");
    kani::cover!(written_body > body.len, "PadTo20 padded the packet");
    kani::cover!(pa == hdr || pa == hdr + 1, "probe on the Length field");
}

#[kani::proof]
#[kani::unwind(10)]
#[kani::stub(core::slice::index::slice_index_fail, stub_slice_index_fail)]
fn c06_sender_handshake_cid8_8_pn2() {
    sender_layout_long::<8, 8, 0, 2>(LongKind::Handshake);
}

#[kani::proof]
#[kani::unwind(10)]
#[kani::stub(core::slice::index::slice_index_fail, stub_slice_index_fail)]
fn c06_sender_initial_cid8_0_tok3_pn4() {
    sender_layout_long::<8, 0, 3, 4>(LongKind::Initial);
}

#[kani::proof]
#[kani::unwind(10)]
#[kani::stub(core::slice::index::slice_index_fail, stub_slice_index_fail)]
fn c06_sender_zero_rtt_cid4_20_pn3() {
    sender_layout_long::<4, 20, 0, 3>(LongKind::ZeroRtt);
}

/// R for long packets: arbitrary bytes, payload offset OFF.
fn receiver_calls_long<const OFF: usize>() {
    let (hp, pk) = abstract_keys();
    let orig: [u8; MAXPKT] = kani::any();
    kani::assume(orig[0] & 0x80 != 0);
    let mut buf = orig;
    let size: usize = kani::any();
    kani::assume(size >= OFF + 20 && size <= MAXPKT);
    let expected: u64 = kani::any();
    kani::assume(expected < (1u64 << 62));

    let removed = remove_protection_of_long_packet(hp.as_ref(), &mut buf[..size], OFF);
    let hs = unsafe { &*hp.st.get() };
    assert!(hs.d_called);
    assert!(hs.d_sample_byte == orig[OFF + 4 + hp.probe], "sample == bytes[payload_offset+4 .. +20]");
    assert!(hs.d_first_in == orig[0] && hs.d_pn_len_in == 4);
    let m = &hp.mask_other;
    let first_plain = orig[0] ^ (m[0] & 0x0f);
    assert!(buf[0] == first_plain, "only the low 4 bits of a long header's first byte are protected");
    let pn_len = (first_plain & 0x03) as usize + 1;
    let j: usize = kani::any();
    kani::assume(j >= 1 && j < size);
    if j >= OFF && j < OFF + pn_len {
        assert!(buf[j] == orig[j] ^ m[1 + (j - OFF)]);
    } else {
        assert!(buf[j] == orig[j], "no other byte of the packet is touched");
    }
    let undecoded = match removed {
        Ok(Some(x)) => x,
        Ok(None) => panic!("abstract key never fails"),
        Err(_) => {
            assert!(first_plain & 0x0c != 0, "Err only for non-zero reserved bits");
            return;
        }
    };
    assert!(first_plain & 0x0c == 0, "non-zero reserved bits are an error (RFC 9000 17.2)");
    assert!(undecoded.size() == pn_len);
    let mut wire = [0u8; 4];
    (&mut wire[..]).put_packet_number(undecoded);
    let mut i = 0;
    while i < 4 {
        if i < pn_len {
            assert!(wire[i] == buf[OFF + i]);
        }
        i += 1;
    }
    let decoded = undecoded.decode(expected);
    let body_offset = OFF + undecoded.size();
    let snapshot = buf;
    let res = decrypt_packet(pk.as_ref(), decoded, &mut buf[..size], body_offset);
    let ps = unsafe { &*pk.st.get() };
    assert!(ps.opened && ps.o_pn == decoded);
    assert!(ps.o_aad_len == body_offset);
    if pk.probe_aad < body_offset {
        assert!(ps.o_aad_byte == snapshot[pk.probe_aad]);
    }
    assert!(ps.o_payload_len == size - body_offset);
    if pk.probe_ct < size - body_offset {
        assert!(ps.o_ct_byte == snapshot[body_offset + pk.probe_ct]);
    }
    assert!(ps.o_tag_byte == snapshot[size - TAG + pk.probe_tag]);
    assert!(res.is_ok() && res.unwrap() == size - body_offset - TAG);
    kani::cover!(pn_len == 3, "3-byte pn");
}

#[kani::proof]
#[kani::unwind(10)]
#[kani::stub(core::slice::index::slice_index_fail, stub_slice_index_fail)]
fn c06_receiver_long_off25() {
    receiver_calls_long::<25>();
}
