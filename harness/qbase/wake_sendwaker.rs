// C16 — `SendWaker` (qbase/src/net/tx.rs): the per-path "send conditions changed" protocol.
// Compiled inside qbase::net::tx (overlay, cfg(kani) only).
//
// Real usage (qconnection/src/path.rs): loop { match burst() { Err(Signals(s)) => wait_for(s).await, .. } }
// i.e. the waiter CHECKS its send conditions (one lock acquisition per component, yielding the set
// `s` of conditions that are not met) and only later REGISTERS through poll_wait_for(s) (another
// lock acquisition). Both are separate atomic steps here, so the check/register race is in the
// schedule. The notifier makes a condition true and calls wake_by(x) (one atomic step).
use core::task::{Context, Poll};

use super::*;

include!("wake_common.rs");
use vwk::{waker, wakes};

const K: usize = 6;

#[derive(Clone, Copy, PartialEq)]
enum Phase {
    Idle,    // between two rounds (about to re-check the send conditions)
    Checked, // conditions checked, `s` computed, not yet registered
    Waiting, // poll_wait_for(s) returned Pending at least once in this round
}

#[kani::proof]
#[kani::unwind(8)]
fn c16_sendwaker_schedule() {
    let mut sw = SendWaker::new();
    let w = waker(0);
    let mut cx = Context::from_waker(&w);
    let all = Signals::all().bits();

    let mut phase = Phase::Idle;
    let mut s: SignalsBits = 0; // signals awaited in the current round
    let mut since_check: SignalsBits = 0; // ghost: signals notified since the check of this round
    let mut since_poll: SignalsBits = 0; // ghost: signals notified since the last Pending poll
    let mut asleep = false;
    let mut wakes_at_poll = wakes(0);
    let mut rounds_completed = 0u8;

    let mut i = 0;
    while i < K {
        let choice: u8 = kani::any();
        kani::assume(choice < 3);
        match choice {
            0 if phase == Phase::Idle => {
                // waiter: check the send conditions -> set of unmet conditions (non-empty)
                s = kani::any();
                kani::assume(s != 0 && s & !all == 0);
                since_check = 0;
                phase = Phase::Checked;
            }
            1 if phase != Phase::Idle => {
                // waiter: register / re-poll (spurious re-polls allowed)
                let r = sw.poll_wait_for(&mut cx, Signals::from_bits_truncate(s));
                match r {
                    Poll::Pending => {
                        assert!(since_check & s == 0,
                            "a condition made true after the check is observed by the registering poll");
                        if asleep && phase == Phase::Waiting {
                            // re-poll that stays Pending: nothing relevant happened since the last poll
                            assert!(since_poll & s == 0);
                        }
                        asleep = true;
                        wakes_at_poll = wakes(0);
                        since_poll = 0;
                        phase = Phase::Waiting;
                    }
                    Poll::Ready(()) => {
                        asleep = false;
                        phase = Phase::Idle;
                        rounds_completed += 1;
                    }
                }
            }
            2 => {
                // notifier: a send condition became true
                let x: SignalsBits = kani::any();
                kani::assume(x & !all == 0);
                let before = wakes(0);
                sw.wake_by(Signals::from_bits_truncate(x));
                since_check |= x;
                let newly_awaited = x & s & !since_poll;
                since_poll |= x;
                if asleep {
                    // exactness: the sleeper is woken exactly when an awaited signal is newly raised
                    assert!((wakes(0) != before) == (newly_awaited != 0),
                        "wake_by wakes the sleeper iff it newly raises an awaited signal");
                }
            }
            _ => {}
        }
        i += 1;
    }
    let woken = wakes(0) != wakes_at_poll;
    kani::cover!(asleep && woken, "slept and was woken");
    kani::cover!(asleep && !woken && since_poll != 0, "irrelevant notification does not wake");
    kani::cover!(rounds_completed >= 2, "two complete check/wait rounds");
    kani::cover!(rounds_completed >= 1 && asleep, "second round asleep");
    if asleep && !woken {
        assert!(since_poll & s == 0, "no lost wake-up: an awaited signal was raised but the sleeper was not woken");
        assert!(since_check & s == 0);
        let probe = sw.poll_wait_for(&mut cx, Signals::from_bits_truncate(s));
        assert!(probe.is_pending(), "sleeping unwoken task: poll would complete");
    }
    if asleep && woken {
        let probe = sw.poll_wait_for(&mut cx, Signals::from_bits_truncate(s));
        assert!(probe.is_ready(), "a woken task finds its condition on re-poll");
    }
}
