// Kani harnesses compiled inside qbase::flow (overlay, cfg(kani) only).
// Property C17, connection-level send flow controller: from an arbitrary valid controller state,
// with or without an outstanding `Credit`, after `FlowController::on_conn_error(e1)` (and a second
// one with e2):
//   * `credit()` / `send_limit()` return e1 (first error wins) — so `try_load_data_into_once`
//     stops with "connection closed",
//   * MAX_DATA from the peer and 0-RTT revision are ignored, DATA_BLOCKED is not emitted,
//   * dropping a Credit that was handed out before the error neither panics nor revives the controller.
use super::*;

const VMAX: u64 = crate::varint::VARINT_MAX;

static mut BLOCKED_N: u32 = 0;
static mut MAXDATA_N: u32 = 0;
static mut WAKE_N: u32 = 0;

#[derive(Clone, Debug, Default)]
struct Sink;

impl SendFrame<DataBlockedFrame> for Sink {
    fn send_frame<I: IntoIterator<Item = DataBlockedFrame>>(&self, iter: I) {
        for _f in iter {
            unsafe { BLOCKED_N += 1 };
        }
    }
}
impl SendFrame<MaxDataFrame> for Sink {
    fn send_frame<I: IntoIterator<Item = MaxDataFrame>>(&self, iter: I) {
        for _f in iter {
            unsafe { MAXDATA_N += 1 };
        }
    }
}

fn stub_wake_all_by(_w: &ArcSendWakers, _signals: Signals) {
    unsafe { WAKE_N += 1 };
}
fn stub_fmt(_args: core::fmt::Arguments<'_>) -> String {
    String::new()
}
fn stub_mutex_lock<T: ?Sized>(m: &std::sync::Mutex<T>) -> std::sync::LockResult<std::sync::MutexGuard<'_, T>> {
    match m.try_lock() {
        Ok(g) => Ok(g),
        Err(std::sync::TryLockError::Poisoned(p)) => Err(p),
        Err(std::sync::TryLockError::WouldBlock) => panic!("self-deadlock: mutex already held"),
    }
}

fn any_kind() -> ErrorKind {
    let k: u8 = kani::any();
    match k % 6 {
        0 => ErrorKind::Internal,
        1 => ErrorKind::FlowControl,
        2 => ErrorKind::ProtocolViolation,
        3 => ErrorKind::FinalSize,
        4 => ErrorKind::None,
        _ => ErrorKind::StreamLimit,
    }
}
fn conn_error(kind: ErrorKind) -> Error {
    Error::Quic(QuicError::with_default_fty(kind, "x"))
}

fn err_kind<T>(r: Result<T, Error>) -> Option<ErrorKind> {
    match r {
        Ok(v) => {
            core::mem::forget(v);
            None
        }
        Err(e) => {
            let k = e.kind();
            core::mem::forget(e);
            Some(k)
        }
    }
}

#[kani::proof]
#[kani::unwind(4)]
#[kani::stub(crate::net::tx::ArcSendWakers::wake_all_by, stub_wake_all_by)]
#[kani::stub(alloc::fmt::format, stub_fmt)]
#[kani::stub(std::sync::Mutex::lock, stub_mutex_lock)]
fn c17_flow_poison() {
    let sent_data: u64 = kani::any();
    let max_data: u64 = kani::any();
    kani::assume(sent_data <= max_data && max_data <= VMAX);
    // (the harness keeps its own handle on the path wakers: dropping the last one would run the drop
    // glue of an empty BTreeMap<Pathway, _>, which CBMC cannot get through)
    let tx = ArcSendWakers::default();
    let fc = FlowController::new(0, 100, Sink, tx.clone());
    {
        let mut g = fc.sender.0.lock().unwrap();
        let inner = g.as_mut().unwrap();
        inner.sent_data = sent_data;
        inner.max_data = max_data;
        inner.flow_limited = kani::any();
    }
    // optionally a packet is being assembled: a Credit is outstanding while the error strikes
    let outstanding: bool = kani::any();
    let quota: usize = kani::any();
    let credit = if outstanding {
        match fc.send_limit(quota) {
            Ok(c) => Some(c),
            Err(_) => panic!("live controller hands out credit"),
        }
    } else {
        None
    };
    let blocked_before = unsafe { BLOCKED_N };
    let wakes_before = unsafe { WAKE_N };
    let k1 = any_kind();
    let k2 = any_kind();
    kani::assume(k1 != k2);

    fc.on_conn_error(&conn_error(k1));
    fc.on_conn_error(&conn_error(k2));

    assert!(err_kind(fc.send_limit(kani::any())) == Some(k1), "no credit after the connection error; the first error is reported");
    assert!(err_kind(fc.sender.credit(kani::any())) == Some(k1));
    let m: u64 = kani::any();
    kani::assume(m <= VMAX);
    fc.reset_send_window(m);
    let _ = fc.sender.recv_frame(MaxDataFrame::new(VarInt::from_u64(m).unwrap()));
    fc.sender.revise_max_data(kani::any(), m);
    if let Some(mut c) = credit {
        let used: usize = kani::any();
        kani::assume(used <= c.available());
        c.post_sent(used);
        drop(c); // returns the unused part: must be a no-op on a dead controller
    }
    assert!(err_kind(fc.send_limit(1)) == Some(k1), "nothing revives the controller");
    assert!(unsafe { BLOCKED_N } == blocked_before && unsafe { WAKE_N } == wakes_before, "no DATA_BLOCKED, no transport wake-up after the error");
    kani::cover!(outstanding && quota > 0 && sent_data < max_data, "credit outstanding while the connection fails");
    kani::cover!(!outstanding, "idle controller");
    core::mem::forget(tx);
}
