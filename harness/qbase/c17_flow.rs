// Kani harnesses compiled inside qbase::flow (overlay, cfg(kani) only).
// Property C17, connection-level send flow controller: from an arbitrary valid controller state,
// with or without an outstanding `Credit`, after `FlowController::on_conn_error(e1)` (and a second
// one with e2):
//   * `credit()` / `send_limit()` return e1 (first error wins) — so `try_load_data_into_once`
//     stops with "connection closed",
//   * MAX_DATA from the peer and 0-RTT revision are ignored, DATA_BLOCKED is not emitted,
//   * dropping a Credit that was handed out before the error neither panics nor revives the controller.
use super::*;

const VMAX: u64 = crate::varint::VARINT_MAX;

static mut BLOCKED_N: u32 = 0;
static mut MAXDATA_N: u32 = 0;
static mut WAKE_N: u32 = 0;

#[derive(Clone, Debug, Default)]
struct Sink;

impl SendFrame<DataBlockedFrame> for Sink {
    fn send_frame<I: IntoIterator<Item = DataBlockedFrame>>(&self, iter: I) {
        for _f in iter {
            unsafe { BLOCKED_N += 1 };
        }
    }
}
impl SendFrame<MaxDataFrame> for Sink {
    fn send_frame<I: IntoIterator<Item = MaxDataFrame>>(&self, iter: I) {
        for _f in iter {
            unsafe { MAXDATA_N += 1 };
        }
    }
}

fn stub_wake_all_by(_w: &ArcSendWakers, _signals: Signals) {
    unsafe { WAKE_N += 1 };
}
fn stub_fmt(_args: core::fmt::Arguments<'_>) -> String {
    String::new()
}

fn any_kind() -> ErrorKind {
    let k: u8 = kani::any();
    match k % 6 {
        0 => ErrorKind::Internal,
        1 => ErrorKind::FlowControl,
        2 => ErrorKind::ProtocolViolation,
        3 => ErrorKind::FinalSize,
        4 => ErrorKind::None,
        _ => ErrorKind::StreamLimit,
    }
}
fn conn_error(kind: ErrorKind) -> Error {
    Error::Quic(QuicError::with_default_fty(kind, "x"))
}

fn err_kind<T>(r: Result<T, Error>) -> Option<ErrorKind> {
    match r {
        Ok(v) => {
            core::mem::forget(v);
            None
        }
        Err(e) => {
            let k = e.kind();
            core::mem::forget(e);
            Some(k)
        }
    }
}

#[kani::proof]
#[kani::unwind(4)]
#[kani::stub(crate::net::tx::ArcSendWakers::wake_all_by, stub_wake_all_by)]
#[kani::stub(alloc::fmt::format, stub_fmt)]
fn c17_flow_poison() {
    let sent_data: u64 = kani::any();
    let max_data: u64 = kani::any();
    kani::assume(sent_data <= max_data && max_data <= VMAX);
    let ctl = ArcSendControler(Arc::new(Mutex::new(Ok(SendControler {
        sent_data,
        max_data,
        flow_limited: kani::any(),
        broker: Sink,
        tx_wakers: ArcSendWakers::default(),
    }))));
    let k1 = any_kind();
    let k2 = any_kind();
    kani::assume(k1 != k2);

    // what FlowController::on_conn_error does
    ctl.on_error(&conn_error(k1));
    ctl.on_error(&conn_error(k2));

    assert!(err_kind(ctl.credit(kani::any())) == Some(k1), "no credit after the connection error; the first error is reported");
    let m: u64 = kani::any();
    kani::assume(m <= VMAX);
    let _ = ctl.recv_frame(MaxDataFrame::new(VarInt::from_u64(m).unwrap()));
    ctl.revise_max_data(kani::any(), m);
    assert!(err_kind(ctl.credit(1)) == Some(k1), "neither MAX_DATA nor a 0-RTT revision revives the controller");
    assert!(unsafe { BLOCKED_N } == 0 && unsafe { WAKE_N } == 0, "no DATA_BLOCKED, no transport wake-up after the error");
    kani::cover!(sent_data == max_data, "was blocked");
    kani::cover!(sent_data < max_data, "had credit left");
    core::mem::forget(ctl);
}
