// Kani harnesses compiled *inside* qbase::param (overlay injection, cfg(kani) only).
// Property C18: the connection's `Parameters` become ready only after the peer's transport
// parameters were received AND the connection ids they declare equal the ones observed on the
// wire (both roles, both arrival orders of "first Initial packet" and "TLS extension"), otherwise
// a TransportParameter error; effective idle timeout = smaller non-zero advertised value.
//
// `ClientParameters`/`ServerParameters` run over verif_model::HashMap (props [[swap]]).
// Precondition taken from the only producers of peer parameter sets
// (`Parameters::<R>::parse_from_bytes`, qconnection/src/tls.rs): a peer set handed to
// `recv_remote_params` contains the role's mandatory ids (initial_source_connection_id, and for
// a server original_destination_connection_id).
use super::*;

/// Work-around for a Kani 0.68 layout bug: the goto type generated for the niche-encoded enum
/// `ParameterValue` (Bytes + PreferredAddress variants) is LARGER than rustc's `size_of`, so
/// `Box::new` / `Arc::new` of a value containing it (Arc<Parameters<R>>) writes past the object the
/// allocator returned (spurious "pointer outside object bounds", and the copy is corrupted).
/// Every heap object gets 64 bytes of slack; deallocation is a no-op (sizes no longer match).
/// Given up in these harnesses: detection of heap overflows < 64 bytes and of bad deallocations.
pub(crate) unsafe fn stub_alloc_slack(layout: std::alloc::Layout) -> *mut u8 {
    unsafe {
        std::alloc::alloc_zeroed(std::alloc::Layout::from_size_align_unchecked(layout.size() + 64, layout.align()))
    }
}
pub(crate) unsafe fn stub_dealloc_leak(_ptr: *mut u8, _layout: std::alloc::Layout) {}
pub(crate) unsafe fn stub_dealloc_nn_leak(_ptr: ::core::ptr::NonNull<u8>, _layout: std::alloc::Layout) {}
pub(crate) unsafe fn stub_realloc_nn_slack(ptr: ::core::ptr::NonNull<u8>, layout: std::alloc::Layout, new_size: usize) -> *mut u8 {
    unsafe { stub_realloc_slack(ptr.as_ptr(), layout, new_size) }
}
pub(crate) unsafe fn stub_realloc_slack(ptr: *mut u8, layout: std::alloc::Layout, new_size: usize) -> *mut u8 {
    unsafe {
        let new = std::alloc::alloc_zeroed(std::alloc::Layout::from_size_align_unchecked(new_size + 64, layout.align()));
        let n = if layout.size() < new_size { layout.size() } else { new_size };
        ::core::ptr::copy_nonoverlapping(ptr, new, n);
        new
    }
}

/// Arbitrary connection id: length 0..=20, arbitrary bytes (also beyond `len`, as
/// `ConnectionId::random_gen` leaves them).
fn any_cid() -> ConnectionId {
    let len: u8 = kani::any();
    kani::assume(len <= 20);
    let bytes: [u8; 20] = kani::any();
    ConnectionId { len, bytes }
}

/// Connection id of the concrete length L with arbitrary bytes.
fn cid_of_len<const L: u8>() -> ConnectionId {
    let bytes: [u8; 20] = kani::any();
    ConnectionId { len: L, bytes }
}

/// Connection-id equality written independently of `PartialEq for ConnectionId` (loop-free, so
/// that the harnesses can keep a small unwind bound).
fn same_cid(a: &ConnectionId, b: &ConnectionId) -> bool {
    let n = a.len as usize;
    let e = |i: usize| i >= n || a.bytes[i] == b.bytes[i];
    a.len == b.len
        && e(0) && e(1) && e(2) && e(3) && e(4) && e(5) && e(6) && e(7) && e(8) && e(9)
        && e(10) && e(11) && e(12) && e(13) && e(14) && e(15) && e(16) && e(17) && e(18) && e(19)
}

/// C18 (support): `ConnectionId == ConnectionId` (what `authenticate_cids` uses) is equality of
/// length and of the first `len` bytes, for every length 0..=20 and arbitrary trailing bytes.
#[kani::proof]
#[kani::unwind(22)]
fn c18_cid_equality() {
    let a = any_cid();
    let b = any_cid();
    kani::cover!(a == b && a.len == 20, "equal 20-byte cids");
    kani::cover!(a == b && a.len == 0, "equal empty cids");
    kani::cover!(a != b && a.len == b.len, "same length, different bytes");
    kani::cover!(a == b && a.bytes[19] != b.bytes[19] && a.len == 19, "trailing bytes ignored");
    assert!((a == b) == same_cid(&a, &b));
}

/// C18, client role: server parameters (declaring initial_source_connection_id and
/// original_destination_connection_id) and the first Initial packet's source cid arrive in either
/// order (PF = parameters first). Ready iff both arrived and both declared cids equal the observed
/// ones; the second event fails with TransportParameter otherwise; the first event never decides.
/// LS/LO: lengths of the observed scid / odcid, LDS/LDO: of the declared ones.
fn auth_client<const LS: u8, const LO: u8, const LDS: u8, const LDO: u8, const PF: bool>(with_remembered: bool) {
    let odcid = cid_of_len::<LO>();
    let wire_scid = cid_of_len::<LS>();
    let decl_iscid = cid_of_len::<LDS>();
    let decl_odcid = cid_of_len::<LDO>();

    let mut server = ServerParameters::new();
    let s1 = server.set(ParameterId::InitialSourceConnectionId, decl_iscid);
    let s2 = server.set(ParameterId::OriginalDestinationConnectionId, decl_odcid);
    assert!(s1.is_ok() && s2.is_ok());
    ::core::mem::forget((s1, s2));
    let mut client = ClientParameters::new();
    let s3 = client.set(ParameterId::InitialSourceConnectionId, ConnectionId::default());
    ::core::mem::forget(s3);

    let remembered = if with_remembered { Some(ServerParameters::new()) } else { None };
    let mut p = Parameters::new_client(client, remembered, odcid);
    assert!(p.role() == Role::Client);
    assert!(!p.is_remote_params_received() && !p.is_remote_params_ready());
    assert!(p.server().is_none() && p.client().is_some());
    assert!(p.remembered().is_some() == with_remembered);

    // first event: never decides, never fails
    let mut server = Some(server);
    let r1 = if PF { p.recv_remote_params(server.take().unwrap()) } else { p.initial_scid_from_peer_need_equal(wire_scid) };
    assert!(r1.is_ok());
    ::core::mem::forget(r1);
    assert!(p.is_remote_params_received() == PF);
    assert!(p.initial_scid_from_peer().is_some() == !PF);
    assert!(!p.is_remote_params_ready(), "one event alone never makes the parameters ready");
    assert!(p.server().is_none());
    assert!(p.get_remote::<u64>(ParameterId::InitialMaxData).is_none());

    // second event: decides
    let r2 = if PF { p.initial_scid_from_peer_need_equal(wire_scid) } else { p.recv_remote_params(server.take().unwrap()) };
    let authentic = same_cid(&decl_iscid, &wire_scid) && same_cid(&decl_odcid, &odcid);
    kani::cover!(authentic || LS != LDS || LO != LDO, "cids authentic");
    kani::cover!(!same_cid(&decl_iscid, &wire_scid), "initial scid mismatch");
    kani::cover!((same_cid(&decl_iscid, &wire_scid) && !same_cid(&decl_odcid, &odcid)) || LS != LDS || (LO == 0 && LDO == 0), "odcid mismatch");
    if authentic {
        assert!(r2.is_ok());
        assert!(p.is_remote_params_ready());
        assert!(p.server().is_some() && p.client().is_some());
        assert!(p.remembered().is_none(), "remembered parameters dropped once the real ones are in");
        match p.get_remote::<ConnectionId>(ParameterId::InitialSourceConnectionId) {
            Some(c) => assert!(same_cid(&c, &decl_iscid)),
            None => assert!(false),
        }
    } else {
        assert!(matches!(&r2, Err(e) if e.kind() == ErrorKind::TransportParameter));
        assert!(!p.is_remote_params_ready());
        assert!(p.server().is_none());
    }
    ::core::mem::forget(r2);
    ::core::mem::forget(server);
    ::core::mem::forget(p);
}

/// C18 client, TLS extension before the first Initial packet; scid 8 bytes, odcid 8 bytes.
#[kani::proof]
#[kani::unwind(10)]
#[kani::stub(std::alloc::alloc, stub_alloc_slack)]
#[kani::stub(std::alloc::dealloc, stub_dealloc_leak)]
#[kani::stub(std::alloc::realloc, stub_realloc_slack)]
#[kani::stub(alloc::alloc::dealloc_nonnull, stub_dealloc_nn_leak)]
#[kani::stub(alloc::alloc::realloc_nonnull, stub_realloc_nn_slack)]
fn c18_auth_client_params_first() {
    auth_client::<8, 8, 8, 8, true>(kani::any());
}

/// C18 client, first Initial packet before the TLS extension.
#[kani::proof]
#[kani::unwind(10)]
#[kani::stub(std::alloc::alloc, stub_alloc_slack)]
#[kani::stub(std::alloc::dealloc, stub_dealloc_leak)]
#[kani::stub(std::alloc::realloc, stub_realloc_slack)]
#[kani::stub(alloc::alloc::dealloc_nonnull, stub_dealloc_nn_leak)]
#[kani::stub(alloc::alloc::realloc_nonnull, stub_realloc_nn_slack)]
fn c18_auth_client_packet_first() {
    auth_client::<8, 8, 8, 8, false>(false);
}

/// C18 client, boundary lengths: 20-byte scid, empty odcid.
#[kani::proof]
#[kani::unwind(22)]
#[kani::stub(std::alloc::alloc, stub_alloc_slack)]
#[kani::stub(std::alloc::dealloc, stub_dealloc_leak)]
#[kani::stub(std::alloc::realloc, stub_realloc_slack)]
#[kani::stub(alloc::alloc::dealloc_nonnull, stub_dealloc_nn_leak)]
#[kani::stub(alloc::alloc::realloc_nonnull, stub_realloc_nn_slack)]
fn c18_auth_client_len_20_0() {
    auth_client::<20, 0, 20, 0, true>(false);
}

/// C18 client, declared odcid of another length than the observed one: always refused.
#[kani::proof]
#[kani::unwind(10)]
#[kani::stub(std::alloc::alloc, stub_alloc_slack)]
#[kani::stub(std::alloc::dealloc, stub_dealloc_leak)]
#[kani::stub(std::alloc::realloc, stub_realloc_slack)]
#[kani::stub(alloc::alloc::dealloc_nonnull, stub_dealloc_nn_leak)]
#[kani::stub(alloc::alloc::realloc_nonnull, stub_realloc_nn_slack)]
fn c18_auth_client_len_mismatch() {
    auth_client::<8, 8, 8, 4, false>(false);
}

/// C18, server role: client parameters (declaring initial_source_connection_id) and the first
/// Initial packet's source cid, either order (PF = parameters first).
fn auth_server<const LW: u8, const LD: u8, const PF: bool>() {
    let wire_scid = cid_of_len::<LW>();
    let decl_iscid = cid_of_len::<LD>();

    let mut client = ClientParameters::new();
    let s1 = client.set(ParameterId::InitialSourceConnectionId, decl_iscid);
    assert!(s1.is_ok());
    ::core::mem::forget(s1);
    let mut server = ServerParameters::new();
    let s2 = server.set(ParameterId::InitialSourceConnectionId, ConnectionId::default());
    ::core::mem::forget(s2);

    let mut p = Parameters::new_server(server);
    assert!(p.role() == Role::Server);
    assert!(!p.is_remote_params_received() && !p.is_remote_params_ready());
    assert!(p.client().is_none() && p.server().is_some());

    let mut client = Some(client);
    let r1 = if PF { p.recv_remote_params(client.take().unwrap()) } else { p.initial_scid_from_peer_need_equal(wire_scid) };
    assert!(r1.is_ok());
    ::core::mem::forget(r1);
    assert!(p.is_remote_params_received() == PF);
    assert!(!p.is_remote_params_ready(), "one event alone never makes the parameters ready");
    assert!(p.client().is_none());

    let r2 = if PF { p.initial_scid_from_peer_need_equal(wire_scid) } else { p.recv_remote_params(client.take().unwrap()) };
    let authentic = same_cid(&decl_iscid, &wire_scid);
    kani::cover!(authentic || LW != LD, "authentic cid");
    kani::cover!(!authentic || (LW == 0 && LD == 0), "different cid");
    if authentic {
        assert!(r2.is_ok());
        assert!(p.is_remote_params_ready());
        match p.get_remote::<ConnectionId>(ParameterId::InitialSourceConnectionId) {
            Some(c) => assert!(same_cid(&c, &decl_iscid)),
            None => assert!(false),
        }
    } else {
        assert!(matches!(&r2, Err(e) if e.kind() == ErrorKind::TransportParameter));
        assert!(!p.is_remote_params_ready());
        assert!(p.client().is_none());
    }
    ::core::mem::forget(r2);
    ::core::mem::forget(client);
    ::core::mem::forget(p);
}

/// C18 server, client parameters before the first Initial packet, 8-byte cids.
#[kani::proof]
#[kani::unwind(10)]
#[kani::stub(std::alloc::alloc, stub_alloc_slack)]
#[kani::stub(std::alloc::dealloc, stub_dealloc_leak)]
#[kani::stub(std::alloc::realloc, stub_realloc_slack)]
#[kani::stub(alloc::alloc::dealloc_nonnull, stub_dealloc_nn_leak)]
#[kani::stub(alloc::alloc::realloc_nonnull, stub_realloc_nn_slack)]
fn c18_auth_server_params_first() {
    auth_server::<8, 8, true>();
}

/// C18 server, first Initial packet before the client parameters, 8-byte cids.
#[kani::proof]
#[kani::unwind(10)]
#[kani::stub(std::alloc::alloc, stub_alloc_slack)]
#[kani::stub(std::alloc::dealloc, stub_dealloc_leak)]
#[kani::stub(std::alloc::realloc, stub_realloc_slack)]
#[kani::stub(alloc::alloc::dealloc_nonnull, stub_dealloc_nn_leak)]
#[kani::stub(alloc::alloc::realloc_nonnull, stub_realloc_nn_slack)]
fn c18_auth_server_packet_first() {
    auth_server::<8, 8, false>();
}

/// C18 server, boundary lengths 20 and 0.
#[kani::proof]
#[kani::unwind(22)]
#[kani::stub(std::alloc::alloc, stub_alloc_slack)]
#[kani::stub(std::alloc::dealloc, stub_dealloc_leak)]
#[kani::stub(std::alloc::realloc, stub_realloc_slack)]
#[kani::stub(alloc::alloc::dealloc_nonnull, stub_dealloc_nn_leak)]
#[kani::stub(alloc::alloc::realloc_nonnull, stub_realloc_nn_slack)]
fn c18_auth_server_len_20() {
    auth_server::<20, 20, false>();
}

#[kani::proof]
#[kani::unwind(10)]
#[kani::stub(std::alloc::alloc, stub_alloc_slack)]
#[kani::stub(std::alloc::dealloc, stub_dealloc_leak)]
#[kani::stub(std::alloc::realloc, stub_realloc_slack)]
#[kani::stub(alloc::alloc::dealloc_nonnull, stub_dealloc_nn_leak)]
#[kani::stub(alloc::alloc::realloc_nonnull, stub_realloc_nn_slack)]
fn c18_auth_server_len_0() {
    auth_server::<0, 0, true>();
}

/// C18 server, declared cid of another length than the observed one: always refused.
#[kani::proof]
#[kani::unwind(10)]
#[kani::stub(std::alloc::alloc, stub_alloc_slack)]
#[kani::stub(std::alloc::dealloc, stub_dealloc_leak)]
#[kani::stub(std::alloc::realloc, stub_realloc_slack)]
#[kani::stub(alloc::alloc::dealloc_nonnull, stub_dealloc_nn_leak)]
#[kani::stub(alloc::alloc::realloc_nonnull, stub_realloc_nn_slack)]
fn c18_auth_server_len_mismatch() {
    auth_server::<8, 5, true>();
}

/// C18 (pending — suspected defect): RFC 9000 §7.3: a client that received a Retry packet must
/// find retry_source_connection_id == the Retry's source cid in the server's parameters (and must
/// find it absent if there was no Retry). `authenticate_cids` ignores `retry_scid` (the check is
/// commented out), so a mismatching / missing retry_source_connection_id is accepted.
#[kani::proof]
#[kani::stub(std::alloc::alloc, stub_alloc_slack)]
#[kani::stub(std::alloc::dealloc, stub_dealloc_leak)]
#[kani::stub(std::alloc::realloc, stub_realloc_slack)]
#[kani::stub(alloc::alloc::dealloc_nonnull, stub_dealloc_nn_leak)]
#[kani::stub(alloc::alloc::realloc_nonnull, stub_realloc_nn_slack)]
#[kani::unwind(10)]
fn c18_auth_client_retry_scid() {
    let odcid = cid_of_len::<8>();
    let wire_scid = cid_of_len::<8>();
    let retry_wire = cid_of_len::<8>();
    let decl_retry = cid_of_len::<8>();
    let declares_retry: bool = kani::any();

    let mut server = ServerParameters::new();
    ::core::mem::forget(server.set(ParameterId::InitialSourceConnectionId, wire_scid));
    ::core::mem::forget(server.set(ParameterId::OriginalDestinationConnectionId, odcid));
    if declares_retry {
        ::core::mem::forget(server.set(ParameterId::RetrySourceConnectionId, decl_retry));
    }
    let mut client = ClientParameters::new();
    ::core::mem::forget(client.set(ParameterId::InitialSourceConnectionId, ConnectionId::default()));
    let mut p = Parameters::new_client(client, None, odcid);
    p.retry_scid_from_server_need_equal(retry_wire);
    let r0 = p.initial_scid_from_peer_need_equal(wire_scid);
    assert!(r0.is_ok());
    ::core::mem::forget(r0);
    let r = p.recv_remote_params(server);
    let authentic = declares_retry && same_cid(&decl_retry, &retry_wire);
    kani::cover!(authentic, "retry cid authentic");
    assert!(r.is_ok() == authentic, "retry_source_connection_id must match the Retry packet");
    ::core::mem::forget(r);
    ::core::mem::forget(p);
}

/// Any Duration (what a local configuration may hold) / any whole-millisecond Duration < 2^62 ms
/// (what the wire can carry) — the negotiation only compares, so both are covered by (secs, nanos).
fn any_duration() -> Duration {
    let secs: u64 = kani::any();
    let nanos: u32 = kani::any();
    kani::assume(nanos < 1_000_000_000);
    Duration::new(secs, nanos)
}

/// C18: effective idle timeout == the smaller non-zero of the two advertised values (absent == 0;
/// both zero: no timeout, reported as Duration::MAX); None until the peer's parameters are ready.
/// The `Parameters` are built from the private fields in the state the two events leave behind
/// (both sets installed; `ready` symbolic), so that only the negotiation itself is executed.
fn idle_negotiated<const AS_CLIENT: bool>() {
    let local = any_duration();
    let remote = any_duration();
    let local_present: bool = kani::any();
    let remote_present: bool = kani::any();
    let ready: bool = kani::any();
    let cid = ConnectionId::default();

    let mut client = ClientParameters::new();
    let mut server = ServerParameters::new();
    let (c_idle, c_present, s_idle, s_present) =
        if AS_CLIENT { (local, local_present, remote, remote_present) } else { (remote, remote_present, local, local_present) };
    if c_present {
        let r = client.set(ParameterId::MaxIdleTimeout, c_idle);
        assert!(r.is_ok());
        ::core::mem::forget(r);
    }
    if s_present {
        let r = server.set(ParameterId::MaxIdleTimeout, s_idle);
        assert!(r.is_ok());
        ::core::mem::forget(r);
    }
    let local_bit = if AS_CLIENT { Parameters::CLIENT_READY } else { Parameters::SERVER_READY };
    let p = Parameters {
        state: if ready { Parameters::CLIENT_READY | Parameters::SERVER_READY } else { local_bit },
        client: Arc::new(client),
        server: Arc::new(server),
        remembered: None,
        requirements: if AS_CLIENT {
            Requirements::Client { initial_scid: Some(cid), retry_scid: None, origin_dcid: cid }
        } else {
            Requirements::Server { initial_scid: Some(cid) }
        },
        wakers: Vec::new(),
    };
    assert!(p.is_remote_params_ready() == ready);
    let l = if local_present { local } else { Duration::ZERO };
    let r = if remote_present { remote } else { Duration::ZERO };
    let want = if l == Duration::ZERO && r == Duration::ZERO {
        Duration::MAX
    } else if l == Duration::ZERO {
        r
    } else if r == Duration::ZERO {
        l
    } else if l < r {
        l
    } else {
        r
    };
    let got = p.negotiated_max_idle_timeout();
    kani::cover!(ready && l != Duration::ZERO && r != Duration::ZERO && l < r, "local value is the smaller");
    kani::cover!(ready && l != Duration::ZERO && r != Duration::ZERO && r < l, "remote value is the smaller");
    kani::cover!(ready && l == Duration::ZERO && r != Duration::ZERO, "only the peer advertises");
    kani::cover!(ready && !local_present && !remote_present, "nobody advertises");
    kani::cover!(!ready, "peer parameters not ready yet");
    if ready {
        assert!(got == Some(want), "effective idle timeout is the smaller non-zero advertised value");
    } else {
        assert!(got.is_none(), "no negotiated value before the peer's parameters are ready");
    }
    ::core::mem::forget(p);
}

#[kani::proof]
#[kani::unwind(10)]
#[kani::stub(std::alloc::alloc, stub_alloc_slack)]
#[kani::stub(std::alloc::dealloc, stub_dealloc_leak)]
#[kani::stub(std::alloc::realloc, stub_realloc_slack)]
#[kani::stub(alloc::alloc::dealloc_nonnull, stub_dealloc_nn_leak)]
#[kani::stub(alloc::alloc::realloc_nonnull, stub_realloc_nn_slack)]
fn c18_idle_timeout_negotiated_client() {
    idle_negotiated::<true>();
}

#[kani::proof]
#[kani::unwind(10)]
#[kani::stub(std::alloc::alloc, stub_alloc_slack)]
#[kani::stub(std::alloc::dealloc, stub_dealloc_leak)]
#[kani::stub(std::alloc::realloc, stub_realloc_slack)]
#[kani::stub(alloc::alloc::dealloc_nonnull, stub_dealloc_nn_leak)]
#[kani::stub(alloc::alloc::realloc_nonnull, stub_realloc_nn_slack)]
fn c18_idle_timeout_negotiated_server() {
    idle_negotiated::<false>();
}
