// Kani harnesses compiled *inside* qbase::param (overlay injection, cfg(kani) only).
// Property C18: the connection's `Parameters` become ready only after the peer's transport
// parameters were received AND the connection ids they declare equal the ones observed on the
// wire (both roles, both arrival orders of "first Initial packet" and "TLS extension"), otherwise
// a TransportParameter error; effective idle timeout = smaller non-zero advertised value.
//
// `ClientParameters`/`ServerParameters` run over verif_model::HashMap (props [[swap]]).
// Precondition taken from the only producers of peer parameter sets
// (`Parameters::<R>::parse_from_bytes`, qconnection/src/tls.rs): a peer set handed to
// `recv_remote_params` contains the role's mandatory ids (initial_source_connection_id, and for
// a server original_destination_connection_id).
use super::*;
use ::core::task::{RawWaker, RawWakerVTable};

/// Work-around for a Kani 0.68 layout bug: the goto type generated for the niche-encoded enum
/// `ParameterValue` (Bytes + PreferredAddress variants) is LARGER than rustc's `size_of`, so
/// `Box::new` / `Arc::new` of a value containing it (Arc<Parameters<R>>) writes past the object the
/// allocator returned (spurious "pointer outside object bounds", and the copy is corrupted).
/// Every heap object gets 64 bytes of slack; deallocation is a no-op (sizes no longer match).
/// Given up in these harnesses: detection of heap overflows < 64 bytes and of bad deallocations.
pub(crate) unsafe fn stub_alloc_slack(layout: std::alloc::Layout) -> *mut u8 {
    unsafe {
        std::alloc::alloc_zeroed(std::alloc::Layout::from_size_align_unchecked(layout.size() + 64, layout.align()))
    }
}
pub(crate) unsafe fn stub_dealloc_leak(_ptr: *mut u8, _layout: std::alloc::Layout) {}
pub(crate) unsafe fn stub_realloc_slack(ptr: *mut u8, layout: std::alloc::Layout, new_size: usize) -> *mut u8 {
    unsafe {
        let new = std::alloc::alloc_zeroed(std::alloc::Layout::from_size_align_unchecked(new_size + 64, layout.align()));
        let n = if layout.size() < new_size { layout.size() } else { new_size };
        ::core::ptr::copy_nonoverlapping(ptr, new, n);
        new
    }
}

/// Arbitrary connection id: length 0..=20, arbitrary bytes (also beyond `len`, as
/// `ConnectionId::random_gen` leaves them).
fn any_cid() -> ConnectionId {
    let len: u8 = kani::any();
    kani::assume(len <= 20);
    let bytes: [u8; 20] = kani::any();
    ConnectionId { len, bytes }
}

/// Connection id of the concrete length L with arbitrary bytes.
fn cid_of_len<const L: u8>() -> ConnectionId {
    let bytes: [u8; 20] = kani::any();
    ConnectionId { len: L, bytes }
}

/// Connection-id equality written independently of `PartialEq for ConnectionId` (loop-free, so
/// that the harnesses can keep a small unwind bound).
fn same_cid(a: &ConnectionId, b: &ConnectionId) -> bool {
    let n = a.len as usize;
    let e = |i: usize| i >= n || a.bytes[i] == b.bytes[i];
    a.len == b.len
        && e(0) && e(1) && e(2) && e(3) && e(4) && e(5) && e(6) && e(7) && e(8) && e(9)
        && e(10) && e(11) && e(12) && e(13) && e(14) && e(15) && e(16) && e(17) && e(18) && e(19)
}

/// C18 (support): `ConnectionId == ConnectionId` (what `authenticate_cids` uses) is equality of
/// length and of the first `len` bytes, for every length 0..=20 and arbitrary trailing bytes.
#[kani::proof]
#[kani::unwind(22)]
fn c18_cid_equality() {
    let a = any_cid();
    let b = any_cid();
    kani::cover!(a == b && a.len == 20, "equal 20-byte cids");
    kani::cover!(a == b && a.len == 0, "equal empty cids");
    kani::cover!(a != b && a.len == b.len, "same length, different bytes");
    kani::cover!(a == b && a.bytes[19] != b.bytes[19] && a.len == 19, "trailing bytes ignored");
    assert!((a == b) == same_cid(&a, &b));
}

const USE_WAKER: bool = false;
static mut WAKES: u32 = 0;
fn vt_clone(_: *const ()) -> RawWaker {
    RawWaker::new(::core::ptr::null(), &VTABLE)
}
fn vt_wake(_: *const ()) {
    unsafe { WAKES += 1 }
}
fn vt_noop(_: *const ()) {}
static VTABLE: RawWakerVTable = RawWakerVTable::new(vt_clone, vt_wake, vt_wake, vt_noop);
fn counting_waker() -> Waker {
    unsafe { Waker::from_raw(RawWaker::new(::core::ptr::null(), &VTABLE)) }
}

fn check_not_ready(p: &Parameters) {
    assert!(!p.is_remote_params_ready());
    match p.role() {
        Role::Client => assert!(p.server().is_none() && p.client().is_some()),
        Role::Server => assert!(p.client().is_none() && p.server().is_some()),
    }
    assert!(p.get_remote::<u64>(ParameterId::InitialMaxData).is_none());
}

/// C18, client role: server parameters (declaring initial_source_connection_id and
/// original_destination_connection_id, optionally retry_source_connection_id) and the first
/// Initial packet's source cid arrive in either order. Ready iff both arrived and both declared
/// cids equal the observed ones; the second event fails with TransportParameter otherwise.
fn auth_client<const LS: u8, const LO: u8, const LDS: u8, const LDO: u8>(
    params_first: bool,
    with_remembered: bool,
) {
    let odcid = cid_of_len::<LO>();
    let wire_scid = cid_of_len::<LS>();
    let decl_iscid = cid_of_len::<LDS>();
    let decl_odcid = cid_of_len::<LDO>();

    let mut server = ServerParameters::new();
    assert!(server.set(ParameterId::InitialSourceConnectionId, decl_iscid).is_ok());
    assert!(server.set(ParameterId::OriginalDestinationConnectionId, decl_odcid).is_ok());
    let mut client = ClientParameters::new();
    assert!(client.set(ParameterId::InitialSourceConnectionId, ConnectionId::default()).is_ok());

    let remembered = if with_remembered { Some(ServerParameters::new()) } else { None };
    let mut p = Parameters::new_client(client, remembered, odcid);
    assert!(p.role() == Role::Client);
    assert!(!p.is_remote_params_received());
    assert!(p.remembered().is_some() == with_remembered);
    check_not_ready(&p);

    let waker = counting_waker();
    let mut cx = Context::from_waker(&waker);
    unsafe { WAKES = 0 };
    if USE_WAKER {
        assert!(p.poll_ready(&mut cx).is_pending());
    }

    // first event: never decides, never fails
    let r1 = if params_first {
        p.recv_remote_params(server.clone())
    } else {
        p.initial_scid_from_peer_need_equal(wire_scid)
    };
    assert!(r1.is_ok());
    assert!(p.is_remote_params_received() == params_first);
    assert!(p.initial_scid_from_peer().is_some() == !params_first);
    check_not_ready(&p);
    assert!(unsafe { WAKES } == 0);

    // second event: decides
    let r2 = if params_first {
        p.initial_scid_from_peer_need_equal(wire_scid)
    } else {
        p.recv_remote_params(server.clone())
    };
    let authentic = same_cid(&decl_iscid, &wire_scid) && same_cid(&decl_odcid, &odcid);
    kani::cover!(authentic || LS != LDS || LO != LDO, "cids authentic");
    kani::cover!(!same_cid(&decl_iscid, &wire_scid), "initial scid mismatch");
    kani::cover!((same_cid(&decl_iscid, &wire_scid) && !same_cid(&decl_odcid, &odcid)) || LS != LDS || (LO == 0 && LDO == 0), "odcid mismatch");
    if authentic {
        assert!(r2.is_ok());
        assert!(p.is_remote_params_ready());
        assert!(p.server().is_some() && p.client().is_some());
        assert!(p.remembered().is_none(), "remembered parameters dropped once the real ones are in");
        if USE_WAKER {
            assert!(p.poll_ready(&mut cx).is_ready());
        }
        assert!(!USE_WAKER || unsafe { WAKES } == 1, "the waiter was woken exactly once");
        assert!(
            p.get_remote::<ConnectionId>(ParameterId::InitialSourceConnectionId) == Some(decl_iscid)
        );
    } else {
        assert!(matches!(&r2, Err(e) if e.kind() == ErrorKind::TransportParameter));
        assert!(!p.is_remote_params_ready());
        if USE_WAKER {
        assert!(p.poll_ready(&mut cx).is_pending());
    }
        assert!(unsafe { WAKES } == 0);
    }
    ::core::mem::forget(r1);
    ::core::mem::forget(r2);
    ::core::mem::forget(server);
    ::core::mem::forget(p);
}

/// C18 client, TLS extension before the first Initial packet; scid 8 bytes, odcid 8 bytes.
#[kani::proof]
#[kani::stub(std::alloc::alloc, stub_alloc_slack)]
#[kani::stub(std::alloc::dealloc, stub_dealloc_leak)]
#[kani::stub(std::alloc::realloc, stub_realloc_slack)]
#[kani::unwind(10)]
fn c18_auth_client_params_first() {
    auth_client::<8, 8, 8, 8>(true, kani::any());
}

/// C18 client, first Initial packet before the TLS extension.
#[kani::proof]
#[kani::stub(std::alloc::alloc, stub_alloc_slack)]
#[kani::stub(std::alloc::dealloc, stub_dealloc_leak)]
#[kani::stub(std::alloc::realloc, stub_realloc_slack)]
#[kani::unwind(10)]
fn c18_auth_client_packet_first() {
    auth_client::<8, 8, 8, 8>(false, kani::any());
}

/// C18 client, boundary lengths: 20-byte scid, empty odcid (symbolic arrival order).
#[kani::proof]
#[kani::stub(std::alloc::alloc, stub_alloc_slack)]
#[kani::stub(std::alloc::dealloc, stub_dealloc_leak)]
#[kani::stub(std::alloc::realloc, stub_realloc_slack)]
#[kani::unwind(22)]
fn c18_auth_client_len_20_0() {
    auth_client::<20, 0, 20, 0>(kani::any(), false);
}

/// C18 client, declared cids of another length than the observed ones: always refused.
#[kani::proof]
#[kani::stub(std::alloc::alloc, stub_alloc_slack)]
#[kani::stub(std::alloc::dealloc, stub_dealloc_leak)]
#[kani::stub(std::alloc::realloc, stub_realloc_slack)]
#[kani::unwind(10)]
fn c18_auth_client_len_mismatch() {
    auth_client::<8, 8, 8, 4>(kani::any(), false);
}

/// C18, server role: client parameters (declaring initial_source_connection_id) and the first
/// Initial packet's source cid, either order.
fn auth_server<const LW: u8, const LD: u8>(params_first: bool) {
    let wire_scid = cid_of_len::<LW>();
    let decl_iscid = cid_of_len::<LD>();

    let mut client = ClientParameters::new();
    assert!(client.set(ParameterId::InitialSourceConnectionId, decl_iscid).is_ok());
    let mut server = ServerParameters::new();
    assert!(server.set(ParameterId::InitialSourceConnectionId, ConnectionId::default()).is_ok());

    let mut p = Parameters::new_server(server);
    assert!(p.role() == Role::Server);
    assert!(!p.is_remote_params_received());
    check_not_ready(&p);
    let waker = counting_waker();
    let mut cx = Context::from_waker(&waker);
    unsafe { WAKES = 0 };
    if USE_WAKER {
        assert!(p.poll_ready(&mut cx).is_pending());
    }

    let r1 = if params_first {
        p.recv_remote_params(client.clone())
    } else {
        p.initial_scid_from_peer_need_equal(wire_scid)
    };
    assert!(r1.is_ok());
    assert!(p.is_remote_params_received() == params_first);
    check_not_ready(&p);

    let r2 = if params_first {
        p.initial_scid_from_peer_need_equal(wire_scid)
    } else {
        p.recv_remote_params(client.clone())
    };
    let authentic = same_cid(&decl_iscid, &wire_scid);
    kani::cover!(authentic || LW != LD, "authentic cid");
    kani::cover!(!authentic || (LW == 0 && LD == 0), "different cid");
    if authentic {
        assert!(r2.is_ok());
        assert!(p.is_remote_params_ready());
        if USE_WAKER {
            assert!(p.poll_ready(&mut cx).is_ready());
        }
        assert!(!USE_WAKER || unsafe { WAKES } == 1);
        assert!(
            p.get_remote::<ConnectionId>(ParameterId::InitialSourceConnectionId) == Some(decl_iscid)
        );
    } else {
        assert!(matches!(&r2, Err(e) if e.kind() == ErrorKind::TransportParameter));
        assert!(!p.is_remote_params_ready());
        assert!(unsafe { WAKES } == 0);
    }
    ::core::mem::forget(r1);
    ::core::mem::forget(r2);
    ::core::mem::forget(client);
    ::core::mem::forget(p);
}

/// C18 server, client parameters before / after the first Initial packet (symbolic order), 8-byte cids.
#[kani::proof]
#[kani::stub(std::alloc::alloc, stub_alloc_slack)]
#[kani::stub(std::alloc::dealloc, stub_dealloc_leak)]
#[kani::stub(std::alloc::realloc, stub_realloc_slack)]
#[kani::unwind(10)]
fn c18_auth_server_len_8() {
    auth_server::<8, 8>(kani::any());
}

/// C18 server, boundary lengths 20 and 0.
#[kani::proof]
#[kani::stub(std::alloc::alloc, stub_alloc_slack)]
#[kani::stub(std::alloc::dealloc, stub_dealloc_leak)]
#[kani::stub(std::alloc::realloc, stub_realloc_slack)]
#[kani::unwind(22)]
fn c18_auth_server_len_20() {
    auth_server::<20, 20>(kani::any());
}

#[kani::proof]
#[kani::stub(std::alloc::alloc, stub_alloc_slack)]
#[kani::stub(std::alloc::dealloc, stub_dealloc_leak)]
#[kani::stub(std::alloc::realloc, stub_realloc_slack)]
#[kani::unwind(10)]
fn c18_auth_server_len_0() {
    auth_server::<0, 0>(kani::any());
}

/// C18 server, declared cid of another length than the observed one: always refused.
#[kani::proof]
#[kani::stub(std::alloc::alloc, stub_alloc_slack)]
#[kani::stub(std::alloc::dealloc, stub_dealloc_leak)]
#[kani::stub(std::alloc::realloc, stub_realloc_slack)]
#[kani::unwind(10)]
fn c18_auth_server_len_mismatch() {
    auth_server::<8, 5>(kani::any());
}

/// C18 (pending — suspected defect): RFC 9000 §7.3: a client that received a Retry packet must
/// find retry_source_connection_id == the Retry's source cid in the server's parameters (and must
/// find it absent if there was no Retry). `authenticate_cids` ignores `retry_scid` (the check is
/// commented out), so a mismatching / missing retry_source_connection_id is accepted.
#[kani::proof]
#[kani::stub(std::alloc::alloc, stub_alloc_slack)]
#[kani::stub(std::alloc::dealloc, stub_dealloc_leak)]
#[kani::stub(std::alloc::realloc, stub_realloc_slack)]
#[kani::unwind(10)]
fn c18_auth_client_retry_scid() {
    let odcid = cid_of_len::<8>();
    let wire_scid = cid_of_len::<8>();
    let retry_wire = cid_of_len::<8>();
    let decl_retry = cid_of_len::<8>();
    let declares_retry: bool = kani::any();

    let mut server = ServerParameters::new();
    assert!(server.set(ParameterId::InitialSourceConnectionId, wire_scid).is_ok());
    assert!(server.set(ParameterId::OriginalDestinationConnectionId, odcid).is_ok());
    if declares_retry {
        assert!(server.set(ParameterId::RetrySourceConnectionId, decl_retry).is_ok());
    }
    let mut client = ClientParameters::new();
    assert!(client.set(ParameterId::InitialSourceConnectionId, ConnectionId::default()).is_ok());
    let mut p = Parameters::new_client(client, None, odcid);
    p.retry_scid_from_server_need_equal(retry_wire);
    assert!(p.initial_scid_from_peer_need_equal(wire_scid).is_ok());
    let r = p.recv_remote_params(server);
    let authentic = declares_retry && same_cid(&decl_retry, &retry_wire);
    kani::cover!(authentic, "retry cid authentic");
    assert!(r.is_ok() == authentic, "retry_source_connection_id must match the Retry packet");
    ::core::mem::forget(r);
    ::core::mem::forget(p);
}

/// Any Duration (what a local configuration may hold) / any whole-millisecond Duration < 2^62 ms
/// (what the wire can carry) — the negotiation only compares, so both are covered by (secs, nanos).
fn any_duration() -> Duration {
    let secs: u64 = kani::any();
    let nanos: u32 = kani::any();
    kani::assume(nanos < 1_000_000_000);
    Duration::new(secs, nanos)
}

/// C18: effective idle timeout == the smaller non-zero of the two advertised values (absent == 0;
/// both zero: no timeout, reported as Duration::MAX); None until the peer's parameters are ready.
#[kani::proof]
#[kani::stub(std::alloc::alloc, stub_alloc_slack)]
#[kani::stub(std::alloc::dealloc, stub_dealloc_leak)]
#[kani::stub(std::alloc::realloc, stub_realloc_slack)]
#[kani::unwind(10)]
fn c18_idle_timeout_negotiated() {
    let as_client: bool = kani::any();
    let local = any_duration();
    let remote = any_duration();
    let local_present: bool = kani::any();
    let remote_present: bool = kani::any();
    let cid = ConnectionId::from_slice(&[1, 2, 3, 4]);

    let mut client = ClientParameters::new();
    let mut server = ServerParameters::new();
    assert!(client.set(ParameterId::InitialSourceConnectionId, cid).is_ok());
    assert!(server.set(ParameterId::InitialSourceConnectionId, cid).is_ok());
    assert!(server.set(ParameterId::OriginalDestinationConnectionId, cid).is_ok());
    let (c_idle, c_present, s_idle, s_present) = if as_client {
        (local, local_present, remote, remote_present)
    } else {
        (remote, remote_present, local, local_present)
    };
    if c_present {
        assert!(client.set(ParameterId::MaxIdleTimeout, c_idle).is_ok());
    }
    if s_present {
        assert!(server.set(ParameterId::MaxIdleTimeout, s_idle).is_ok());
    }
    let mut p = if as_client {
        let mut p = Parameters::new_client(client, None, cid);
        assert!(p.negotiated_max_idle_timeout().is_none());
        assert!(p.recv_remote_params(server).is_ok());
        p
    } else {
        let mut p = Parameters::new_server(server);
        assert!(p.negotiated_max_idle_timeout().is_none());
        assert!(p.recv_remote_params(client).is_ok());
        p
    };
    assert!(p.negotiated_max_idle_timeout().is_none());
    assert!(p.initial_scid_from_peer_need_equal(cid).is_ok());
    assert!(p.is_remote_params_ready());

    let l = if local_present { local } else { Duration::ZERO };
    let r = if remote_present { remote } else { Duration::ZERO };
    let want = if l == Duration::ZERO && r == Duration::ZERO {
        Duration::MAX
    } else if l == Duration::ZERO {
        r
    } else if r == Duration::ZERO {
        l
    } else if l < r {
        l
    } else {
        r
    };
    let got = p.negotiated_max_idle_timeout();
    kani::cover!(l != Duration::ZERO && r != Duration::ZERO && l < r, "local value is the smaller");
    kani::cover!(l != Duration::ZERO && r != Duration::ZERO && r < l, "remote value is the smaller");
    kani::cover!(l == Duration::ZERO && r != Duration::ZERO, "only the peer advertises");
    kani::cover!(!local_present && !remote_present, "nobody advertises");
    assert!(got == Some(want));
    ::core::mem::forget(p);
}
